CONSTANTS TraceFile = "trace.ndjson"
  Excl = TRUE
SPECIFICATION TSpec
INVARIANT Emit
CHECK_DEADLOCK FALSE
