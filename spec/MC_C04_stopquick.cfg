CONSTANTS N = 2
CONSTANT Configs <- OutcomeQuick
SPECIFICATION MCSpec
VIEW MCView
CONSTRAINT ExecBound
INVARIANTS TypeOK C04_Outcome C04_HandlerLog C04_ReturnAgrees
CHECK_DEADLOCK FALSE
