CONSTANTS N = 2
CONSTANT Configs <- OutcomeQuick
SPECIFICATION MCSpec
VIEW MCView
CONSTRAINT ExecBound
INVARIANTS Lead_C04_HandlerLog
CHECK_DEADLOCK FALSE
