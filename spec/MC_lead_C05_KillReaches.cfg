CONSTANTS N = 2
CONSTANT Configs <- StopQuick
SPECIFICATION MCSpec
VIEW MCView
CONSTRAINT ExecBound
INVARIANTS Lead_C05_KillReaches
CHECK_DEADLOCK FALSE
