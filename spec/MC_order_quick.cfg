CONSTANTS N = 3
CONSTANT Configs <- OrderQuick
SPECIFICATION Spec
CONSTRAINT ExecBound
INVARIANTS TypeOK C01_NoEarlyStart C15_Limit C03_BoundInv C03_NoGhost C02_Final C04_NoRunningLeft C04_Outcome
CHECK_DEADLOCK FALSE
