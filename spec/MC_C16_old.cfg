SPECIFICATION Spec
CONSTANTS Agents = {"a1","a2"}
 NSteps = 2
 AllowCrash = FALSE
 FixStatus = TRUE
 BindFailUnlinks = FALSE
 ExclusiveBind = FALSE
INVARIANTS C16_MutexUnlessWindowRace C16_RefusedRecordsNothing
CHECK_DEADLOCK FALSE
