CONSTANTS N = 3
  TreatRunningAsUnfinished = FALSE
SPECIFICATION Spec
INVARIANT C10_WalkIsClosure
PROPERTY C10_WalkEnds
CHECK_DEADLOCK FALSE
