CONSTANTS N = 2
CONSTANT Configs <- StopTimeoutQuick
SPECIFICATION MCSpec
VIEW MCView
CONSTRAINT ExecBound
INVARIANTS TypeOK C05_NoLateFresh

CHECK_DEADLOCK FALSE
