---------------------------- MODULE Props_Admission ----------------------------
(* C14: which dependency graphs may be admitted to execution - declarative definition,
   independent of the algorithm the code uses (Kahn's algorithm in graph.go:hasCycle).
   deps is a sequence: deps[i] = sequence of step indices step i depends on; 0 stands for a
   name that no step carries (a dangling dependency).                                       *)
EXTENDS Integers, Sequences, FiniteSets

Rng(seq) == {seq[i] : i \in DOMAIN seq}
NodesOf(deps) == 1..Len(deps)
DepSet(deps, s) == Rng(deps[s]) \ {0}
NoDangling(deps) == \A s \in NodesOf(deps) : 0 \notin Rng(deps[s])

\* everything s transitively depends on: least fixed point, reached after at most Len(deps) rounds
RECURSIVE Grow(_, _, _)
Grow(deps, S, k) == IF k = 0 THEN S
                    ELSE Grow(deps, S \cup UNION {DepSet(deps, t) : t \in S}, k - 1)
Ancestors(deps, s) == Grow(deps, DepSet(deps, s), Len(deps))
Acyclic(deps) == \A s \in NodesOf(deps) : s \notin Ancestors(deps, s)

Admissible(deps) == NoDangling(deps) /\ Acyclic(deps)
=============================================================================
