---------------------------- MODULE DagStore ----------------------------
(* C18, the save of a definition at system-call grain (local/dag_store.go UpdateSpec after 7d260b7):
   validate . openat(O_CREAT|O_TRUNC <file>.tmp) . write(text) . close . renameat(<file>.tmp, <file>),
   the saving process may be killed anywhere, a write may be torn, and the definition is saved again afterwards by
   another process (a series of saves; the temporary file of a killed save is still there).
   File contents are sequences of characters; a write overwrites from offset 0 and keeps what lies behind it, which is
   why the open must truncate.
   Atomic = FALSE models the code before the fix (openat(O_TRUNC <file>) . write): TLC finds the window with an
   empty / partial definition.  Trunc = FALSE models the seeded defect C18-d (the temporary file is opened without
   O_TRUNC): TLC finds the shorter text saved after a killed save of a longer one, followed by the longer one's tail.
   Since 7d5873a every save creates a temporary file of its own (see DagStoreConc.tla); for one saver at a time that
   is this model with Trunc = TRUE: the file a save writes to starts empty.                                        *)
EXTENDS Integers, Sequences, TLC

CONSTANTS Atomic, Trunc
Old   == <<"a", "a", "a">>
Texts == << <<"b", "b", "b", "b">>, <<"c", "c">>, <<"d", "d", "d">> >>       \* saved one after the other

VARIABLES file,       \* content of the definition
          tmpExists, tmp,   \* the temporary file
          pc,         \* "start" | "opened" | "written" | "done" | "crashed"
          k           \* the save in progress (index into Texts)
vars == <<file, tmpExists, tmp, pc, k>>

Over(c, t) == t \o SubSeq(c, Len(t) + 1, Len(c))             \* write t at offset 0 of content c
Prefixes(t) == {SubSeq(t, 1, n) : n \in 0..(Len(t) - 1)}      \* what a torn write gets through

Init == file = Old /\ tmpExists = FALSE /\ tmp = <<>> /\ pc = "start" /\ k = 1
Open == /\ pc = "start" /\ pc' = "opened" /\ UNCHANGED k
        /\ IF Atomic THEN /\ tmpExists' = TRUE /\ tmp' = IF Trunc \/ ~tmpExists THEN <<>> ELSE tmp
                          /\ UNCHANGED file
                     ELSE /\ file' = IF Trunc THEN <<>> ELSE file
                          /\ UNCHANGED <<tmpExists, tmp>>
Write == /\ pc = "opened" /\ pc' = "written" /\ UNCHANGED <<k, tmpExists>>
         /\ IF Atomic THEN tmp' = Over(tmp, Texts[k]) /\ UNCHANGED file
                      ELSE file' = Over(file, Texts[k]) /\ UNCHANGED tmp
Rename == /\ pc = "written" /\ Atomic /\ file' = tmp /\ tmpExists' = FALSE /\ tmp' = <<>> /\ pc' = "done" /\ UNCHANGED k
Finish == /\ pc = "written" /\ ~Atomic /\ pc' = "done" /\ UNCHANGED <<file, tmpExists, tmp, k>>
Crash == /\ pc \notin {"done", "crashed"} /\ pc' = "crashed" /\ UNCHANGED <<k, tmpExists>>
         /\ \/ UNCHANGED <<file, tmp>>
            \/ /\ pc = "opened"                   \* the write in flight is torn
               /\ \E p \in Prefixes(Texts[k]) :
                    IF Atomic THEN tmp' = Over(tmp, p) /\ UNCHANGED file ELSE file' = Over(file, p) /\ UNCHANGED tmp
\* the next save, by a fresh process
NextSave == /\ pc \in {"done", "crashed"} /\ k < Len(Texts) /\ k' = k + 1 /\ pc' = "start"
            /\ UNCHANGED <<file, tmpExists, tmp>>
Next == Open \/ Write \/ Rename \/ Finish \/ Crash \/ NextSave
Spec == Init /\ [][Next]_vars
C18_AllOrNothing == file = Old \/ \E i \in 1..k : file = Texts[i]
C18_SavedWhenDone == pc = "done" => file = Texts[k]
=============================================================================
