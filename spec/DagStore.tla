---------------------------- MODULE DagStore ----------------------------
(* C18, the save of a definition at system-call grain (local/dag_store.go UpdateSpec after 7d260b7):
   validate . openat(O_CREAT|O_TRUNC <file>.tmp) . write(text) . close . renameat(<file>.tmp, <file>),
   the saving process may be killed anywhere, a write may be torn.  Atomic == FALSE models the code before
   the fix (openat(O_TRUNC <file>) . write): TLC then finds the window with an empty / partial definition. *)
EXTENDS Integers, Sequences, TLC

CONSTANTS Atomic
VARIABLES file,   \* content of the definition: "old" | "new" | "empty" | "partial"
          tmp,    \* content of the temporary file: "none" | "empty" | "partial" | "new"
          pc      \* "start" | "opened" | "written" | "renamed" | "done" | "crashed"
vars == <<file, tmp, pc>>
Init == file = "old" /\ tmp = "none" /\ pc = "start"
Open == /\ pc = "start" /\ pc' = "opened"
        /\ IF Atomic THEN tmp' = "empty" /\ UNCHANGED file ELSE file' = "empty" /\ UNCHANGED tmp
Write == /\ pc = "opened" /\ pc' = "written"
         /\ IF Atomic THEN tmp' = "new" /\ UNCHANGED file ELSE file' = "new" /\ UNCHANGED tmp
Rename == /\ pc = "written" /\ Atomic /\ file' = tmp /\ tmp' = "none" /\ pc' = "done"
Finish == /\ pc = "written" /\ ~Atomic /\ pc' = "done" /\ UNCHANGED <<file, tmp>>
Crash == /\ pc \notin {"done", "crashed"} /\ pc' = "crashed"
         /\ \/ UNCHANGED <<file, tmp>>
            \/ /\ pc = "opened"                   \* the write in flight is torn
               /\ IF Atomic THEN tmp' = "partial" /\ UNCHANGED file ELSE file' = "partial" /\ UNCHANGED tmp
Next == Open \/ Write \/ Rename \/ Finish \/ Crash
Spec == Init /\ [][Next]_vars
C18_AllOrNothing == file \in {"old", "new"}
C18_SavedWhenDone == pc = "done" => file = "new"
=============================================================================
