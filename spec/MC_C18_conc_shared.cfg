CONSTANTS Savers = {"a", "b"}
  UniqueTmp = FALSE
SPECIFICATION Spec
INVARIANTS C18_AllOrNothing C18_AcceptedIsStored C18_NoSaveRefused
CHECK_DEADLOCK FALSE
