------------------------------ MODULE NodeIO ------------------------------
(* C12 (and the capture clause of C11): one step's output plumbing across attempts.
   node.go setup / setupExec / Execute / teardown; scheduler.go worker (deferred teardown) and the retry
   relaunch.  Sizes are abstract: B = bufio size (4096 in the code), P = pipe capacity (65536); emissions
   are chosen from a small set around those boundaries.
   FixDone = TRUE models the code after ced599f (done flag reset by setup), FixDrain = TRUE the code after
   9fee3ec (output pipe drained while the command runs); with FALSE the model shows the old defects
   (F-12a: last attempt's buffered bytes never flushed; F-11b: child blocked on the full pipe).
   FixHandover = TRUE models the code after the F-12b fix: a failed attempt that is retried closes its own files
   BEFORE it gives the node back to the loop (status -> none), and its goroutine's later explicit / deferred
   teardown is skipped.  With FALSE the old goroutine's deferred teardown (`tailPending`) may run after the
   relaunched attempt installed its files; `raced` records that (F-12b): C12_Log fails there.            *)
EXTENDS Integers, Sequences, FiniteSets, TLC

CONSTANTS B, P, Sizes, MaxAttempts,
          CfgStdout, CfgOutput,      \* step configuration: `stdout:` file? `output:` variable?
          FixDone,                   \* model the candidate fix "reset done in setup"
          FixDrain,                  \* model the candidate fix "drain the pipe concurrently"
          FixHandover,               \* teardown before the retry hand-over, none afterwards
          WriteCalls,                \* the executor calls Write on the writer (jq / http / mail / docker) instead of a child whose
                                     \* output os/exec copies with ReadFrom: then EVERY writer is buffered, the stderr file's too
          FixFlushAll                \* teardown flushes and closes the observed writer (F-12c: the stderr writer was left out;
                                     \* FALSE = the writer is one teardown forgets, TRUE = the code after 048b30e)

VARIABLES pc,        \* worker of the current attempt: setup | wire | emit | wait | drain | after | teardown | gone
          attempt,   \* 1..MaxAttempts
          gen,       \* generation of the installed writers (= attempt that ran setup last), 0 = none
          buffered,  \* bytes sitting in the log bufio.Writer of generation gen
          onDisk,    \* [1..MaxAttempts -> Nat] bytes on disk in the log file of each attempt
          closedGen, \* set of generations whose files were closed
          doneFlag,  \* Node.done
          toEmit,    \* bytes the child still wants to print in this attempt
          emitted,   \* [1..MaxAttempts -> Nat] bytes the child printed in each attempt
          pipeFill,  \* bytes in the output pipe
          tailPending, \* previous attempt's goroutine has its deferred teardown still to run
          lost,      \* history: bytes written to a closed file
          raced      \* history: an old goroutine's teardown hit the files of a later attempt

vars == <<pc, attempt, gen, buffered, onDisk, closedGen, doneFlag, toEmit, emitted, pipeFill, tailPending, lost, raced>>

Mod(a, b) == a - b * (a \div b)
Buffered == CfgStdout \/ CfgOutput \/ WriteCalls     \* MultiWriter path or Write calls; a child's plain log goes through ReadFrom (unbuffered)

Init == /\ pc = "setup" /\ attempt = 1 /\ gen = 0 /\ buffered = 0
        /\ onDisk = [a \in 1..MaxAttempts |-> 0] /\ closedGen = {} /\ doneFlag = FALSE
        /\ toEmit = 0 /\ emitted = [a \in 1..MaxAttempts |-> 0] /\ pipeFill = 0
        /\ tailPending = FALSE /\ lost = 0 /\ raced = FALSE

Setup == /\ pc = "setup"
         /\ gen' = attempt /\ buffered' = 0       \* new files + new bufio writers; old buffer content is dropped
         /\ doneFlag' = IF FixDone THEN FALSE ELSE doneFlag
         /\ \E n \in Sizes : toEmit' = n
         /\ pc' = "emit"
         /\ UNCHANGED <<attempt, onDisk, closedGen, emitted, pipeFill, tailPending, lost, raced>>

\* the child prints a chunk; exec's copy goroutine pushes it through the writer chain
Emit == /\ pc = "emit" /\ toEmit > 0
        /\ LET room  == IF CfgOutput /\ ~FixDrain THEN P - pipeFill ELSE toEmit
               chunk == IF toEmit <= room THEN toEmit ELSE room
           IN /\ chunk > 0                               \* pipe full and nobody reads: blocked
              /\ toEmit' = toEmit - chunk
              /\ emitted' = [emitted EXCEPT ![attempt] = @ + chunk]
              /\ pipeFill' = IF CfgOutput /\ ~FixDrain THEN pipeFill + chunk ELSE pipeFill
              /\ IF gen \in closedGen
                   THEN lost' = lost + chunk /\ UNCHANGED <<buffered, onDisk>>
                 ELSE IF Buffered
                   THEN LET tot == buffered + chunk IN      \* bufio flushes whole buffers
                        /\ buffered' = Mod(tot, B)
                        /\ onDisk' = [onDisk EXCEPT ![gen] = @ + (tot - Mod(tot, B))]
                        /\ UNCHANGED lost
                 ELSE /\ onDisk' = [onDisk EXCEPT ![gen] = @ + chunk] /\ UNCHANGED <<buffered, lost>>
        /\ UNCHANGED <<pc, attempt, gen, closedGen, doneFlag, tailPending, raced>>

ChildExit == /\ pc = "emit" /\ toEmit = 0                  \* cmd.Run returns; pipe drained afterwards
             /\ pipeFill' = 0
             /\ \E ok \in BOOLEAN :
                  pc' = IF ok \/ attempt = MaxAttempts THEN "teardown" ELSE "retry"
             /\ UNCHANGED <<attempt, gen, buffered, onDisk, closedGen, doneFlag, toEmit, emitted, tailPending, lost, raced>>

DoTeardown(g) == IF doneFlag THEN UNCHANGED <<buffered, onDisk, closedGen, doneFlag>>
                 ELSE /\ doneFlag' = TRUE
                      /\ onDisk' = IF g \in closedGen \/ g = 0 \/ ~FixFlushAll THEN onDisk ELSE [onDisk EXCEPT ![g] = @ + buffered]
                      /\ buffered' = 0
                      /\ closedGen' = closedGen \cup {g}

\* failed attempt with retries left: the goroutine returns (its teardown is deferred = tail), status -> None,
\* the loop relaunches a new goroutine which runs setup
Retry == /\ pc = "retry"
         /\ attempt' = attempt + 1 /\ pc' = "setup"
         /\ IF FixHandover
              THEN /\ DoTeardown(gen) /\ UNCHANGED tailPending       \* scheduler.go retry branch: teardown, handedOver, status -> none
              ELSE /\ tailPending' = TRUE /\ UNCHANGED <<buffered, onDisk, closedGen, doneFlag>>
         /\ UNCHANGED <<gen, toEmit, emitted, pipeFill, lost, raced>>

OldTail == /\ tailPending                                  \* runs whenever the old goroutine gets scheduled
           /\ tailPending' = FALSE
           /\ DoTeardown(gen)
           /\ raced' = (raced \/ (gen = attempt /\ pc # "setup"))      \* the files it closes belong to the relaunched attempt
           /\ UNCHANGED <<pc, attempt, gen, toEmit, emitted, pipeFill, lost>>

Teardown == /\ pc = "teardown" /\ ~tailPending             \* (explicit + deferred teardown of the last attempt)
            /\ DoTeardown(gen)
            /\ pc' = "gone"
            /\ UNCHANGED <<attempt, gen, toEmit, emitted, pipeFill, tailPending, lost, raced>>

Next == Setup \/ Emit \/ ChildExit \/ Retry \/ OldTail \/ Teardown
Spec == Init /\ [][Next]_vars /\ WF_vars(Next)

\* C12: when the step is reported finished its log holds everything the last attempt printed
C12_Log == pc = "gone" => onDisk[attempt] = emitted[attempt]
C12_LogUnlessRaced == pc = "gone" /\ ~raced => onDisk[attempt] = emitted[attempt]
C12_NothingLostUnlessRaced == ~raced => lost = 0
C12_NothingLost == lost = 0
\* C11/C12: the step always finishes (no blocked child)
Finishes == <>(pc = "gone")
=============================================================================
