CONSTANTS TraceFile = "trace.ndjson"
  R = 2
  N = 2
  Find = FALSE
  Lock = TRUE
  WithUpdate = TRUE
  Relist = TRUE
  MaxRelist = 3
SPECIFICATION TSpec
INVARIANT Emit
CHECK_DEADLOCK FALSE
