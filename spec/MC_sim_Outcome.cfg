CONSTANTS N = 3
CONSTANT Configs <- OutcomeFull
SPECIFICATION MCSpec
INVARIANTS EmitBehaviour
CHECK_DEADLOCK FALSE
