\* the code before the fix (F-06d): TLC finds the stale answer and the panic
CONSTANTS Readers = {"q1", "q2", "q3"}
  MaxVer = 3
  MaxQueries = 2
  ReturnChecked = FALSE
  RestatAfterLoad = FALSE
INIT CInit
NEXT CNext
INVARIANTS TypeOK C06_QueryFresh C06_QueryNeverPanics C06_EntryNotOlderThanStamp C06_QuietThenLast
CHECK_DEADLOCK FALSE
