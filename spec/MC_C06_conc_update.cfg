\* a manual update issued while Close compacts the run's file, with the lock protocol of the fix of F-06h
CONSTANTS R = 2
  N = 1
  Find = TRUE
  Lock = TRUE
  WithUpdate = TRUE
  Relist = TRUE
  MaxRelist = 3
SPECIFICATION Spec
INVARIANTS C06_UpdateIsKept C06_QueryLinearizable
CHECK_DEADLOCK FALSE
