---------------------------- MODULE CrashObserve ----------------------------
(* C07.  Judges one record per kill point: the history operations ops[1..nprior] were executed
   normally, ops[nprior+1..] by a child process that was SIGKILLed at a system-call boundary (or in
   the middle of a write); nack operations had been acknowledged.  `ans` is what the real queries
   answered afterwards, in a fresh process.

   The surviving store must be, as far as the queries can tell, one of the legal states between
   "all acknowledged operations applied" (A) and "the operation in flight applied as well" (B):
     open / write / close / update : A or B
     rename d -> d2                : A with any subset of d's runs already carried over
     retention / delete            : A with any subset of the doomed runs already gone
   and on that state the queries must answer as C06 demands, with two sharpenings that only matter
   after a crash: a newest run that has no status yet (its file was created, nothing written) must
   neither make the latest query fail nor take the place of an acknowledged run in recent(n).
   When the record has `after` operations, a fresh process performed them on the surviving store and asked again (ans2):
   the second answers must be those of the same candidate state with `after` applied to it (the store goes on recording,
   and what it records after the crash is not hidden by the debris of the crash).                                      *)
EXTENDS Integers, Sequences, FiniteSets, TLC, Json

CONSTANTS TraceFile, TodayFrom
Trace == ndJsonDeserialize(TraceFile)
VARIABLES l, bad
R == Trace[l]
NoRun == "none"

\* ---- History.tla as a function on states [runs, open] --------------------------------------
Empty == [runs |-> <<>>, open |-> NoRun]
Dom(s) == DOMAIN s.runs
Step(s, o) ==
  CASE o.op = "Open"  -> IF o.r \in Dom(s) THEN s
                         ELSE [runs |-> (o.r :> [dag |-> o.d, ts |-> o.ts, st |-> <<>>, age |-> 0]) @@ s.runs, open |-> o.r]
    [] o.op = "Write" -> IF s.open = NoRun \/ s.open \notin Dom(s) THEN s
                         ELSE [s EXCEPT !.runs[s.open].st = Append(@, o.st), !.runs[s.open].age = 0]
    [] o.op = "Close" -> [runs |-> IF s.open \in Dom(s) /\ s.runs[s.open].st # <<>> THEN [s.runs EXCEPT ![s.open].age = 0] ELSE s.runs,
                          open |-> NoRun]
    [] o.op = "Update" -> IF o.r \in Dom(s) /\ s.runs[o.r].dag = o.d /\ s.runs[o.r].st # <<>>
                            THEN [s EXCEPT !.runs[o.r].st = Append(@, o.st), !.runs[o.r].age = 0] ELSE s
    [] o.op = "Rename" -> [s EXCEPT !.runs = [r \in Dom(s) |-> IF s.runs[r].dag = o.d THEN [s.runs[r] EXCEPT !.dag = o.to] ELSE s.runs[r]]]
    [] o.op = "RemoveOld" -> [s EXCEPT !.runs = [r \in {x \in Dom(s) : ~(s.runs[x].dag = o.d /\ (o.days = 0 \/ s.runs[x].age > o.days))} |-> s.runs[r]]]
    [] o.op = "RemoveAll" -> [s EXCEPT !.runs = [r \in {x \in Dom(s) : s.runs[x].dag # o.d} |-> s.runs[r]]]
    [] o.op = "SetAge" -> IF o.r \in Dom(s) THEN [s EXCEPT !.runs[o.r].age = o.age] ELSE s
RECURSIVE Fold(_, _, _)
Fold(s, ops, n) == IF n = 0 THEN s ELSE Step(Fold(s, ops, n - 1), ops[n])

\* ---- legal surviving states ------------------------------------------------------------------
Candidates(r) ==
  LET A == Fold(Empty, r.ops, r.nack)
      inflight == r.nack < Len(r.ops) /\ r.nack >= r.nprior
  IN IF ~inflight THEN {A}
     ELSE LET o == r.ops[r.nack + 1]
              B == Step(A, o) IN
          IF o.op = "Rename"
            THEN {[A EXCEPT !.runs = [x \in Dom(A) |-> IF x \in M THEN [A.runs[x] EXCEPT !.dag = o.to] ELSE A.runs[x]]]
                    : M \in SUBSET {x \in Dom(A) : A.runs[x].dag = o.d}}
          ELSE IF o.op \in {"RemoveOld", "RemoveAll"}
            THEN {[A EXCEPT !.runs = [x \in Dom(A) \ M |-> A.runs[x]]] : M \in SUBSET (Dom(A) \ Dom(B))}
          ELSE {A, B}

\* ---- what the queries must answer on a state (C06 + the two crash sharpenings) -----------------
Has(s, x) == s.runs[x].st # <<>>
LastOf(s, x) == s.runs[x].st[Len(s.runs[x].st)]
WithStatus(s, d) == {x \in Dom(s) : s.runs[x].dag = d /\ Has(s, x)}
NewestOf(s, S) == CHOOSE x \in S : \A q \in S : s.runs[q].ts <= s.runs[x].ts
FindOn(s, d, x) == IF x \in WithStatus(s, d) THEN LastOf(s, x) ELSE "notfound"
LatestOn(s, d, todayOnly) == LET S == {x \in WithStatus(s, d) : ~todayOnly \/ s.runs[x].ts >= TodayFrom} IN
                             IF S = {} THEN "nodata" ELSE LastOf(s, NewestOf(s, S))
RECURSIVE TopOn(_, _, _)
TopOn(s, S, n) == IF n = 0 \/ S = {} THEN <<>> ELSE LET x == NewestOf(s, S) IN <<LastOf(s, x)>> \o TopOn(s, S \ {x}, n - 1)
RecentOn(s, d, n) == TopOn(s, WithStatus(s, d), n)

DAGsOf(a) == DOMAIN a
FindOK(s, a)      == \A d \in DAGsOf(a) : \A x \in DOMAIN a[d].find : a[d].find[x] = FindOn(s, d, x)
LatestOK(s, a, t) == \A d \in DAGsOf(a) : a[d].latest = LatestOn(s, d, t)
RecentOK(s, a)    == \A d \in DAGsOf(a) : /\ a[d].recent1 = RecentOn(s, d, 1)
                                           /\ a[d].recent2 = RecentOn(s, d, 2)
                                           /\ a[d].recent9 = RecentOn(s, d, 9)
AllOK(s, a, t) == FindOK(s, a) /\ LatestOK(s, a, t) /\ RecentOK(s, a)
\* the store goes on recording after the crash: a fresh process performs r.after on whatever survived and the queries are
\* asked again (ans2); on the state the survivor stands for, that is History's Step applied to it
HasAfter(r) == Len(r.after) > 0
Post(s, r) == Fold(s, r.after, Len(r.after))
Clauses(r) ==
  LET C == Candidates(r)
      t == r.todayOnly
      C1 == {s \in C : AllOK(s, r.ans, t)} IN
  IF C1 = {}
    THEN (IF ~\E s \in C : FindOK(s, r.ans) THEN {"C07_LookupWrong"} ELSE {})
         \cup (IF ~\E s \in C : FindOK(s, r.ans) /\ LatestOK(s, r.ans, t) THEN {"C07_LatestWrong"} ELSE {})
         \cup (IF ~\E s \in C : FindOK(s, r.ans) /\ RecentOK(s, r.ans) THEN {"C07_RecentWrong"} ELSE {})
  ELSE IF ~HasAfter(r) \/ \E s \in C1 : AllOK(Post(s, r), r.ans2, t) THEN {}
  ELSE (IF ~\E s \in C1 : FindOK(Post(s, r), r.ans2) THEN {"C07_LookupWrongAfterRecovery"} ELSE {})
       \cup (IF ~\E s \in C1 : FindOK(Post(s, r), r.ans2) /\ LatestOK(Post(s, r), r.ans2, t) THEN {"C07_LatestWrongAfterRecovery"} ELSE {})
       \cup (IF ~\E s \in C1 : FindOK(Post(s, r), r.ans2) /\ RecentOK(Post(s, r), r.ans2) THEN {"C07_RecentWrongAfterRecovery"} ELSE {})

\* discriminating facts for known-findings matching
InflightOp(r) == IF r.nack < Len(r.ops) /\ r.nack >= r.nprior THEN r.ops[r.nack + 1].op ELSE "none"

Init == l = 1 /\ bad = 0
Next == /\ l <= Len(Trace) /\ l' = l + 1
        /\ LET c == Clauses(R) IN
           IF c = {} THEN UNCHANGED bad
           ELSE bad' = bad + 1 /\ PrintT("VERDICT " \o ToJson([line |-> l, viol |-> c, scen |-> R.scen, label |-> R.label, k |-> R.k,
                    sys |-> R.sys, torn |-> R.torn, nack |-> R.nack, inflight |-> InflightOp(R), latestError |-> R.latestError,
                    recentDuplicate |-> R.recentDup, emptyFile |-> R.emptyFile, files |-> R.files, ans |-> R.ans, after |-> R.after, ans2 |-> R.ans2]))
Spec == Init /\ [][Next]_<<l, bad>>
Emit == (l = Len(Trace) + 1) => PrintT("CONSUMED " \o ToString(Len(Trace)) \o " bad " \o ToString(bad))
=============================================================================
