CONSTANTS NoRun = NoRun
  TodayFrom = 4
  DAGs = {"d1", "d2", "d3"}
  RQ = {"r1", "r2", "r3", "r4", "r5", "r6"}
  MaxTs = 9
  MaxSt = 3
  MaxOps = 16
INIT MInit
NEXT MNext
INVARIANTS EmitBehaviour
CHECK_DEADLOCK FALSE
