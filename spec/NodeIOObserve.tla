---------------------------- MODULE NodeIOObserve ----------------------------
(* C12 (and the capture clause of C11): judges records of real steps run by the real scheduler with the
   real command executor (vh nodeio).  Each record says, for one configuration, what the log named in the
   node status, the stdout file, the stderr file and the output variable hold compared with what the child
   process printed (byte-exact comparison done by the rig, lengths and first difference logged).        *)
EXTENDS Integers, Sequences, TLC, Json
CONSTANT TraceFile
Trace == ndJsonDeserialize(TraceFile)
VARIABLES l, bad
R == Trace[l]
ExpectedStatus(r) == IF r.sc.failUntil > r.sc.retries THEN "failed" ELSE "finished"
ExpectedAttempts(r) == IF r.sc.failUntil > r.sc.retries THEN r.sc.retries + 1 ELSE r.sc.failUntil + 1
Clauses(r) ==
  IF r.crashed THEN {"C12_ProcessCrashedWhileLogging"} ELSE        \* the process running the step died while handling its output
  (IF r.hung THEN {"C12_StepNeverFinishes"} ELSE {})
  \cup (IF ~r.hung /\ ~r.log.equal THEN {"C12_LogIncomplete"} ELSE {})
  \cup (IF ~r.hung /\ ~r.stdoutFile.equal THEN {"C12_StdoutFileIncomplete"} ELSE {})
  \cup (IF ~r.hung /\ ~r.stderrFile.equal THEN {"C12_StderrFileIncomplete"} ELSE {})
  \cup (IF ~r.hung /\ ~r.outputVar.equal THEN {"C11_CapturedOutputWrong"} ELSE {})
  \* (a repeating step runs until the run is stopped: its number of iterations and final label are not fixed by the scenario)
  \cup (IF ~r.hung /\ r.sc.repeat = 0 /\ (r.status # ExpectedStatus(r) \/ r.attempts # ExpectedAttempts(r)) THEN {"C12_AttemptDisturbed"} ELSE {})
  \cup (IF ~r.hung /\ r.sc.repeat > 0 /\ r.attempts < r.sc.repeat THEN {"C12_AttemptDisturbed"} ELSE {})
Init == l = 1 /\ bad = 0
Next == /\ l <= Len(Trace) /\ l' = l + 1
        /\ LET c == Clauses(R) IN IF c = {} THEN UNCHANGED bad
           ELSE bad' = bad + 1 /\ PrintT("VERDICT " \o ToJson([line |-> l, viol |-> c, rec |-> R]))
Spec == Init /\ [][Next]_<<l, bad>>
Emit == (l = Len(Trace) + 1) => PrintT("CONSUMED " \o ToString(Len(Trace)) \o " bad " \o ToString(bad))
=============================================================================
