------------------------------ MODULE CronOps ------------------------------
(* C09, the part of the daemon that CronDaemon.tla leaves out: the three operations (start, stop, restart schedules),
   the directory watcher (entryreader.go watchDags) with its event queue, and the lock shared by the watcher and the
   tick (dagsLock).  Time is in minutes; a schedule is the set of minutes it matches inside the horizon.
   Files: onDisk[d] is what the file holds now (valid / invalid / gone).  The watcher handles one queued event at a
   time under the lock: Create / Write -> LoadMetadata of the file AS IT IS THEN (a later overwrite may already be in
   place); a load error leaves the entry as it was; Remove / Rename -> the entry is dropped.
   A tick reads the entries under the lock and spawns one job per loaded, unsuspended DAG, operation and matching
   minute (after the F-09a fix: one, however many expressions match; after F-09b: an expression that never matches
   yields no job).  start jobs are guarded by the latest status, stop jobs act only on a running DAG, restart jobs
   always issue a restart.
   The daemon's start-up is part of it: the directory is read when the daemon object is created (Init), the watch is
   registered when the scheduler is started (StartWatch); file operations in between queue no event.               *)
EXTENDS Integers, Sequences, FiniteSets, TLC

CONSTANTS Dags, Horizon,
          Sched,            \* [Dags -> [start, stop, restart : SUBSET 0..Horizon]]
          MaxFileOps,       \* bound on file operations
          ReleaseOnError,   \* TRUE: the watcher's load-error path releases the lock (the code); FALSE: the seeded defects C09-b / C09-c
          RescanOnWatch     \* TRUE: the watcher reads the directory again once the watch is registered (the code after the
                            \* fix of F-09c); FALSE: the directory is read when the reader is created and never again

Ops == {"start", "stop", "restart"}

VARIABLES tick, wall, onDisk, loaded, fsq, lock, running, lastStart, jobs, issued, nfile,
          watching          \* the directory watch is registered: only from then on do file operations queue events
vars == <<tick, wall, onDisk, loaded, fsq, lock, running, lastStart, jobs, issued, nfile, watching>>

Init == /\ tick = 0 /\ wall = 0
        /\ onDisk \in [Dags -> {"valid", "invalid"}]
        /\ loaded = {d \in Dags : onDisk[d] = "valid"}            \* initDags: what loads at daemon start
        /\ fsq = <<>> /\ lock = "none" /\ running = {} /\ lastStart = [d \in Dags |-> -1]
        /\ jobs = {} /\ issued = <<>> /\ nfile = 0 /\ watching = FALSE

\* ---- the file system and the watcher
FileWrite(d, k) == /\ nfile < MaxFileOps /\ nfile' = nfile + 1
                   /\ onDisk' = [onDisk EXCEPT ![d] = k]
                   /\ fsq' = IF watching THEN Append(fsq, [d |-> d, ev |-> "write"]) ELSE fsq
                   /\ UNCHANGED <<tick, wall, loaded, lock, running, lastStart, jobs, issued, watching>>
FileRemove(d) == /\ nfile < MaxFileOps /\ nfile' = nfile + 1 /\ onDisk[d] # "gone"
                 /\ onDisk' = [onDisk EXCEPT ![d] = "gone"]
                 /\ fsq' = IF watching THEN Append(fsq, [d |-> d, ev |-> "remove"]) ELSE fsq
                 /\ UNCHANGED <<tick, wall, loaded, lock, running, lastStart, jobs, issued, watching>>
\* the scheduler is started: the watcher registers the watch (the daemon has existed - and has held what initDags loaded -
\* since Init; the file operations in between are the rest of its start-up) and, after the fix, reads the directory again
StartWatch == /\ ~watching /\ lock = "none" /\ watching' = TRUE
              /\ loaded' = IF RescanOnWatch THEN {d \in Dags : onDisk[d] = "valid"} \cup {d \in loaded : onDisk[d] = "invalid"} ELSE loaded
              /\ UNCHANGED <<tick, wall, onDisk, fsq, lock, running, lastStart, jobs, issued, nfile>>
\* one event, under the lock (taken and released inside the step: the error path releases it too)
WatchApply == /\ fsq # <<>> /\ lock = "none"
              /\ LET e == Head(fsq) IN
                 loaded' = IF e.ev = "remove" THEN loaded \ {e.d}
                           ELSE IF onDisk[e.d] = "valid" THEN loaded \cup {e.d}
                           ELSE loaded                       \* load error: the entry stays as it was
              /\ fsq' = Tail(fsq)
              /\ lock' = IF Head(fsq).ev = "write" /\ onDisk[Head(fsq).d] # "valid" /\ ~ReleaseOnError THEN "watcher" ELSE "none"
              /\ UNCHANGED <<tick, wall, onDisk, running, lastStart, jobs, issued, nfile, watching>>

\* ---- the tick (entryReader.Read under the lock, Scheduler.run)
Tick == /\ watching /\ tick <= Horizon /\ tick <= wall /\ lock = "none"
        /\ jobs' = jobs \cup {[d |-> x[1], op |-> x[2], next |-> tick] : x \in {y \in loaded \X Ops : tick \in Sched[y[1]][y[2]]}}
        /\ tick' = tick + 1
        /\ UNCHANGED <<wall, onDisk, loaded, fsq, lock, running, lastStart, issued, nfile, watching>>
Clock == /\ wall < Horizon /\ wall' = wall + 1
         /\ UNCHANGED <<tick, onDisk, loaded, fsq, lock, running, lastStart, jobs, issued, nfile, watching>>
Issue(j) == issued' = Append(issued, [d |-> j.d, op |-> j.op, m |-> j.next, wasRunning |-> j.d \in running])
JobRun(j) ==
  /\ j \in jobs /\ jobs' = jobs \ {j}
  /\ CASE j.op = "start" ->
            IF j.d \in running \/ lastStart[j.d] >= j.next
              THEN UNCHANGED <<running, lastStart, issued>>
              ELSE /\ Issue(j) /\ running' = running \cup {j.d} /\ lastStart' = [lastStart EXCEPT ![j.d] = wall]
       [] j.op = "stop" ->
            IF j.d \in running THEN Issue(j) /\ running' = running \ {j.d} /\ UNCHANGED lastStart
                               ELSE UNCHANGED <<running, lastStart, issued>>
       [] j.op = "restart" ->
            /\ Issue(j) /\ running' = running \cup {j.d} /\ lastStart' = [lastStart EXCEPT ![j.d] = wall]
  /\ UNCHANGED <<tick, wall, onDisk, loaded, fsq, lock, nfile, watching>>
RunEnds(d) == /\ d \in running /\ running' = running \ {d}
              /\ UNCHANGED <<tick, wall, onDisk, loaded, fsq, lock, lastStart, jobs, issued, nfile, watching>>

Next == StartWatch \/ Tick \/ Clock \/ WatchApply \/ (\E j \in jobs : JobRun(j)) \/ (\E d \in Dags : RunEnds(d) \/ FileRemove(d))
        \/ (\E d \in Dags, k \in {"valid", "invalid"} : FileWrite(d, k))
Spec == Init /\ [][Next]_vars /\ WF_vars(StartWatch) /\ WF_vars(Tick) /\ WF_vars(WatchApply) /\ WF_vars(Clock)

\* ---- properties
\* whatever was issued was scheduled for that minute
C09_OnlyScheduled == \A i \in DOMAIN issued : issued[i].m \in Sched[issued[i].d][issued[i].op]
\* a stop is only ever issued for a DAG that was running
C09_StopOnlyRunning == \A i \in DOMAIN issued : issued[i].op = "stop" => issued[i].wasRunning
\* a start is never issued for a DAG that was running
C09_NoStartWhileRunning == \A i \in DOMAIN issued : issued[i].op = "start" => ~issued[i].wasRunning
\* once the watcher has caught up, exactly the valid files are loaded - plus files that were overwritten with a
\* malformed text after they had been loaded (what is held for those is not specified) - and no removed one
C09_WatcherCatchesUp == watching /\ fsq = <<>> => /\ \A d \in Dags : onDisk[d] = "valid" => d \in loaded
                                      /\ \A d \in Dags : onDisk[d] = "gone" => d \notin loaded
\* a malformed or removed file never stops the ticks (the other DAGs keep being scheduled)
C09_TicksGoOn == <>(tick > Horizon)
=============================================================================
