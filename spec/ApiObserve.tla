---------------------------- MODULE ApiObserve ----------------------------
(* Trace validation of the real API handlers against ApiControl (C20, C18): one event per action with the
   abstract state read back before and after.  The guarantees C20_Clauses / C18_Clauses are evaluated on
   the observed tuple; the model's Step is evaluated on the observed pre-state and compared (drift).   *)
EXTENDS ApiControl, Json

CONSTANT TraceFile
Trace == ndJsonDeserialize(TraceFile)
VARIABLES l, viol, drift, nscen
E == Trace[l]

\* spawn records carry a raw field that the model does not have
Strip(sp) == [i \in DOMAIN sp |-> [cmd |-> sp[i].cmd, d |-> sp[i].d, arg |-> sp[i].arg]]
\* the DAG addressed may be unknown to the state (d = "ghost"): the operators test d \in Names first
OpClauses(e) == C20_Clauses(e.pre, e.a, e.resp, e.post, Strip(e.spawn), e.stops) \cup C18_Clauses(e.pre, e.a, e.resp, e.post)
Model(e) == Step(e.pre, e.a)
Drift(e) == LET m == Model(e) IN
            (IF m.resp # e.resp THEN {"resp"} ELSE {})
            \cup (IF Core(m.st) # Core(e.post) THEN {"state"} ELSE {})
            \cup (IF m.spawn # Strip(e.spawn) THEN {"spawn"} ELSE {})
            \cup (IF m.stops # e.stops THEN {"stops"} ELSE {})

Init == l = 1 /\ viol = {} /\ drift = 0 /\ nscen = 0
Reset == E.ev = "Reset" /\ viol' = {} /\ drift' = 0 /\ nscen' = nscen + 1
\* an action issued while the live status socket of the DAG did not answer promptly (overloaded machine) is not judged
Op == /\ E.ev = "Op"
      /\ LET c == IF E.slowProbe THEN {} ELSE OpClauses(E)  d == IF E.slowProbe THEN {} ELSE Drift(E) IN
         /\ viol' = viol \cup c
         /\ drift' = drift + (IF d = {} THEN 0 ELSE 1)
         /\ (c # {}) => PrintT("DETAIL " \o ToJson([scen |-> E.scen, i |-> E.i, viol |-> c, a |-> E.a, resp |-> E.resp, code |-> E.code,
                                      pre |-> E.pre, post |-> E.post, spawn |-> E.spawn, stops |-> E.stops]))
         /\ (d # {} /\ c = {}) => PrintT("DRIFT " \o ToJson([scen |-> E.scen, i |-> E.i, what |-> d, a |-> E.a, resp |-> E.resp, code |-> E.code,
                                      model |-> [resp |-> Model(E).resp, spawn |-> Model(E).spawn, stops |-> Model(E).stops]]))
      /\ UNCHANGED nscen
Other == /\ E.ev \in {"Env", "EnvSkipped"} /\ UNCHANGED <<viol, drift, nscen>>
End == /\ E.ev = "End" /\ UNCHANGED <<viol, drift, nscen>>
       /\ PrintT("VERDICT " \o ToJson([scen |-> E.scen, viol |-> viol, drift |-> drift]))
Next == l <= Len(Trace) /\ l' = l + 1 /\ (Reset \/ Op \/ Other \/ End)
Spec == Init /\ [][Next]_<<l, viol, drift, nscen>>
Emit == (l = Len(Trace) + 1) => PrintT("CONSUMED " \o ToString(Len(Trace)) \o " scenarios " \o ToString(nscen))
=============================================================================
