--------------------------- MODULE FileCacheTrace ---------------------------
(* C06: validates what the real filecache + jsondb did at every gate (vh cache) against FileCache.tla.
   One line per step the code took: check / load / store / hit of a query, append, uwrite, uinval, then "Quiet" queries.
   Every line is matched with the specification's action of that name; the values the code returned are compared with
   the specification's (a difference that does not break the property is DRIFT: the model misdescribes the code).
   The property is judged on the recorded values themselves:
     C06_CachedQueryStale  a query returned a status older than the one the file held when the query looked at it
     C06_QueryPanics       a query crashed
     C06_StaleWhenQuiet    with no writer and no query in flight, a query did not return the last status recorded *)
EXTENDS FileCache, Json
CONSTANT TraceFile
Trace == ndJsonDeserialize(TraceFile)
VARIABLES l, bad, lost
E == Trace[l]
tvars == <<cvars, l, bad, lost>>

Reset == /\ ver' = 0 /\ entry' = None
         /\ pc' = [r \in Readers |-> "idle"] /\ seen' = [r \in Readers |-> None] /\ stale' = [r \in Readers |-> FALSE]
         /\ stamp' = [r \in Readers |-> 0] /\ data' = [r \in Readers |-> 0] /\ began' = [r \in Readers |-> 0]
         /\ ret' = [r \in Readers |-> <<0, 0>>] /\ nq' = [r \in Readers |-> 0] /\ upc' = "idle" /\ panicked' = FALSE
         /\ recording' = E.recording /\ lost' = FALSE

\* what the recorded values themselves say
Observed(e) ==
  IF e.ev = "Step" /\ e.a \in {"store", "hit"}
    THEN (IF e.panic # "" THEN {"C06_QueryPanics"} ELSE {})
         \cup (IF e.panic = "" /\ e.err = "" /\ e.ret < e.began THEN {"C06_CachedQueryStale"} ELSE {})
         \cup (IF e.panic = "" /\ e.err # "" THEN {"C06_QueryFails"} ELSE {})
  ELSE IF e.ev = "Quiet" THEN (IF e.err # "" \/ e.ret # e.ver THEN {"C06_StaleWhenQuiet"} ELSE {})
  ELSE IF e.ev = "Infra" THEN {"INFRA"}
  ELSE {}

\* the specification's step for the line, and whether the code's values agree with it
Enabled(e) ==
  CASE e.a = "check"  -> pc[e.r] = "idle"
    [] e.a = "load"   -> pc[e.r] = "checked" /\ stale[e.r]
    [] e.a = "store"  -> pc[e.r] = "loaded"
    [] e.a = "hit"    -> pc[e.r] = "checked" /\ ~stale[e.r]
    [] e.a = "append" -> recording
    [] e.a = "uwrite" -> upc = "idle" /\ ~recording
    [] e.a = "uinval" -> upc = "wrote"
    [] OTHER -> FALSE
Act(e) ==
  CASE e.a = "check"  -> Check(e.r)
    [] e.a = "load"   -> Load(e.r)
    [] e.a = "store"  -> Store(e.r)
    [] e.a = "hit"    -> Hit(e.r)
    [] e.a = "append" -> AppendLine
    [] e.a = "uwrite" -> UWrite
    [] e.a = "uinval" -> UInval
Agrees(e) ==   \* evaluated in the state BEFORE the step
  CASE e.a = "check"  -> e.ver = ver
    [] e.a = "store"  -> e.ret = data[e.r] /\ e.began = began[e.r]
    [] e.a = "hit"    -> e.ret = seen[e.r].data /\ e.began = began[e.r]
    [] e.a \in {"append", "uwrite"} -> e.ver = ver + 1
    [] OTHER -> TRUE

Say(c) == PrintT("VERDICT " \o ToJson([line |-> l, scen |-> E.scen, viol |-> c, rec |-> E]))
TInit == CInit /\ recording = TRUE /\ l = 1 /\ bad = 0 /\ lost = FALSE
TNext ==
  /\ l <= Len(Trace) /\ l' = l + 1
  /\ LET e == E
         obs == Observed(e) IN
     IF e.ev = "Reset" THEN Reset /\ UNCHANGED bad
     ELSE IF e.ev # "Step" \/ lost
       THEN /\ UNCHANGED <<cvars, lost>>
            /\ IF obs = {} THEN UNCHANGED bad ELSE bad' = bad + 1 /\ Say(obs)
     ELSE IF ~Enabled(e) \/ ~Agrees(e)
       THEN \* the code left the specification: the rest of this scenario is judged on the recorded values only
            /\ UNCHANGED cvars /\ lost' = TRUE /\ bad' = bad + 1
            /\ Say(obs \cup {IF Enabled(e) THEN "DRIFT_CacheValueDiffers" ELSE "DRIFT_CacheStepNotInSpec"})
       ELSE /\ Act(e) /\ UNCHANGED lost
            /\ IF obs = {} THEN UNCHANGED bad ELSE bad' = bad + 1 /\ Say(obs)
TSpec == TInit /\ [][TNext]_tvars
\* the specification's own guarantees, evaluated in every state of every validated trace
Emit == (l = Len(Trace) + 1) => PrintT("CONSUMED " \o ToString(Len(Trace)) \o " bad " \o ToString(bad))
=============================================================================
