CONSTANTS TraceFile = "trace.ndjson"
  Names = {"a", "b", "c"}
  Steps = {"s0", "s1", "s2"}
SPECIFICATION Spec
INVARIANT Emit
CHECK_DEADLOCK FALSE
