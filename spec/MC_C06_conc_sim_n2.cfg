CONSTANTS R = 2
  N = 2
  Find = FALSE
  Lock = TRUE
  WithUpdate = FALSE
  Relist = TRUE
  MaxRelist = 3
INIT MInit
NEXT MNext
INVARIANTS EmitBehaviour
CHECK_DEADLOCK FALSE
