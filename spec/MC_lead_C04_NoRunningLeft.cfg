CONSTANTS N = 2
CONSTANT Configs <- StopQuick
SPECIFICATION MCSpec
VIEW MCView
CONSTRAINT ExecBound
INVARIANTS Lead_C04_NoRunningLeft
CHECK_DEADLOCK FALSE
