---------------------------- MODULE History ----------------------------
(* C06.  The history store (internal/persistence/jsondb) at call granularity.

   State: runs = function from request id to the recorded run
             [dag, ts, st, age]   dag: identity of the DAG file the run belongs to
                                  ts : start stamp (a natural; order = order of start times;
                                       Day(ts) tells which calendar day the stamp falls on)
                                  st : sequence of the statuses recorded for the run (compaction
                                       keeps only the last one - which no query can tell)
                                  age: age of the run's file in days (retention looks at this)
          open = request id of the run the single writer is attached to, or NoRun.
   Actions take explicit arguments: the exhaustive model wraps them in \E, the trace
   specification (HistoryTrace.tla) binds them to the arguments logged by the harness.
   Queries are operators over runs; the real answers logged after every operation are compared
   with them, for every DAG, so frame conditions are checked as well.                         *)
EXTENDS Integers, Sequences, FiniteSets, TLC

CONSTANTS NoRun, TodayFrom      \* stamps >= TodayFrom fall on the current day, smaller ones on the day before
VARIABLES runs, open
hvars == <<runs, open>>

Reqs == DOMAIN runs
RunsOf(d) == {r \in Reqs : runs[r].dag = d}
HasStatus(r) == runs[r].st # <<>>
Last(r) == runs[r].st[Len(runs[r].st)]
IsToday(r) == runs[r].ts >= TodayFrom
Newest(S) == CHOOSE r \in S : \A q \in S : runs[q].ts <= runs[r].ts
RECURSIVE TopN(_, _)
TopN(S, n) == IF n = 0 \/ S = {} THEN <<>> ELSE LET r == Newest(S) IN <<r>> \o TopN(S \ {r}, n - 1)

\* ---- queries ---------------------------------------------------------------------------
Find(d, r) == IF r \in RunsOf(d) /\ HasStatus(r) THEN Last(r) ELSE "notfound"
\* latest: the most recently started run (of today when so configured); "nodata" when there is none.
\* While the newest run has no status yet (opened, nothing written) the answer is not constrained.
LatestAnswers(d, todayOnly) ==
  LET S == {r \in RunsOf(d) : ~todayOnly \/ IsToday(r)} IN
  IF S = {} THEN {"nodata"}
  ELSE IF HasStatus(Newest(S)) THEN {Last(Newest(S))} ELSE {"any"}
\* recent(n): the n most recently started runs that have a status to show, newest first
Recent(d, n) == LET top == TopN({r \in RunsOf(d) : HasStatus(r)}, n) IN [i \in DOMAIN top |-> Last(top[i])]

\* ---- operations ------------------------------------------------------------------------
Without(S) == [r \in Reqs \ S |-> runs[r]]
Init == runs = <<>> /\ open = NoRun

Open(d, r, ts) == /\ r \notin Reqs
                  /\ runs' = (r :> [dag |-> d, ts |-> ts, st |-> <<>>, age |-> 0]) @@ runs
                  /\ open' = r
Write(s) == /\ open # NoRun /\ open \in Reqs
            /\ runs' = [runs EXCEPT ![open].st = Append(@, s), ![open].age = 0]
            /\ UNCHANGED open
\* Close compacts the file to its last status: no query can observe that
Close == /\ open' = NoRun
         /\ runs' = IF open \in Reqs /\ HasStatus(open) THEN [runs EXCEPT ![open].age = 0] ELSE runs   \* the compacted copy is a new file
\* Update re-records a status for a run looked up by request id; unknown run: refused, nothing changes
Update(d, r, s) == /\ UNCHANGED open
                   /\ IF r \in RunsOf(d) /\ HasStatus(r)
                        THEN runs' = [runs EXCEPT ![r].st = Append(@, s), ![r].age = 0]
                        ELSE UNCHANGED runs
\* Rename carries every run of d to d2 (runs d2 already has stay)
Rename(d, d2) == /\ runs' = [r \in Reqs |-> IF runs[r].dag = d THEN [runs[r] EXCEPT !.dag = d2] ELSE runs[r]]
                 /\ UNCHANGED open
\* retention: removes the runs of d whose file is older than `days` days, nothing else
RemoveOld(d, days) == /\ runs' = Without({r \in RunsOf(d) : days = 0 \/ runs[r].age > days})      \* 0 days: everything written before now
                      /\ open' = IF open \in DOMAIN runs' THEN open ELSE NoRun
RemoveAll(d) == /\ runs' = Without(RunsOf(d))
                /\ open' = IF open \in DOMAIN runs' THEN open ELSE NoRun
\* time passes for one run's file
SetAge(r, a) == /\ r \in Reqs /\ runs' = [runs EXCEPT ![r].age = a] /\ UNCHANGED open
=============================================================================
