INIT Init
NEXT Next
INVARIANTS C19_NonExecutingEvaluatesNothing C19_ExecutingEvaluatesWhatARunNeeds
CHECK_DEADLOCK FALSE
