---------------------------- MODULE HistoryConc ----------------------------
(* C06 under concurrency, second part: a latest-status / recent-history query (server, daemon) while the recording
   process of the DAG ends a run and begins the next one.  The query is not atomic:
       List  : glob the DAG's history files, newest start stamp first (compacted copy before original)
       Visit : for each listed file in turn: stat + parse; a file that parses contributes its run (once); a file that
               does not (just created, still empty) or that has vanished is skipped
   and the recorder changes the file set underneath it (jsondb.go Close -> Compact, at system-call grain as in
   HistoryFS.tla):
       CCreate: create <run>_c.dat (empty)   CWrite: write the last status into it   CUnlink: remove <run>.dat
       Open   : create the next run's file (empty)            Write: append a status to it
   Relist = FALSE is the code before the fix: a listed file that has vanished is skipped, so a query that listed
   <run>.dat before the compacted copy existed and reaches it after the unlink answers with the PREVIOUS run.
   Relist = TRUE: a query that meets a vanished file lists again (the compacted copy is created before the original
   is removed, so the new listing holds it).
   Guarantee: the answer is one the store would have given atomically at some moment between List and the return
   (valid: the abstract answers since the query began).                                                         *)
EXTENDS Integers, Sequences, FiniteSets, TLC

CONSTANTS R,            \* runs 1..R exist at the start: 1..R-1 completed (compacted), R open with a status
          N,            \* the query asks for the N most recent runs (latest-status = 1)
          Find,         \* TRUE: the query is the lookup of run R by its request id (FindByRequestID): same listing
                        \* order, every file is read until one holds a status of that run
          Relist, MaxRelist,
          WithUpdate,   \* TRUE: a manual status update of run R may be issued once the run's process reports a final status
                        \* (the API refuses it while the status is "running"; while Close compacts the file the socket
                        \* already answers with the final status).  The update is not coordinated with the compaction:
                        \* TLC finds the acknowledged update that is lost (F-06h, MC_C06_conc_update_nolock.cfg) unless
          Lock          \* TRUE: the compaction holds an advisory lock on the original from before it reads it until it has
                        \* removed it, and the update takes the same lock on the file it found, makes sure that name still
                        \* leads to the file it locked, and looks the run up again otherwise (the code after the fix)

Runs == 1..(R + 1)
Kinds == {"comp", "orig"}
NoFile == [exists |-> FALSE, st |-> 0, upd |-> FALSE]
\* st: 0 = holds no status yet, otherwise the run whose status it holds; upd: its last status is the manual update

VARIABLES disk, rpc,            \* recorder: "open" | "c_write" | "c_unlink" | "closed" | "open2" | "wrote2"
          qpc, qfiles, qacc, relists, valid, answer,
          lk,                          \* holder of the lock on <R>.dat: "none" | "rec" | "upd"
          upc, ufile, ugone, readUpd   \* the manual update: "idle" | "found" | "opened" | "acked"; the file it chose; that
                                       \* file was unlinked while the update held it open; what the compaction had read
vars == <<disk, rpc, qpc, qfiles, qacc, relists, valid, answer, upc, ufile, ugone, readUpd, lk>>
uvars == <<upc, ufile, ugone, readUpd, lk>>

\* ---- the abstract store: runs that hold a status, newest first
HasStatus(d, r) == \E k \in Kinds : d[<<r, k>>].exists /\ d[<<r, k>>].st # 0
RECURSIVE Top(_, _, _)
Top(d, r, n) == IF r = 0 \/ n = 0 THEN <<>>
                ELSE IF HasStatus(d, r) THEN <<r>> \o Top(d, r - 1, n - 1) ELSE Top(d, r - 1, n)
AbstractOf(d, n, f) == IF f THEN (IF HasStatus(d, R) THEN <<R>> ELSE <<>>) ELSE Top(d, R + 1, n)
Abstract(d) == AbstractOf(d, N, Find)
Takes(st, f) == st # 0 /\ (f => st = R)

\* ---- listing order: newest run first, compacted copy before the original
RECURSIVE Listing(_, _)
Listing(d, r) == IF r = 0 THEN <<>>
                 ELSE (IF d[<<r, "comp">>].exists THEN << <<r, "comp">> >> ELSE <<>>)
                      \o (IF d[<<r, "orig">>].exists THEN << <<r, "orig">> >> ELSE <<>>) \o Listing(d, r - 1)

Init == /\ disk = [f \in Runs \X Kinds |->
                     IF f[1] < R /\ f[2] = "comp" THEN [exists |-> TRUE, st |-> f[1], upd |-> FALSE]
                     ELSE IF f[1] = R /\ f[2] = "orig" THEN [exists |-> TRUE, st |-> R, upd |-> FALSE] ELSE NoFile]
        /\ rpc = "open" /\ qpc = "idle" /\ qfiles = <<>> /\ qacc = <<>> /\ relists = 0 /\ valid = {} /\ answer = <<>>
        /\ upc = "idle" /\ ufile = <<R, "orig">> /\ ugone = FALSE /\ readUpd = FALSE /\ lk = "none"

\* ---- the recorder
Rec(d2, pc2) == /\ disk' = d2 /\ rpc' = pc2
                /\ valid' = IF qpc = "iter" THEN valid \cup {Abstract(d2)} ELSE valid
                /\ UNCHANGED <<qpc, qfiles, qacc, relists, answer>>
\* Compact reads the original (ParseFile) and creates the copy; it writes what it read; it removes the original
CCreate == /\ rpc = "open" /\ (Lock => lk = "none")
           /\ Rec([disk EXCEPT ![<<R, "comp">>] = [exists |-> TRUE, st |-> 0, upd |-> FALSE]], "c_write")
           /\ readUpd' = disk[<<R, "orig">>].upd /\ lk' = (IF Lock THEN "rec" ELSE lk) /\ UNCHANGED <<upc, ufile, ugone>>
CWrite  == /\ rpc = "c_write" /\ Rec([disk EXCEPT ![<<R, "comp">>].st = R, ![<<R, "comp">>].upd = readUpd], "c_unlink")
           /\ UNCHANGED uvars
CUnlink == /\ rpc = "c_unlink" /\ Rec([disk EXCEPT ![<<R, "orig">>] = NoFile], "closed")
           /\ ugone' = (ugone \/ (upc = "opened" /\ ufile = <<R, "orig">>)) /\ lk' = (IF Lock THEN "none" ELSE lk)
           /\ UNCHANGED <<upc, ufile, readUpd>>
Open2   == rpc = "closed"   /\ Rec([disk EXCEPT ![<<R + 1, "orig">>] = [exists |-> TRUE, st |-> 0, upd |-> FALSE]], "open2") /\ UNCHANGED uvars
Write2  == rpc = "open2"    /\ Rec([disk EXCEPT ![<<R + 1, "orig">>].st = R + 1], "wrote2") /\ UNCHANGED uvars

\* ---- the manual status update of run R (jsondb.go Update: FindByRequestID, open the file found for append, write)
FoundFile == IF disk[<<R, "comp">>].exists /\ disk[<<R, "comp">>].st # 0 THEN <<R, "comp">> ELSE <<R, "orig">>
UFind  == /\ WithUpdate /\ upc = "idle" /\ rpc # "open" /\ HasStatus(disk, R)
          /\ upc' = "found" /\ ufile' = FoundFile
          /\ UNCHANGED <<disk, rpc, qpc, qfiles, qacc, relists, valid, answer, ugone, readUpd, lk>>
\* without the lock: OpenOrCreateFile - a file that is gone by now is created anew.  With it: wait for the lock on the file
\* that was found (only <R>.dat is ever locked by someone else); if the name is gone by then, start over
UOpen  == /\ upc = "found"
          /\ IF ~Lock
               THEN /\ upc' = "opened" /\ UNCHANGED lk
                    /\ disk' = IF disk[ufile].exists THEN disk ELSE [disk EXCEPT ![ufile] = [exists |-> TRUE, st |-> 0, upd |-> FALSE]]
               ELSE /\ (ufile = <<R, "orig">> => lk = "none")
                    /\ IF disk[ufile].exists THEN upc' = "opened" /\ lk' = (IF ufile = <<R, "orig">> THEN "upd" ELSE lk)
                                              ELSE upc' = "idle" /\ UNCHANGED lk
                    /\ UNCHANGED disk
          /\ UNCHANGED <<rpc, qpc, qfiles, qacc, relists, valid, answer, ufile, ugone, readUpd>>
\* the write goes to the inode that was opened: if the name has been unlinked since, nobody will read it
UWrite == /\ upc = "opened" /\ upc' = "acked"
          /\ disk' = IF ugone THEN disk ELSE [disk EXCEPT ![ufile].st = R, ![ufile].upd = TRUE]
          /\ lk' = (IF lk = "upd" THEN "none" ELSE lk)
          /\ UNCHANGED <<rpc, qpc, qfiles, qacc, relists, valid, answer, ufile, ugone, readUpd>>

\* ---- the query
List == /\ qpc = "idle" /\ qpc' = "iter"
        /\ qfiles' = Listing(disk, R + 1) /\ qacc' = <<>> /\ relists' = 0 /\ valid' = {Abstract(disk)}
        /\ UNCHANGED <<disk, rpc, answer>> /\ UNCHANGED uvars
InAcc(r) == \E i \in DOMAIN qacc : qacc[i] = r
Return == /\ qpc = "iter" /\ (qfiles = <<>> \/ Len(qacc) >= N)
          /\ qpc' = "done" /\ answer' = qacc
          /\ UNCHANGED <<disk, rpc, qfiles, qacc, relists, valid>> /\ UNCHANGED uvars
Visit == /\ qpc = "iter" /\ qfiles # <<>> /\ Len(qacc) < N
         /\ LET f == Head(qfiles) IN
            IF ~disk[f].exists /\ Relist /\ relists < MaxRelist
              THEN /\ qfiles' = Listing(disk, R + 1) /\ qacc' = <<>> /\ relists' = relists + 1
              ELSE /\ qfiles' = Tail(qfiles) /\ UNCHANGED relists
                   /\ qacc' = IF disk[f].exists /\ Takes(disk[f].st, Find) /\ ~InAcc(disk[f].st) THEN Append(qacc, disk[f].st) ELSE qacc
         /\ UNCHANGED <<disk, rpc, qpc, valid, answer>> /\ UNCHANGED uvars

Next == CCreate \/ CWrite \/ CUnlink \/ Open2 \/ Write2 \/ List \/ Visit \/ Return \/ UFind \/ UOpen \/ UWrite
Spec == Init /\ [][Next]_vars

\* the answer is one the store would have given at some moment while the query ran
C06_QueryLinearizable == qpc = "done" => answer \in valid
\* in particular the run that is being closed is never missing from it
C06_ClosingRunIsShown == qpc = "done" => \E i \in DOMAIN answer : answer[i] >= R
\* (for a lookup the two say the same: the run is found)
\* an acknowledged manual update is what the lookup returns once the run is closed (needs Lock: F-06h)
C06_UpdateIsKept == upc = "acked" /\ rpc \notin {"open", "c_write", "c_unlink"} => disk[FoundFile].upd
=============================================================================
