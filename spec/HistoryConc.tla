---------------------------- MODULE HistoryConc ----------------------------
(* C06 under concurrency, second part: a latest-status / recent-history query (server, daemon) while the recording
   process of the DAG ends a run and begins the next one.  The query is not atomic:
       List  : glob the DAG's history files, newest start stamp first (compacted copy before original)
       Visit : for each listed file in turn: stat + parse; a file that parses contributes its run (once); a file that
               does not (just created, still empty) or that has vanished is skipped
   and the recorder changes the file set underneath it (jsondb.go Close -> Compact, at system-call grain as in
   HistoryFS.tla):
       CCreate: create <run>_c.dat (empty)   CWrite: write the last status into it   CUnlink: remove <run>.dat
       Open   : create the next run's file (empty)            Write: append a status to it
   Relist = FALSE is the code before the fix: a listed file that has vanished is skipped, so a query that listed
   <run>.dat before the compacted copy existed and reaches it after the unlink answers with the PREVIOUS run.
   Relist = TRUE: a query that meets a vanished file lists again (the compacted copy is created before the original
   is removed, so the new listing holds it).
   Guarantee: the answer is one the store would have given atomically at some moment between List and the return
   (valid: the abstract answers since the query began).                                                         *)
EXTENDS Integers, Sequences, FiniteSets, TLC

CONSTANTS R,            \* runs 1..R exist at the start: 1..R-1 completed (compacted), R open with a status
          N,            \* the query asks for the N most recent runs (latest-status = 1)
          Find,         \* TRUE: the query is the lookup of run R by its request id (FindByRequestID): same listing
                        \* order, every file is read until one holds a status of that run
          Relist, MaxRelist

Runs == 1..(R + 1)
Kinds == {"comp", "orig"}
NoFile == [exists |-> FALSE, st |-> 0]        \* st: 0 = holds no status yet, otherwise the run whose status it holds

VARIABLES disk, rpc,            \* recorder: "open" | "c_write" | "c_unlink" | "closed" | "open2" | "wrote2"
          qpc, qfiles, qacc, relists, valid, answer
vars == <<disk, rpc, qpc, qfiles, qacc, relists, valid, answer>>

\* ---- the abstract store: runs that hold a status, newest first
HasStatus(d, r) == \E k \in Kinds : d[<<r, k>>].exists /\ d[<<r, k>>].st # 0
RECURSIVE Top(_, _, _)
Top(d, r, n) == IF r = 0 \/ n = 0 THEN <<>>
                ELSE IF HasStatus(d, r) THEN <<r>> \o Top(d, r - 1, n - 1) ELSE Top(d, r - 1, n)
AbstractOf(d, n, f) == IF f THEN (IF HasStatus(d, R) THEN <<R>> ELSE <<>>) ELSE Top(d, R + 1, n)
Abstract(d) == AbstractOf(d, N, Find)
Takes(st, f) == st # 0 /\ (f => st = R)

\* ---- listing order: newest run first, compacted copy before the original
RECURSIVE Listing(_, _)
Listing(d, r) == IF r = 0 THEN <<>>
                 ELSE (IF d[<<r, "comp">>].exists THEN << <<r, "comp">> >> ELSE <<>>)
                      \o (IF d[<<r, "orig">>].exists THEN << <<r, "orig">> >> ELSE <<>>) \o Listing(d, r - 1)

Init == /\ disk = [f \in Runs \X Kinds |->
                     IF f[1] < R /\ f[2] = "comp" THEN [exists |-> TRUE, st |-> f[1]]
                     ELSE IF f[1] = R /\ f[2] = "orig" THEN [exists |-> TRUE, st |-> R] ELSE NoFile]
        /\ rpc = "open" /\ qpc = "idle" /\ qfiles = <<>> /\ qacc = <<>> /\ relists = 0 /\ valid = {} /\ answer = <<>>

\* ---- the recorder
Rec(d2, pc2) == /\ disk' = d2 /\ rpc' = pc2
                /\ valid' = IF qpc = "iter" THEN valid \cup {Abstract(d2)} ELSE valid
                /\ UNCHANGED <<qpc, qfiles, qacc, relists, answer>>
CCreate == rpc = "open"     /\ Rec([disk EXCEPT ![<<R, "comp">>] = [exists |-> TRUE, st |-> 0]], "c_write")
CWrite  == rpc = "c_write"  /\ Rec([disk EXCEPT ![<<R, "comp">>].st = R], "c_unlink")
CUnlink == rpc = "c_unlink" /\ Rec([disk EXCEPT ![<<R, "orig">>] = NoFile], "closed")
Open2   == rpc = "closed"   /\ Rec([disk EXCEPT ![<<R + 1, "orig">>] = [exists |-> TRUE, st |-> 0]], "open2")
Write2  == rpc = "open2"    /\ Rec([disk EXCEPT ![<<R + 1, "orig">>].st = R + 1], "wrote2")

\* ---- the query
List == /\ qpc = "idle" /\ qpc' = "iter"
        /\ qfiles' = Listing(disk, R + 1) /\ qacc' = <<>> /\ relists' = 0 /\ valid' = {Abstract(disk)}
        /\ UNCHANGED <<disk, rpc, answer>>
InAcc(r) == \E i \in DOMAIN qacc : qacc[i] = r
Return == /\ qpc = "iter" /\ (qfiles = <<>> \/ Len(qacc) >= N)
          /\ qpc' = "done" /\ answer' = qacc
          /\ UNCHANGED <<disk, rpc, qfiles, qacc, relists, valid>>
Visit == /\ qpc = "iter" /\ qfiles # <<>> /\ Len(qacc) < N
         /\ LET f == Head(qfiles) IN
            IF ~disk[f].exists /\ Relist /\ relists < MaxRelist
              THEN /\ qfiles' = Listing(disk, R + 1) /\ qacc' = <<>> /\ relists' = relists + 1
              ELSE /\ qfiles' = Tail(qfiles) /\ UNCHANGED relists
                   /\ qacc' = IF disk[f].exists /\ Takes(disk[f].st, Find) /\ ~InAcc(disk[f].st) THEN Append(qacc, disk[f].st) ELSE qacc
         /\ UNCHANGED <<disk, rpc, qpc, valid, answer>>

Next == CCreate \/ CWrite \/ CUnlink \/ Open2 \/ Write2 \/ List \/ Visit \/ Return
Spec == Init /\ [][Next]_vars

\* the answer is one the store would have given at some moment while the query ran
C06_QueryLinearizable == qpc = "done" => answer \in valid
\* in particular the run that is being closed is never missing from it
C06_ClosingRunIsShown == qpc = "done" => \E i \in DOMAIN answer : answer[i] >= R
\* (for a lookup the two say the same: the run is found)
=============================================================================
