CONSTANTS N = 3
CONSTANT Configs <- OutcomeStop3
SPECIFICATION MCSpec
VIEW MCView
CONSTRAINT ExecBound
INVARIANTS TypeOK C04_Outcome C04_HandlerLog C04_ReturnAgrees

CHECK_DEADLOCK FALSE
