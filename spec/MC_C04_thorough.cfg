CONSTANTS N = 3
CONSTANT Configs <- OutcomeFull
SPECIFICATION MCSpec
VIEW MCView
CONSTRAINT ExecBound
INVARIANTS TypeOK C04_Outcome

CHECK_DEADLOCK FALSE
