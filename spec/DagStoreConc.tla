---------------------------- MODULE DagStoreConc ----------------------------
(* C18, two saves of the same definition issued at the same moment (two editors, two API requests: the handlers of one
   server process run concurrently and share the DAG store).  UpdateSpec is
       validate . write the text to a temporary file (open with O_TRUNC, write, close) . rename it onto the definition
   Files are names bound to inodes; a writer holds the inode it opened, whatever the name is bound to later; a write of
   a text is two steps (the first half, the rest), so that a reader can come in between.
   UniqueTmp = FALSE is the code before the fix: both savers use <file>.tmp.  TLC finds
     - the second saver truncating and rewriting the inode the first one has just renamed onto the definition
       (readers see an empty or half-written definition),
     - a save that is refused (its rename finds no temporary file) although its text is what the definition holds.
   UniqueTmp = TRUE: every save has a temporary file of its own (os.CreateTemp next to the definition).           *)
EXTENDS Integers, Sequences, FiniteSets, TLC

CONSTANTS Savers, UniqueTmp
Old == <<"o", "o">>
TextOf(s) == <<s, s>>                       \* the text saver s stores: two characters, written one at a time
NoInode == 0

VARIABLES inodes,     \* [1..n -> content] (sequence of characters); grows with every create
          file,       \* inode the definition's name is bound to
          tmp,        \* [tmp name -> inode or NoInode]
          fd,         \* [saver -> inode it has open]
          pc,         \* [saver -> "start" | "opened" | "half" | "written" | "ok" | "refused"]
          accepted    \* savers whose save returned without error, in the order of their renames
vars == <<inodes, file, tmp, fd, pc, accepted>>

TmpName(s) == IF UniqueTmp THEN s ELSE "shared"
TmpNames == IF UniqueTmp THEN Savers ELSE {"shared"}
Content == inodes[file]

Init == /\ inodes = <<Old>> /\ file = 1
        /\ tmp = [n \in TmpNames |-> NoInode] /\ fd = [s \in Savers |-> NoInode]
        /\ pc = [s \in Savers |-> "start"] /\ accepted = <<>>
\* open(O_CREAT|O_TRUNC): an existing temporary file is truncated (the same inode), otherwise a new inode is created
OpenTmp(s) == /\ pc[s] = "start" /\ pc' = [pc EXCEPT ![s] = "opened"]
              /\ IF tmp[TmpName(s)] # NoInode
                   THEN /\ inodes' = [inodes EXCEPT ![tmp[TmpName(s)]] = <<>>]
                        /\ fd' = [fd EXCEPT ![s] = tmp[TmpName(s)]] /\ UNCHANGED tmp
                   ELSE /\ inodes' = Append(inodes, <<>>)
                        /\ tmp' = [tmp EXCEPT ![TmpName(s)] = Len(inodes) + 1]
                        /\ fd' = [fd EXCEPT ![s] = Len(inodes) + 1]
              /\ UNCHANGED <<file, accepted>>
\* the write goes to the inode, at the offset of this descriptor (0, then 1)
Put(c, i, ch) == IF Len(c) >= i THEN [c EXCEPT ![i] = ch] ELSE Append(c, ch)
WriteHalf(s) == /\ pc[s] = "opened" /\ pc' = [pc EXCEPT ![s] = "half"]
                /\ inodes' = [inodes EXCEPT ![fd[s]] = Put(@, 1, TextOf(s)[1])]
                /\ UNCHANGED <<file, tmp, fd, accepted>>
WriteRest(s) == /\ pc[s] = "half" /\ pc' = [pc EXCEPT ![s] = "written"]
                /\ inodes' = [inodes EXCEPT ![fd[s]] = Put(@, 2, TextOf(s)[2])]
                /\ UNCHANGED <<file, tmp, fd, accepted>>
\* rename(tmp, file): fails when the name is gone (the other saver has renamed it away)
Rename(s) == /\ pc[s] = "written"
             /\ IF tmp[TmpName(s)] = NoInode
                  THEN pc' = [pc EXCEPT ![s] = "refused"] /\ UNCHANGED <<file, tmp, accepted>>
                  ELSE /\ file' = tmp[TmpName(s)] /\ tmp' = [tmp EXCEPT ![TmpName(s)] = NoInode]
                       /\ pc' = [pc EXCEPT ![s] = "ok"] /\ accepted' = Append(accepted, s)
             /\ UNCHANGED <<inodes, fd>>
\* for trace validation at the grain of the gates of the verif build: the whole write of the temporary file in one step
WriteAll(s) == /\ pc[s] = "start" /\ pc' = [pc EXCEPT ![s] = "written"]
               /\ IF tmp[TmpName(s)] # NoInode
                    THEN /\ inodes' = [inodes EXCEPT ![tmp[TmpName(s)]] = TextOf(s)] /\ UNCHANGED tmp
                    ELSE /\ inodes' = Append(inodes, TextOf(s)) /\ tmp' = [tmp EXCEPT ![TmpName(s)] = Len(inodes) + 1]
               /\ UNCHANGED <<file, fd, accepted>>

Next == \E s \in Savers : OpenTmp(s) \/ WriteHalf(s) \/ WriteRest(s) \/ Rename(s)
Spec == Init /\ [][Next]_vars

Texts == {Old} \cup {TextOf(s) : s \in Savers}
\* the definition always holds a complete text
C18_AllOrNothing == Content \in Texts
\* a refused save stores nothing, an accepted one is stored: when all saves have returned the definition holds the text
\* of the accepted save that was renamed last (the old text if none was accepted)
AllDone == \A s \in Savers : pc[s] \in {"ok", "refused"}
C18_AcceptedIsStored == AllDone => Content = IF accepted = <<>> THEN Old ELSE TextOf(accepted[Len(accepted)])
\* no save is refused because of another one
C18_NoSaveRefused == \A s \in Savers : pc[s] # "refused"
=============================================================================
