---------------------------- MODULE HistoryFS ----------------------------
(* C07.  jsondb at system-call grain for one DAG, the recording process may die anywhere.
   Call order taken from the system calls of the real code (listed by the ptrace supervisor):
     Open  : mkdirat . openat(O_CREAT|O_APPEND  <run>.dat)                        -> ack
     Write : write(line)                                                          -> ack
     Close : [read <run>.dat] . openat(O_CREAT <run>_c.dat) . write(line) . unlinkat(<run>.dat) -> ack
     Update: [glob, read newest-first] . openat(O_APPEND file of the run) . write(line)          -> ack
   A write that is cut short leaves a torn tail, which the reader skips (ParseFile keeps the last
   line that parses).  Runs are numbered 1..R in start order; a status is its index 1..K.
   Queries are modelled as the code computes them after the fixes 417efc6 / a079ef0: latest = newest
   file that holds a status; recent(n) = the n newest distinct runs that hold a status.
   The store is used again after a crash (Recover: a fresh process; the interrupted run can be updated by hand, new
   runs are recorded), and that process may die as well (MaxCrashes).  Two details of the code decide whether what is
   acknowledged after a crash can be read back, each with a switch for the code before its fix:
     FixTornAppend : a writer that finds the file without a final newline ends that line first (6bd9815); before, the
                     next status was appended directly behind the torn tail and the line held two JSON texts
     CompFirst     : when both copies of a run exist (killed between writing the compacted copy and unlinking the
                     original) latest / recent read the compacted copy first, as FindByRequestID does (7e9167d);
                     before, they read the original while updates went to the compacted copy                        *)
EXTENDS Integers, Sequences, FiniteSets, TLC

CONSTANTS R, K, MaxCrashes, FixTornAppend, CompFirst

Runs == 1..R
Kinds == {"orig", "comp"}
\* lines: complete lines, 0 = a line that does not parse; tail: what follows the last newline: -1 nothing, 0 a fragment
\* that does not parse, s > 0 a whole status that only lacks its newline (it parses: ParseFile reads an unterminated last line)
NoFile == [exists |-> FALSE, lines |-> <<>>, tail |-> -1]
NewFile == [exists |-> TRUE, lines |-> <<>>, tail |-> -1]

VARIABLES disk,     \* [Runs \X Kinds -> file]
          pc,       \* idle | opened | c_create | c_write | c_unlink | closed | u_open | u_write | crashed
          cur,      \* run being recorded (0 = none)
          wrote,    \* statuses written so far in cur
          status,   \* value read by Compact's ParseFile / status to append by Update
          utarget,  \* file Update appends to
          acked,    \* [Runs -> Nat] highest acknowledged status index (0 = none)
          completed,\* runs whose Close was acknowledged (or whose recorder is dead)
          crashes
vars == <<disk, pc, cur, wrote, status, utarget, acked, completed, crashes>>

F(r, k) == disk[<<r, k>>]
Init == /\ disk = [f \in Runs \X Kinds |-> NoFile]
        /\ pc = "idle" /\ cur = 0 /\ wrote = 0 /\ status = 0 /\ utarget = <<0, "orig">>
        /\ acked = [r \in Runs |-> 0] /\ completed = {} /\ crashes = 0

-----------------------------------------------------------------------------
(* queries *)
RECURSIVE LastGood(_)
LastGood(l) == IF l = <<>> THEN -1 ELSE IF l[Len(l)] > 0 THEN l[Len(l)] ELSE LastGood(SubSeq(l, 1, Len(l) - 1))
Parse(f) == IF ~f.exists THEN -1 ELSE IF f.tail > 0 THEN f.tail ELSE LastGood(f.lines)     \* -1: nothing that parses
\* a writer opens the file and appends one status line
AppendTo(f, st) == IF f.tail = -1 THEN [f EXCEPT !.lines = Append(@, st)]
                   ELSE IF FixTornAppend THEN [f EXCEPT !.lines = Append(Append(@, f.tail), st), !.tail = -1]
                   ELSE [f EXCEPT !.lines = Append(@, 0), !.tail = -1]            \* two texts on one line: neither parses
Files == {f \in Runs \X Kinds : disk[f].exists}
Good  == {f \in Files : Parse(disk[f]) # -1}
GoodRuns == {f[1] : f \in Good}
\* lookup by request id (and the file a manual update is appended to): compacted copy first
Find(r) == IF Parse(F(r, "comp")) # -1 THEN Parse(F(r, "comp"))
           ELSE IF Parse(F(r, "orig")) # -1 THEN Parse(F(r, "orig")) ELSE -1
\* what latest / recent show for a run
Shown(r) == LET first == IF CompFirst THEN "comp" ELSE "orig"
                second == IF CompFirst THEN "orig" ELSE "comp" IN
            IF Parse(F(r, first)) # -1 THEN Parse(F(r, first)) ELSE Parse(F(r, second))
Latest == IF Files = {} THEN 0                                                    \* "no status data"
          ELSE IF Good = {} THEN -1
          ELSE Shown(CHOOSE r \in GoodRuns : \A q \in GoodRuns : q <= r)
RecentRuns(n) == {r \in GoodRuns : Cardinality({q \in GoodRuns : q > r}) < n}

-----------------------------------------------------------------------------
Open == /\ pc \in {"idle", "closed"} /\ cur < R
        /\ cur' = cur + 1 /\ wrote' = 0
        /\ disk' = [disk EXCEPT ![<<cur + 1, "orig">>] = NewFile]
        /\ pc' = "opened"
        /\ UNCHANGED <<status, utarget, acked, completed, crashes>>
Write == /\ pc = "opened" /\ wrote < K
         /\ disk' = [disk EXCEPT ![<<cur, "orig">>].lines = Append(@, wrote + 1)]
         /\ wrote' = wrote + 1 /\ acked' = [acked EXCEPT ![cur] = wrote + 1]
         /\ UNCHANGED <<pc, cur, status, utarget, completed, crashes>>
CRead == /\ pc = "opened"                                   \* Close -> Compact -> ParseFile(original)
         /\ status' = Parse(F(cur, "orig"))
         /\ pc' = IF Parse(F(cur, "orig")) = -1 THEN "closed" ELSE "c_create"
         /\ completed' = IF Parse(F(cur, "orig")) = -1 THEN completed \cup {cur} ELSE completed
         /\ UNCHANGED <<disk, cur, wrote, utarget, acked, crashes>>
CCreate == /\ pc = "c_create"
           \* OpenOrCreateFile: a copy left behind by an earlier, interrupted compaction is opened for append
           /\ disk' = [disk EXCEPT ![<<cur, "comp">>] = IF @.exists THEN @ ELSE NewFile]
           /\ pc' = "c_write" /\ UNCHANGED <<cur, wrote, status, utarget, acked, completed, crashes>>
CWrite == /\ pc = "c_write"
          /\ disk' = [disk EXCEPT ![<<cur, "comp">>] = AppendTo(@, status)]
          /\ pc' = "c_unlink" /\ UNCHANGED <<cur, wrote, status, utarget, acked, completed, crashes>>
CUnlink == /\ pc = "c_unlink"
           /\ disk' = [disk EXCEPT ![<<cur, "orig">>] = NoFile]
           /\ pc' = "closed" /\ completed' = completed \cup {cur}
           /\ UNCHANGED <<cur, wrote, status, utarget, acked, crashes>>
\* manual status update of a completed run: appended to the file FindByRequestID returns
UOpen(r) == /\ pc \in {"closed"} /\ r \in completed /\ Find(r) # -1 /\ Find(r) < K + 2
            /\ utarget' = IF Parse(F(r, "comp")) # -1 THEN <<r, "comp">> ELSE <<r, "orig">>
            /\ status' = Find(r) + 1
            /\ pc' = "u_write" /\ UNCHANGED <<disk, cur, wrote, acked, completed, crashes>>
UWrite == /\ pc = "u_write"
          /\ disk' = [disk EXCEPT ![utarget] = AppendTo(@, status)]
          /\ acked' = [acked EXCEPT ![utarget[1]] = status]
          /\ pc' = "closed" /\ UNCHANGED <<cur, wrote, status, utarget, completed, crashes>>
\* the process dies; a write in flight may leave a torn tail: a fragment, or the whole line but for its newline
Tear(f, st) == {[f EXCEPT !.tail = 0], [f EXCEPT !.tail = st]}
Crash == /\ pc \notin {"crashed"} /\ crashes < MaxCrashes
         /\ pc' = "crashed" /\ crashes' = crashes + 1
         /\ \/ UNCHANGED disk
            \/ /\ pc = "opened" /\ wrote < K /\ F(cur, "orig").tail = -1
               /\ \E g \in Tear(F(cur, "orig"), wrote + 1) : disk' = [disk EXCEPT ![<<cur, "orig">>] = g]
            \/ /\ pc = "c_write" /\ F(cur, "comp").tail = -1
               /\ \E g \in Tear(F(cur, "comp"), status) : disk' = [disk EXCEPT ![<<cur, "comp">>] = g]
            \/ /\ pc = "u_write" /\ disk[utarget].tail = -1
               /\ \E g \in Tear(disk[utarget], status) : disk' = [disk EXCEPT ![utarget] = g]
         /\ UNCHANGED <<cur, wrote, status, utarget, acked, completed>>
\* a fresh process takes over: the interrupted run has no recorder any more (it can be updated by hand)
Recover == /\ pc = "crashed"
           /\ pc' = "closed" /\ completed' = IF cur > 0 THEN completed \cup {cur} ELSE completed
           /\ UNCHANGED <<disk, cur, wrote, status, utarget, acked, crashes>>

Next == Open \/ Write \/ CRead \/ CCreate \/ CWrite \/ CUnlink \/ (\E r \in Runs : UOpen(r)) \/ UWrite \/ Crash \/ Recover
Spec == Init /\ [][Next]_vars

-----------------------------------------------------------------------------
(* C07, evaluated on what the queries answer after a crash *)
Crashed == pc = "crashed"
AtRest == pc \in {"crashed", "closed"}
Ackd == {r \in Runs : acked[r] > 0}
C07_Interrupted == Crashed => \A r \in Runs : acked[r] > 0 => Find(r) >= acked[r]
C07_LatestNoErr == Crashed /\ Ackd # {} => Latest > 0
C07_LatestIsNewestAcked == Crashed /\ Ackd # {} =>
                             LET top == CHOOSE r \in Ackd : \A q \in Ackd : q <= r IN Latest >= acked[top] \/ \E r \in Runs : r > top /\ F(r, "orig").exists
\* (a newer run whose first status was in flight and reads back whole may take a place: it holds a status)
TopN(n) == {r \in Ackd : Cardinality({q \in Ackd \cup GoodRuns : q > r}) < n}
C07_RecentKeeps(n) == AtRest => TopN(n) \subseteq RecentRuns(n)
C07_Recent1 == C07_RecentKeeps(1)
C07_Recent2 == C07_RecentKeeps(2)
\* ... and the same for what is acknowledged AFTER a crash: whenever no operation is in flight, the lookup and the
\* latest / recent queries show every run with a status no older than the last acknowledged one
C07_AckedIsShown == AtRest => \A r \in Runs : acked[r] > 0 => Find(r) >= acked[r] /\ Shown(r) >= acked[r]
=============================================================================
