---------------------------- MODULE HistoryFS ----------------------------
(* C07.  jsondb at system-call grain for one DAG, the recording process may die anywhere.
   Call order taken from the system calls of the real code (listed by the ptrace supervisor):
     Open  : mkdirat . openat(O_CREAT|O_APPEND  <run>.dat)                        -> ack
     Write : write(line)                                                          -> ack
     Close : [read <run>.dat] . openat(O_CREAT <run>_c.dat) . write(line) . unlinkat(<run>.dat) -> ack
     Update: [glob, read newest-first] . openat(O_APPEND file of the run) . write(line)          -> ack
   A write that is cut short leaves a torn tail, which the reader skips (ParseFile keeps the last
   line that parses).  Runs are numbered 1..R in start order; a status is its index 1..K.
   Queries are modelled as the code computes them after the fixes 417efc6 / a079ef0: latest = newest
   file that holds a status; recent(n) = the n newest distinct runs that hold a status.            *)
EXTENDS Integers, Sequences, FiniteSets, TLC

CONSTANTS R, K

Runs == 1..R
Kinds == {"orig", "comp"}
NoFile == [exists |-> FALSE, lines |-> <<>>, torn |-> FALSE]

VARIABLES disk,     \* [Runs \X Kinds -> file]
          pc,       \* idle | opened | c_create | c_write | c_unlink | closed | u_open | u_write | crashed
          cur,      \* run being recorded (0 = none)
          wrote,    \* statuses written so far in cur
          status,   \* value read by Compact's ParseFile / status to append by Update
          utarget,  \* file Update appends to
          acked,    \* [Runs -> Nat] highest acknowledged status index (0 = none)
          completed \* runs whose Close was acknowledged
vars == <<disk, pc, cur, wrote, status, utarget, acked, completed>>

F(r, k) == disk[<<r, k>>]
Init == /\ disk = [f \in Runs \X Kinds |-> NoFile]
        /\ pc = "idle" /\ cur = 0 /\ wrote = 0 /\ status = 0 /\ utarget = <<0, "orig">>
        /\ acked = [r \in Runs |-> 0] /\ completed = {}

-----------------------------------------------------------------------------
(* queries *)
Parse(f) == IF f.exists /\ f.lines # <<>> THEN f.lines[Len(f.lines)] ELSE -1     \* -1: nothing that parses
Files == {f \in Runs \X Kinds : disk[f].exists}
Good  == {f \in Files : Parse(disk[f]) # -1}
Latest == IF Files = {} THEN 0                                                    \* "no status data"
          ELSE IF Good = {} THEN -1
          ELSE LET r == CHOOSE r \in {f[1] : f \in Good} : \A q \in {f[1] : f \in Good} : q <= r IN
               \* both copies of the newest run may exist: either holds a status of that run
               Parse(disk[CHOOSE f \in Good : f[1] = r])
GoodRuns == {f[1] : f \in Good}
RecentRuns(n) == {r \in GoodRuns : Cardinality({q \in GoodRuns : q > r}) < n}
Find(r) == IF Parse(F(r, "comp")) # -1 THEN Parse(F(r, "comp"))
           ELSE IF Parse(F(r, "orig")) # -1 THEN Parse(F(r, "orig")) ELSE -1

-----------------------------------------------------------------------------
Open == /\ pc \in {"idle", "closed"} /\ cur < R
        /\ cur' = cur + 1 /\ wrote' = 0
        /\ disk' = [disk EXCEPT ![<<cur + 1, "orig">>] = [exists |-> TRUE, lines |-> <<>>, torn |-> FALSE]]
        /\ pc' = "opened"
        /\ UNCHANGED <<status, utarget, acked, completed>>
Write == /\ pc = "opened" /\ wrote < K
         /\ disk' = [disk EXCEPT ![<<cur, "orig">>].lines = Append(@, wrote + 1)]
         /\ wrote' = wrote + 1 /\ acked' = [acked EXCEPT ![cur] = wrote + 1]
         /\ UNCHANGED <<pc, cur, status, utarget, completed>>
CRead == /\ pc = "opened"                                   \* Close -> Compact -> ParseFile(original)
         /\ status' = Parse(F(cur, "orig"))
         /\ pc' = IF Parse(F(cur, "orig")) = -1 THEN "closed" ELSE "c_create"
         /\ completed' = IF Parse(F(cur, "orig")) = -1 THEN completed \cup {cur} ELSE completed
         /\ UNCHANGED <<disk, cur, wrote, utarget, acked>>
CCreate == /\ pc = "c_create"
           /\ disk' = [disk EXCEPT ![<<cur, "comp">>] = [exists |-> TRUE, lines |-> <<>>, torn |-> FALSE]]
           /\ pc' = "c_write" /\ UNCHANGED <<cur, wrote, status, utarget, acked, completed>>
CWrite == /\ pc = "c_write"
          /\ disk' = [disk EXCEPT ![<<cur, "comp">>].lines = <<status>>]
          /\ pc' = "c_unlink" /\ UNCHANGED <<cur, wrote, status, utarget, acked, completed>>
CUnlink == /\ pc = "c_unlink"
           /\ disk' = [disk EXCEPT ![<<cur, "orig">>] = NoFile]
           /\ pc' = "closed" /\ completed' = completed \cup {cur}
           /\ UNCHANGED <<cur, wrote, status, utarget, acked>>
\* manual status update of a completed run: appended to the file FindByRequestID returns
UOpen(r) == /\ pc \in {"closed"} /\ r \in completed /\ Find(r) # -1 /\ Find(r) < K + 1
            /\ utarget' = IF Parse(F(r, "comp")) # -1 THEN <<r, "comp">> ELSE <<r, "orig">>
            /\ status' = Find(r) + 1
            /\ pc' = "u_write" /\ UNCHANGED <<disk, cur, wrote, acked, completed>>
UWrite == /\ pc = "u_write"
          /\ disk' = [disk EXCEPT ![utarget].lines = Append(@, status)]
          /\ acked' = [acked EXCEPT ![utarget[1]] = status]
          /\ pc' = "closed" /\ UNCHANGED <<cur, wrote, status, utarget, completed>>
\* the process dies; a write in flight may leave a torn tail
Crash == /\ pc \notin {"crashed"}
         /\ pc' = "crashed"
         /\ \/ UNCHANGED disk
            \/ /\ pc = "opened" /\ wrote < K
               /\ disk' = [disk EXCEPT ![<<cur, "orig">>].torn = TRUE]
            \/ /\ pc = "c_write"
               /\ disk' = [disk EXCEPT ![<<cur, "comp">>].torn = TRUE]
            \/ /\ pc = "u_write"
               /\ disk' = [disk EXCEPT ![utarget].torn = TRUE]
         /\ UNCHANGED <<cur, wrote, status, utarget, acked, completed>>

Next == Open \/ Write \/ CRead \/ CCreate \/ CWrite \/ CUnlink \/ (\E r \in Runs : UOpen(r)) \/ UWrite \/ Crash
Spec == Init /\ [][Next]_vars

-----------------------------------------------------------------------------
(* C07, evaluated on what the queries answer after a crash *)
Crashed == pc = "crashed"
Ackd == {r \in Runs : acked[r] > 0}
C07_Interrupted == Crashed => \A r \in Runs : acked[r] > 0 => Find(r) >= acked[r]
C07_LatestNoErr == Crashed /\ Ackd # {} => Latest > 0
C07_LatestIsNewestAcked == Crashed /\ Ackd # {} =>
                             LET top == CHOOSE r \in Ackd : \A q \in Ackd : q <= r IN Latest >= acked[top] \/ \E r \in Runs : r > top /\ F(r, "orig").exists
TopN(n) == {r \in Ackd : Cardinality({q \in Ackd : q > r}) < n}
C07_RecentKeeps(n) == Crashed => TopN(n) \subseteq RecentRuns(n)
C07_Recent1 == C07_RecentKeeps(1)
C07_Recent2 == C07_RecentKeeps(2)
=============================================================================
