CONSTANTS N = 3
CONSTANT Configs <- OrderQuick
SPECIFICATION MCSpec
VIEW MCView
CONSTRAINT ExecBound
INVARIANTS TypeOK C01_NoEarlyStart

CHECK_DEADLOCK FALSE
