\* the code before 6bd9815: TLC finds the update that is acknowledged and cannot be read back
CONSTANTS R = 3
  K = 2
  MaxCrashes = 2
  FixTornAppend = FALSE
  CompFirst = TRUE
SPECIFICATION Spec
INVARIANTS C07_AckedIsShown
CHECK_DEADLOCK FALSE
