CONSTANT TraceFile = "trace.ndjson"
SPECIFICATION TSpec
INVARIANT Emit
CHECK_DEADLOCK FALSE
