\* the code before the fix of F-09c: a file added or removed during start-up is never noticed
CONSTANTS Dags <- MCDags
  Horizon = 1
  Sched <- MCSched
  MaxFileOps = 2
  RescanOnWatch = FALSE
  ReleaseOnError = TRUE
SPECIFICATION Spec
CONSTRAINT Bound
INVARIANTS C09_OnlyScheduled C09_StopOnlyRunning C09_NoStartWhileRunning C09_WatcherCatchesUp
PROPERTY C09_TicksGoOn
CHECK_DEADLOCK FALSE
