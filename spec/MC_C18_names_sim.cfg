CONSTANTS Excl = TRUE
INIT MInit
NEXT MNext
INVARIANTS EmitBehaviour
CHECK_DEADLOCK FALSE
