CONSTANTS N = 3
CONSTANT Configs <- LimitFull
SPECIFICATION MCSpec
VIEW MCView
CONSTRAINT ExecBound
INVARIANTS TypeOK C15_Limit

CHECK_DEADLOCK FALSE
