\* the code before 7e9167d: TLC finds the update that goes to the compacted copy while the queries read the original
CONSTANTS R = 3
  K = 2
  MaxCrashes = 2
  FixTornAppend = TRUE
  CompFirst = FALSE
SPECIFICATION Spec
INVARIANTS C07_AckedIsShown
CHECK_DEADLOCK FALSE
