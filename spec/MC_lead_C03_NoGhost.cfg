CONSTANTS N = 2
CONSTANT Configs <- StopQuick
SPECIFICATION MCSpec
VIEW MCView
CONSTRAINT ExecBound
INVARIANTS Lead_C03_NoGhost
CHECK_DEADLOCK FALSE
