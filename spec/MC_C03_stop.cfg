CONSTANTS N = 2
CONSTANT Configs <- StopTimeoutQuick
SPECIFICATION MCSpec
VIEW MCView
CONSTRAINT ExecBound
INVARIANTS TypeOK C03_BoundInv C03_NoGhost

CHECK_DEADLOCK FALSE
