---------------------------- MODULE Props_Cron ----------------------------
(* The standard 5-field cron semantics over broken-down UTC time, on the STRUCTURE of an expression:
   an expression is a sequence of 5 fields (minute hour day-of-month month day-of-week), a field a
   sequence of terms [k, a, b, s]: k = "star" | "single" | "range", s = step (0 = none).
   Independent of robfig/cron and of the YAML builder (C09).                                          *)
EXTENDS Integers, Sequences, FiniteSets

Lo == <<0, 0, 1, 1, 0>>
Hi == <<59, 23, 31, 12, 6>>
Mod(a, b) == a - b * (a \div b)
TermSet(t, f) ==
  LET st == IF t.s = 0 THEN 1 ELSE t.s
      a  == IF t.k = "star" THEN Lo[f] ELSE t.a
      b  == IF t.k = "star" THEN Hi[f] ELSE IF t.k = "range" THEN t.b ELSE IF t.s = 0 THEN t.a ELSE Hi[f]
  IN {v \in a..b : Mod(v - a, st) = 0}
FieldSet(ts, f) == UNION {TermSet(ts[i], f) : i \in DOMAIN ts}
\* a field "is a star" if some term is written * (or ?) without a step other than 1
Star(ts) == \E i \in DOMAIN ts : ts[i].k = "star" /\ ts[i].s \in {0, 1}
CronMatch(fs, t) ==
  /\ t.min  \in FieldSet(fs[1], 1)
  /\ t.hour \in FieldSet(fs[2], 2)
  /\ t.mon  \in FieldSet(fs[4], 4)
  /\ LET d == t.dom \in FieldSet(fs[3], 3)
         w == t.dow \in FieldSet(fs[5], 5)
     IN IF Star(fs[3]) \/ Star(fs[5]) THEN d /\ w ELSE d \/ w
\* number of expressions of a list that match
NMatch(exprs, t) == Cardinality({i \in DOMAIN exprs : CronMatch(exprs[i].f, t)})

\* ---- the daemon's decision per job (job.go): what a start / stop job does given what it was told
StartPermitted(ans, m) == ~ans.running /\ ans.lastStart < m
StopPermitted(ans)     == ans.running
=============================================================================
