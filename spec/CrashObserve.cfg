CONSTANTS TraceFile = "trace.ndjson"
  TodayFrom = 4
SPECIFICATION Spec
INVARIANT Emit
CHECK_DEADLOCK FALSE
