CONSTANTS N = 2
CONSTANT Configs <- StopQuick
SPECIFICATION MCSpec
VIEW MCView
CONSTRAINT ExecBound
INVARIANTS TypeOK C08_FinalLabels C04_NoRunningLeft
CHECK_DEADLOCK FALSE
