---------------------------- MODULE MCCronOps ----------------------------
EXTENDS CronOps
MCDags == {"a", "b"}
MCSched == [d \in MCDags |-> IF d = "a" THEN [start |-> {0, 1, 2}, stop |-> {1}, restart |-> {2}]
                                        ELSE [start |-> {1}, stop |-> {}, restart |-> {}]]
Bound == Len(issued) <= 4 /\ Len(fsq) <= 3
=============================================================================
