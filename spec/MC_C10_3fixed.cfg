CONSTANTS N = 3
  TreatRunningAsUnfinished = TRUE
SPECIFICATION Spec
INVARIANT C10_WalkIsClosure
PROPERTY C10_WalkEnds
CHECK_DEADLOCK FALSE
