CONSTANTS N = 2
CONSTANT Configs <- StopTimeoutQuick
SPECIFICATION MCSpec
VIEW MCView
CONSTRAINT ExecBound
INVARIANTS C10_ReachableConsistent
CHECK_DEADLOCK FALSE
