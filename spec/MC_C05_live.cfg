CONSTANTS N = 2
CONSTANT Configs <- LiveStop
SPECIFICATION MCFairSpec
VIEW MCView
CONSTRAINT ExecBound
INVARIANTS TypeOK 
PROPERTIES StopEnds
CHECK_DEADLOCK FALSE
