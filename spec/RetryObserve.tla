---------------------------- MODULE RetryObserve ----------------------------
(* Judges records of the real scheduler.NewExecutionGraphForRetry: for a DAG and a recorded status
   vector, the statuses the retry graph starts from. *)
EXTENDS Props_Retry, TLC, Json
CONSTANT TraceFile
Trace == ndJsonDeserialize(TraceFile)
VARIABLES l, bad
R == Trace[l]
Rng(seq) == {seq[i] : i \in DOMAIN seq}
Deps(r) == [s \in 1..r.n |-> Rng(r.deps[s])]
Clauses(r) ==
  LET d == Deps(r) IN
  IF ~Consistent(d, r.contF, r.contS, r.before) THEN {}
  ELSE (IF \E s \in 1..r.n : s \in MustReset(d, r.before) /\ r.after[s] # NS THEN {"C10_UnfinishedStepNotReset"} ELSE {})
       \cup (IF \E s \in 1..r.n : s \notin ReRun(d, r.before) /\ r.after[s] # r.before[s] THEN {"C10_FinishedStepChanged"} ELSE {})
       \cup (IF \E s \in 1..r.n : s \in ReRun(d, r.before) /\ r.after[s] \notin {NS, r.before[s]} THEN {"C10_StepRelabelled"} ELSE {})
       \cup (IF r.err # "" THEN {"C10_RetryGraphRefused"} ELSE {})
Init == l = 1 /\ bad = 0
Next == /\ l <= Len(Trace) /\ l' = l + 1
        /\ LET c == Clauses(R) IN
           IF c = {} THEN UNCHANGED bad
           ELSE bad' = bad + 1 /\ PrintT("VERDICT " \o ToJson([line |-> l, viol |-> c, rec |-> R,
                    hasRunning |-> \E s \in 1..R.n : R.before[s] = RUN,
                    onlyRunningWrong |-> ~\E s \in 1..R.n : s \in Down(Deps(R), {t \in 1..R.n : R.before[t] \in {FAIL, CANC}}, R.n) /\ R.after[s] # NS]))
Spec == Init /\ [][Next]_<<l, bad>>
Emit == (l = Len(Trace) + 1) => PrintT("CONSUMED " \o ToString(Len(Trace)) \o " bad " \o ToString(bad))
=============================================================================
