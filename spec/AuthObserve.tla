---------------------------- MODULE AuthObserve ----------------------------
(* Judges records of real requests sent through the real middleware chain (vh auth). *)
EXTENDS Auth, Json

CONSTANT TraceFile
Trace == ndJsonDeserialize(TraceFile)
VARIABLES l, bad
R == Trace[l]

Outcome(r) == IF r.code = 401 THEN "denied" ELSE IF r.reached THEN "api" ELSE IF r.ui THEN "ui"
              ELSE IF r.code = 303 THEN "redirect" ELSE "other"
Atoms(r) == HdrAtoms(r.scheme, r.sep, r.pay)
Conf(r) == [basic |-> r.basic, token |-> r.token]
Clauses(r) ==
  LET o == Outcome(r)  a == Atoms(r)  c == Conf(r)  api == PathKind(r.base, r.shape) = "api" IN
  (IF api /\ MustPass(c, a) /\ r.method # "OPTIONS" /\ o # "api" THEN {"C17_ValidCredentialsRefused"} ELSE {})
  \cup (IF api /\ MustPass(c, a) /\ r.method = "OPTIONS" /\ o = "denied" THEN {"C17_ValidCredentialsRefused"} ELSE {})
  \cup (IF api /\ MustDeny(c, a) /\ o # "denied" THEN {"C17_PassedWithoutSecret"} ELSE {})
  \cup (IF api /\ MustDeny(c, a) /\ r.reached THEN {"C17_HandlerReachedWithoutSecret"} ELSE {})
  \cup (IF o # "denied" /\ r.method # "OPTIONS" /\ o # Decide(c, a, r.base, r.shape) THEN {"DRIFT_DecisionDiffers"} ELSE {})
  \cup (IF o = "denied" /\ Decide(c, a, r.base, r.shape) # "denied" THEN {"DRIFT_DecisionDiffers"} ELSE {})

TInit == l = 1 /\ bad = 0 /\ req = [none |-> TRUE] /\ out = "trace"
TNext == /\ l <= Len(Trace) /\ l' = l + 1 /\ UNCHANGED <<req, out>>
         /\ LET c == Clauses(R) IN
            IF c = {} THEN UNCHANGED bad
            ELSE bad' = bad + 1 /\ PrintT("VERDICT " \o ToJson([line |-> l, viol |-> c, rec |-> R, model |-> Decide(Conf(R), Atoms(R), R.base, R.shape)]))
TSpec == TInit /\ [][TNext]_<<l, bad, req, out>>
Emit == (l = Len(Trace) + 1) => PrintT("CONSUMED " \o ToString(Len(Trace)) \o " bad " \o ToString(bad))
=============================================================================
