---------------------------- MODULE MCApi ----------------------------
(* Exhaustive model of ApiControl over small constants: the guarantees hold on every transition of the
   design; behaviour export (action sequences incl. the environment starting / finishing / crashing runs). *)
EXTENDS ApiControl, Json

CONSTANTS MaxOps, Reqs
VARIABLES st, ops, lastViol, done
mvars == <<st, ops, lastViol, done>>
View == <<st, Len(ops), lastViol, done>>

NodeSt == {"finished", "failed", "not started"}
Init == /\ st = [defs |-> [n \in Names |-> IF n = "c" THEN "absent" ELSE "A"], runs |-> [n \in Names |-> <<>>],
                 susp |-> [n \in Names |-> FALSE], live |-> [n \in Names |-> "none"]]
        /\ ops = <<>> /\ lastViol = {} /\ done = FALSE
UsedReqs == UNION {{st.runs[n][i].req : i \in DOMAIN st.runs[n]} : n \in Names}
\* environment: a run starts (its process serves the status), finishes, or is killed (history still says running)
EnvStart(d, r) == /\ Exists(st, d) /\ ~Running(st, d) /\ r \notin UsedReqs /\ Len(st.runs[d]) < 2
                  /\ st' = [st EXCEPT !.runs[d] = Append(@, [req |-> r, status |-> RUNNING, nodes |-> NodesOf(st.defs[d], LAMBDA s : IF s = "s2" THEN "running" ELSE "finished")]),
                                      !.live[d] = r]
                  /\ ops' = Append(ops, [op |-> "env-start", d |-> d, req |-> r]) /\ lastViol' = {}
EnvFinish(d, res) == /\ Running(st, d)
                     /\ LET i == Len(st.runs[d]) IN
                        st' = [st EXCEPT !.runs[d][i].status = res, !.runs[d][i].nodes = [s \in Steps |-> IF st.runs[d][i].nodes[s] = "absent" THEN "absent"
                                                                               ELSE IF res = FINISHED \/ s # "s2" THEN "finished" ELSE "failed"],
                                         !.live[d] = "none"]
                     /\ ops' = Append(ops, [op |-> "env-finish", d |-> d, status |-> res]) /\ lastViol' = {}
EnvCrash(d) == /\ Running(st, d) /\ st' = [st EXCEPT !.live[d] = "none"]
               /\ ops' = Append(ops, [op |-> "env-crash", d |-> d]) /\ lastViol' = {}
Actions ==
  {[op |-> o, d |-> d, req |-> r, step |-> s, value |-> v, params |-> p]
     : o \in {"start", "stop", "retry", "suspend", "mark-success", "mark-failed", "save", "rename", "create", "delete", "explode"},
       d \in Names \cup {"ghost"}, r \in Reqs \cup {"", "nope"}, s \in Steps \cup {"", "zz"}, v \in {"", "true", "A", "C", "bad", "E", "a", "c"}, p \in {"", "p1 X=2"}}
\* keep the argument space small: arguments an action does not read are fixed to ""
Relevant(a) == /\ (a.op \notin {"retry", "mark-success", "mark-failed"} => a.req = "")
               /\ (a.op \notin {"mark-success", "mark-failed"} => a.step = "")
               /\ (a.op = "suspend" => a.value \in {"", "true"}) /\ (a.op = "save" => a.value \in {"A", "C", "bad", "E"})
               /\ (a.op = "rename" => a.value \in {"", "a", "c"}) /\ (a.op \notin {"suspend", "save", "rename"} => a.value = "")
               /\ (a.op # "start" => a.params = "") /\ (a.op = "create" => a.d \in Names)
Api(a) == /\ Relevant(a)
          /\ LET r == Step(st, a) IN
             /\ st' = r.st
             /\ ops' = Append(ops, a)
             /\ lastViol' = C20_Clauses(st, a, r.resp, r.st, r.spawn, r.stops) \cup C18_Clauses(st, a, r.resp, r.st)
\* the last step of a behaviour is deterministic, so that the simulator (which evaluates invariants on every
\* successor it generates) prints each behaviour once
Finish == Len(ops) = MaxOps /\ ~done /\ done' = TRUE /\ UNCHANGED <<st, ops, lastViol>>
Next == \/ Finish
        \/ /\ Len(ops) < MaxOps /\ UNCHANGED done
           /\ \/ \E d \in Names, r \in Reqs : EnvStart(d, r)
              \/ \E d \in Names, res \in {FINISHED, FAILED, CANCELED} : EnvFinish(d, res)
              \/ \E d \in Names : EnvCrash(d)
              \/ \E a \in Actions : Api(a)
Spec == Init /\ [][Next]_mvars
GuaranteesHold == lastViol = {}
EmitBehaviour == done => PrintT("BEHAVIOUR " \o ToJson([ops |-> ops]))
=============================================================================
