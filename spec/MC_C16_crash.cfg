SPECIFICATION Spec
CONSTANTS Agents = {"a1","a2"}
 NSteps = 1
 AllowCrash = TRUE
 FixStatus = TRUE
 BindFailUnlinks = FALSE
 ExclusiveBind = TRUE
INVARIANTS C16_NoOverlap C16_RefusedRecordsNothing
CHECK_DEADLOCK FALSE
