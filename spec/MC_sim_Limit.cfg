CONSTANTS N = 3
CONSTANT Configs <- LimitFull
SPECIFICATION MCSpec
INVARIANTS EmitBehaviour
CHECK_DEADLOCK FALSE
