---------------------------- MODULE AdmissionObserve ----------------------------
(* Judges records produced by the real code (vh admit): the verdict of
   scheduler.NewExecutionGraph / NewExecutionGraphForRetry / agent.Run for a dependency graph must equal the declarative
   Admissible of Props_Admission, and a refused run must have left no side effect.          *)
EXTENDS Props_Admission, TLC, Json

CONSTANT TraceFile
Trace == ndJsonDeserialize(TraceFile)
VARIABLES l, bad
vars == <<l, bad>>
R == Trace[l]

Clauses(r) ==
  (IF r.accepted # Admissible(r.deps)
     THEN {IF r.accepted THEN "C14_AdmittedIllFormed" ELSE "C14_RefusedWellFormed"} ELSE {})
  \* the constructor a retry uses (NewExecutionGraphForRetry on the recorded steps) admits by the same rule
  \cup (IF r.kind = "graph" /\ r.retry = "hung" THEN {"C14_RetryAdmissionNeverEnds"} ELSE {})
  \cup (IF r.kind = "graph" /\ r.retry = "accepted" /\ ~Admissible(r.deps) THEN {"C14_RetryAdmittedIllFormed"} ELSE {})
  \cup (IF r.kind = "graph" /\ r.retry = "refused" /\ Admissible(r.deps) THEN {"C14_RetryRefusedWellFormed"} ELSE {})
  \cup (IF r.kind = "agent" /\ ~r.accepted /\ (r.executed \/ r.history > 0 \/ r.sockLeft)
     THEN {"C14_RefusedRunLeftEffects"} ELSE {})
  \cup (IF r.kind = "agent" /\ r.hung THEN {"C14_AdmittedRunNeverEnds"} ELSE {})
  \cup (IF r.kind = "agent" /\ r.accepted /\ ~r.hung /\ (~r.executed \/ r.history = 0)
     THEN {"C14_AdmittedRunDidNothing"} ELSE {})

Init == l = 1 /\ bad = 0
Next == /\ l <= Len(Trace) /\ l' = l + 1
        /\ LET c == Clauses(R) IN
           IF c = {} THEN UNCHANGED bad
           ELSE /\ bad' = bad + 1
                /\ PrintT("VERDICT " \o ToJson([line |-> l, viol |-> c, rec |-> R,
                             dangling |-> ~NoDangling(R.deps), cyclic |-> ~Acyclic(R.deps)]))
Spec == Init /\ [][Next]_vars
Emit == (l = Len(Trace) + 1) => PrintT("CONSUMED " \o ToString(Len(Trace)) \o " bad " \o ToString(bad))
=============================================================================
