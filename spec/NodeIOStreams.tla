--------------------------- MODULE NodeIOStreams ---------------------------
(* C12 / C11, the two-stream part of a step's output plumbing (node.go setupExec after 9920ddf).
   With `output:` set, stdout and stderr are different writers, so os/exec drains the child's two pipes with two
   goroutines ("copiers").  Both end in the same buffered writer (the log, and the stdout file); stdout alone also
   feeds the capture pipe.  A bufio.Writer.Write is not atomic: it reads the fill count n, copies the bytes behind it
   and stores n + len back; when the buffer is full it flushes to the file.  Here one Write is three steps
   (ReadN, Copy, StoreN) unless Lock = TRUE, where a writer holds a mutex across them (lockedWriter).
   Bytes are abstract: each copier delivers a fixed number of unit chunks tagged with its stream; the buffer is a
   sequence of tags, the file a sequence of tags.
   Properties: when both copiers are done and the buffer has been flushed (teardown), the file holds every chunk of
   both streams, each stream in its own order (C12), and the capture holds exactly the stdout chunks (C11).
   With Lock = FALSE TLC finds the lost update (two writers read the same n): that is the seeded defect C12-b / C12-c. *)
EXTENDS Integers, Sequences, FiniteSets, TLC

CONSTANTS NOut, NErr,        \* chunks the child writes on stdout / stderr
          Cap,               \* capacity of the buffered writer (chunks)
          Lock               \* TRUE: lockedWriter around the shared writer

Streams == {"o", "e"}
Total(s) == IF s = "o" THEN NOut ELSE NErr

VARIABLES sent,      \* [stream -> chunks the copier has taken from its pipe and finished writing]
          pc,        \* [stream -> "idle" | "readn" | "copy" | "storen"]
          myN,       \* [stream -> fill count the writer read]
          buf,       \* contents of the buffered writer: sequence of <<stream, index>>
          fill,      \* the writer's fill count (n)
          file,      \* what has been flushed: sequence of <<stream, index>>
          capture,   \* what reached the capture pipe: sequence of indices of stdout chunks
          mutex,     \* holder of the lock or "none"
          flushed    \* teardown has flushed the rest

vars == <<sent, pc, myN, buf, fill, file, capture, mutex, flushed>>

Init == /\ sent = [s \in Streams |-> 0] /\ pc = [s \in Streams |-> "idle"] /\ myN = [s \in Streams |-> 0]
        /\ buf = [i \in 1..Cap |-> <<"-", 0>>] /\ fill = 0 /\ file = <<>> /\ capture = <<>> /\ mutex = "none" /\ flushed = FALSE

\* a copier starts a Write of its next chunk (with the lock: only when it is free)
Begin(s) == /\ pc[s] = "idle" /\ sent[s] < Total(s) /\ ~flushed
            /\ (Lock => mutex = "none")
            /\ mutex' = IF Lock THEN s ELSE mutex
            /\ pc' = [pc EXCEPT ![s] = "readn"]
            /\ UNCHANGED <<sent, myN, buf, fill, file, capture, flushed>>
\* bufio.Writer.Write: if the buffer is full, flush it first; then read n
ReadN(s) == /\ pc[s] = "readn"
            /\ IF fill >= Cap
                 THEN /\ file' = file \o [i \in 1..Cap |-> buf[i]] /\ fill' = 0 /\ myN' = [myN EXCEPT ![s] = 0]
                 ELSE /\ myN' = [myN EXCEPT ![s] = fill] /\ UNCHANGED <<file, fill>>
            /\ pc' = [pc EXCEPT ![s] = "copy"]
            /\ UNCHANGED <<sent, buf, capture, mutex, flushed>>
Copy(s) == /\ pc[s] = "copy"
           /\ buf' = [buf EXCEPT ![myN[s] + 1] = <<s, sent[s] + 1>>]
           /\ pc' = [pc EXCEPT ![s] = "storen"]
           /\ UNCHANGED <<sent, myN, fill, file, capture, mutex, flushed>>
StoreN(s) == /\ pc[s] = "storen"
             /\ fill' = myN[s] + 1
             /\ sent' = [sent EXCEPT ![s] = @ + 1]
             /\ capture' = IF s = "o" THEN Append(capture, sent[s] + 1) ELSE capture     \* the MultiWriter's second target
             /\ mutex' = IF Lock THEN "none" ELSE mutex
             /\ pc' = [pc EXCEPT ![s] = "idle"]
             /\ UNCHANGED <<myN, buf, file, flushed>>
\* teardown: both copiers are done (cmd.Wait has returned), the rest of the buffer is flushed
Teardown == /\ ~flushed /\ \A s \in Streams : sent[s] = Total(s) /\ pc[s] = "idle"
            /\ file' = file \o [i \in 1..fill |-> buf[i]] /\ fill' = 0 /\ flushed' = TRUE
            /\ UNCHANGED <<sent, pc, myN, buf, capture, mutex>>

Next == (\E s \in Streams : Begin(s) \/ ReadN(s) \/ Copy(s) \/ StoreN(s)) \/ Teardown
Spec == Init /\ [][Next]_vars /\ WF_vars(Next)

Of(s, f) == SelectSeq(f, LAMBDA x : x[1] = s)
InOrder(s, f) == Of(s, f) = [i \in 1..Total(s) |-> <<s, i>>]
\* C12: the log holds every chunk of both streams, each stream in the order it was written
C12_LogComplete == flushed => InOrder("o", file) /\ InOrder("e", file) /\ Len(file) = NOut + NErr
\* C11: the captured value is the step's stdout, nothing of its stderr
C11_CaptureIsStdout == flushed => capture = [i \in 1..NOut |-> i]
Finishes == <>flushed
=============================================================================
