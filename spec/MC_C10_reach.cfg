CONSTANTS N = 3
CONSTANT Configs <- OrderQuick
SPECIFICATION MCSpec
VIEW MCView
CONSTRAINT ExecBound
INVARIANTS C10_ReachableConsistent
CHECK_DEADLOCK FALSE
