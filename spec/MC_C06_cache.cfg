\* the code after the fix: three concurrent queries, four writes
CONSTANTS Readers = {"q1", "q2", "q3"}
  MaxVer = 3
  MaxQueries = 2
  ReturnChecked = TRUE
  RestatAfterLoad = FALSE
INIT CInit
NEXT CNext
INVARIANTS TypeOK C06_QueryFresh C06_QueryNeverPanics C06_EntryNotOlderThanStamp C06_QuietThenLast
CHECK_DEADLOCK FALSE
