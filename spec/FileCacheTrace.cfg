CONSTANTS TraceFile = "trace.ndjson"
  Readers = {"q1", "q2", "q3", "q4"}
  MaxVer = 1000000
  MaxQueries = 1000000
  ReturnChecked = TRUE
  RestatAfterLoad = FALSE
SPECIFICATION TSpec
INVARIANTS Emit C06_EntryNotOlderThanStamp C06_QueryNeverPanics
CHECK_DEADLOCK FALSE
