CONSTANTS Atomic = TRUE
  Trunc = TRUE
SPECIFICATION Spec
INVARIANTS C18_AllOrNothing C18_SavedWhenDone
CHECK_DEADLOCK FALSE
