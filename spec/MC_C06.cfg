CONSTANTS NoRun = NoRun
  TodayFrom = 3
  DAGs = {"d1", "d2"}
  RQ = {"r1", "r2", "r3"}
  MaxTs = 4
  MaxSt = 2
  MaxOps = 7
INIT MInit
NEXT MNext
VIEW View
INVARIANTS TypeOK C06_FindIsLast
PROPERTIES C06_Frame C06_RenameCarries C06_RetentionOnlyOld
CHECK_DEADLOCK FALSE
