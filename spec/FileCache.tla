------------------------------ MODULE FileCache ------------------------------
(* C06, the status cache in front of the history files (filecache.go LoadLatest / Store / Invalidate as used by
   jsondb.go ReadStatusRecent, ReadStatusToday, Update, Close), at the grain of the code's own steps.

   One history file.  Its content is abstracted to a version number: every write appends a line, so the file's size
   grows with every version and (size, mtime) - the "stamp" the cache compares - changes with every write.
   The cache holds at most one entry for the file: (data, stamp).

   A query (several run concurrently: HTTP handlers of the server, the daemon's start guard) is
       Check : entry := cache[file]; stat the file; stale := entry is missing or its stamp differs
       Load  : (stale)  parse the file                       - sees the content of THAT moment
       Store : (stale)  cache[file] := (parsed, stamp seen by Check); return parsed
       Hit   : (~stale) return the cached data
                        ReturnChecked = TRUE : the data of the entry Check looked at (the code after the fix)
                        ReturnChecked = FALSE: a second look-up of cache[file] (the code before it): another query may
                                               have stored an older parse in between, or an invalidation may have
                                               removed the entry (type assertion on nil: panic)
   Writers: AppendLine (another process, the agent recording the run: the cache is not told) and the in-process manual
   update, UWrite (append) followed by UInval (cache.Invalidate).
   A run is either still being recorded (recording = TRUE: only the agent appends) or finished (only manual updates):
   the client refuses a manual update while the run's process answers on its socket (client.go UpdateStatus).
   RestatAfterLoad = TRUE models the seeded defect C06-d: Store records the stamp the file has AFTER the parse.

   Guarantee (C06 "returns the last status recorded"): a query returns a version at least as new as the one the file
   held when the query looked at it (began); since nothing older can be returned, once the writers are quiet every
   query returns the last status.                                                                                  *)
EXTENDS Integers, Sequences, FiniteSets, TLC

CONSTANTS
  \* @type: Set(Str);
  Readers,
  \* @type: Int;
  MaxVer,
  \* @type: Int;
  MaxQueries,
  \* @type: Bool;
  ReturnChecked,
  \* @type: Bool;
  RestatAfterLoad

None == [data |-> -1, stamp |-> -1]

VARIABLES
  \* @type: Int;
  ver,
  \* @type: { data: Int, stamp: Int };
  entry,
  \* @type: Str -> Str;
  pc,
  \* @type: Str -> { data: Int, stamp: Int };
  seen,
  \* @type: Str -> Bool;
  stale,
  \* @type: Str -> Int;
  stamp,
  \* @type: Str -> Int;
  data,
  \* @type: Str -> Int;
  began,
  \* @type: Str -> <<Int, Int>>;
  ret,
  \* @type: Str -> Int;
  nq,
  \* @type: Str;
  upc,
  \* @type: Bool;
  recording,
  \* @type: Bool;
  panicked

cvars == <<ver, entry, pc, seen, stale, stamp, data, began, ret, nq, upc, recording, panicked>>

CInit == /\ ver = 0 /\ entry = None
         /\ pc = [r \in Readers |-> "idle"] /\ seen = [r \in Readers |-> None] /\ stale = [r \in Readers |-> FALSE]
         /\ stamp = [r \in Readers |-> 0] /\ data = [r \in Readers |-> 0] /\ began = [r \in Readers |-> 0]
         /\ ret = [r \in Readers |-> <<0, 0>>] /\ nq = [r \in Readers |-> 0] /\ upc = "idle" /\ recording \in BOOLEAN /\ panicked = FALSE

\* the query's locals are reset when it returns (fewer states, same behaviour)
Return(r, v) == /\ ret' = [ret EXCEPT ![r] = <<began[r], v>>] /\ nq' = [nq EXCEPT ![r] = @ + 1]
                /\ seen' = [seen EXCEPT ![r] = None] /\ stale' = [stale EXCEPT ![r] = FALSE] /\ stamp' = [stamp EXCEPT ![r] = 0]
                /\ data' = [data EXCEPT ![r] = 0] /\ began' = [began EXCEPT ![r] = 0]
Check(r) == /\ pc[r] = "idle" /\ nq[r] < MaxQueries /\ ~panicked
            /\ seen' = [seen EXCEPT ![r] = entry]
            /\ stamp' = [stamp EXCEPT ![r] = ver]
            /\ stale' = [stale EXCEPT ![r] = entry = None \/ entry.stamp # ver]
            /\ began' = [began EXCEPT ![r] = ver]
            /\ pc' = [pc EXCEPT ![r] = "checked"]
            /\ UNCHANGED <<ver, entry, data, ret, nq, upc, recording, panicked>>
Load(r) == /\ pc[r] = "checked" /\ stale[r]
           /\ data' = [data EXCEPT ![r] = ver]
           /\ pc' = [pc EXCEPT ![r] = "loaded"]
           /\ UNCHANGED <<ver, entry, seen, stale, stamp, began, ret, nq, upc, recording, panicked>>
Store(r) == /\ pc[r] = "loaded"
            /\ entry' = [data |-> data[r], stamp |-> IF RestatAfterLoad THEN ver ELSE stamp[r]]
            /\ Return(r, data[r])
            /\ pc' = [pc EXCEPT ![r] = "idle"]
            /\ UNCHANGED <<ver, upc, recording, panicked>>
Hit(r) == /\ pc[r] = "checked" /\ ~stale[r]
          /\ pc' = [pc EXCEPT ![r] = "idle"]
          /\ IF ReturnChecked
               THEN Return(r, seen[r].data) /\ UNCHANGED panicked
               ELSE IF entry = None THEN panicked' = TRUE /\ UNCHANGED <<ret, nq, seen, stale, stamp, data, began>>
                    ELSE Return(r, entry.data) /\ UNCHANGED panicked
          /\ UNCHANGED <<ver, entry, upc, recording>>

AppendLine == /\ recording /\ ver < MaxVer /\ ver' = ver + 1
          /\ UNCHANGED <<entry, pc, seen, stale, stamp, data, began, ret, nq, upc, recording, panicked>>
UWrite == /\ ~recording /\ upc = "idle" /\ ver < MaxVer /\ ver' = ver + 1 /\ upc' = "wrote"
          /\ UNCHANGED <<entry, pc, seen, stale, stamp, data, began, ret, nq, recording, panicked>>
UInval == /\ upc = "wrote" /\ entry' = None /\ upc' = "idle"
          /\ UNCHANGED <<ver, pc, seen, stale, stamp, data, began, ret, nq, recording, panicked>>

CNext == (\E r \in Readers : Check(r) \/ Load(r) \/ Store(r) \/ Hit(r)) \/ AppendLine \/ UWrite \/ UInval
CSpec == CInit /\ [][CNext]_cvars

\* ---- properties
\* no query returns something older than what the file held when the query looked at it
C06_QueryFresh == \A r \in Readers : ret[r][2] >= ret[r][1]
\* no query crashes
C06_QueryNeverPanics == ~panicked
\* what makes it so: a cache entry never claims a newer stamp than the data it holds
C06_EntryNotOlderThanStamp == entry # None => entry.data >= entry.stamp
\* ... and once the writers are quiet and no query is in flight, the next query returns the last version
Quiet == upc = "idle" /\ \A r \in Readers : pc[r] = "idle"
C06_QuietThenLast == Quiet /\ entry # None /\ entry.stamp = ver => entry.data = ver
TypeOK == /\ ver \in 0..MaxVer /\ pc \in [Readers -> {"idle", "checked", "loaded"}] /\ upc \in {"idle", "wrote"}
=============================================================================
