\* the code before 7d260b7: the definition is truncated and rewritten in place
CONSTANTS Atomic = FALSE
  Trunc = TRUE
SPECIFICATION Spec
INVARIANTS C18_AllOrNothing C18_SavedWhenDone
CHECK_DEADLOCK FALSE
