---------------------------- MODULE LoaderPolicy ----------------------------
(* C19, the evaluation policy of the loader as a table (builder.go / parser.go after fixes 0993778 and
   9daa71d): which entry point evaluates (command substitution, variable expansion, export to the process
   environment) which kind of field.  The builder is driven by two flags: noEval and onlyMetadata.
   TLC enumerates entry points x field kinds x plants and checks that a non-executing entry point never
   evaluates anything, and that the executing one evaluates what a run needs.                          *)
EXTENDS Integers, FiniteSets, TLC

Entries == {"Load", "LoadWithoutEval", "LoadMetadata", "LoadYAML"}
NoEval(e)       == e # "Load"
OnlyMetadata(e) == e = "LoadMetadata"
FieldKinds == {"env", "params_named", "params_positional", "logDir", "step_command", "step_dir", "step_stdout", "step_script",
               "precondition", "handler_command", "mail", "executor_config", "function_body", "schedule", "tags"}
\* build phases that touch a field kind at load time at all (step fields are evaluated by the agent at run time, never by the loader)
LoadTime(k) == k \in {"env", "params_named", "params_positional", "logDir"}
Substitutes(e, k) == LoadTime(k) /\ ~NoEval(e)
Exports(e, k)     == k \in {"env", "params_named", "params_positional"} /\ ~NoEval(e)

VARIABLES e, k
Init == e \in Entries /\ k \in FieldKinds
Next == UNCHANGED <<e, k>>
C19_NonExecutingEvaluatesNothing == NoEval(e) => ~Substitutes(e, k) /\ ~Exports(e, k)
C19_ExecutingEvaluatesWhatARunNeeds == ~NoEval(e) /\ LoadTime(k) => Substitutes(e, k)
=============================================================================
