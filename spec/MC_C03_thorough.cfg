CONSTANTS N = 3
CONSTANT Configs <- RetryFull
SPECIFICATION MCSpec
VIEW MCView
CONSTRAINT ExecBound
INVARIANTS TypeOK C03_BoundInv C03_RetryCount C03_NoGhost

CHECK_DEADLOCK FALSE
