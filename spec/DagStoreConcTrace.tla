------------------------- MODULE DagStoreConcTrace -------------------------
(* C18: validates what the real DAG store did in two concurrent saves (vh savepair) against DagStoreConc.tla, at the
   grain of the gate of the verif build (the temporary file is written | the rename).  Every line is matched with the
   specification's step (write s = WriteAll, rename s = Rename); the outcome of every rename and the text the
   definition holds after every step are compared with the specification's (a difference is DRIFT), and the property
   is judged on the recorded values:
     C18_SaveLeftPartialText      the definition was read empty or half written (also: the free-running stage)
   (a save that fails because of the other one is not a violation by itself - an implementation may refuse one of two
   simultaneous saves as long as it stores nothing of it - but the specification never refuses: it is reported as drift)
     C18_AcceptedSaveNotStored    when both have returned the definition does not hold the text of the accepted save
                                  that was renamed last                                                         *)
EXTENDS DagStoreConc, Json
CONSTANT TraceFile
Trace == ndJsonDeserialize(TraceFile)
VARIABLES l, bad, lost, lastOk      \* lastOk: the saver whose accepted rename was recorded last ("" = none)
E == Trace[l]
tvars == <<vars, l, bad, lost, lastOk>>
IdOf(c) == IF c = Old THEN "old" ELSE IF c = <<>> THEN "empty"
           ELSE IF \E s \in Savers : c = TextOf(s) THEN (CHOOSE s \in Savers : c = TextOf(s)) ELSE "partial"
Reset == /\ inodes' = <<Old>> /\ file' = 1
         /\ tmp' = [n \in TmpNames |-> NoInode] /\ fd' = [s \in Savers |-> NoInode]
         /\ pc' = [s \in Savers |-> "start"] /\ accepted' = <<>> /\ lost' = FALSE /\ lastOk' = ""
Observed(e) ==
  IF e.ev = "Stress"
    THEN (IF e.badReads > 0 THEN {"C18_SaveLeftPartialText"} ELSE {}) \cup (IF e.refused > 0 THEN {"DRIFT_SaveRefusedByOtherSave"} ELSE {})
  ELSE IF e.ev = "Infra" THEN {"INFRA"}
  ELSE IF e.ev = "Step"
    THEN (IF e.content \notin ({"old"} \cup Savers) THEN {"C18_SaveLeftPartialText"} ELSE {})
         \cup (IF e.a = "rename" /\ ~e.ok THEN {"DRIFT_SaveRefusedByOtherSave"} ELSE {})
         \* the second rename: both saves have returned
         \cup (IF e.a = "rename" /\ (lastOk # "" \/ \E s \in Savers : pc[s] \in {"ok", "refused"})
                  /\ e.content # (IF e.ok THEN e.r ELSE IF lastOk = "" THEN "old" ELSE lastOk)
                 THEN {"C18_AcceptedSaveNotStored"} ELSE {})
  ELSE {}
Enabled(e) == CASE e.a = "write" -> pc[e.r] = "start" [] e.a = "rename" -> pc[e.r] = "written" [] OTHER -> FALSE
Act(e) == CASE e.a = "write" -> WriteAll(e.r) [] e.a = "rename" -> Rename(e.r)
Say(c) == PrintT("VERDICT " \o ToJson([line |-> l, scen |-> E.scen, viol |-> c, rec |-> E]))
TInit == Init /\ l = 1 /\ bad = 0 /\ lost = FALSE /\ lastOk = ""
TNext ==
  /\ l <= Len(Trace) /\ l' = l + 1
  /\ LET e == E
         obs == Observed(e) IN
     IF e.ev = "Reset" THEN Reset /\ UNCHANGED bad
     ELSE IF e.ev # "Step" \/ lost \/ ~Enabled(e)
       THEN /\ UNCHANGED <<vars, lastOk>> /\ lost' = (lost \/ e.ev = "Step")
            /\ LET c == obs \cup (IF e.ev = "Step" /\ ~lost THEN {"DRIFT_SaveStepNotInSpec"} ELSE {}) IN
               IF c = {} THEN UNCHANGED bad ELSE bad' = bad + 1 /\ Say(c)
       ELSE /\ Act(e) /\ UNCHANGED lost
            /\ lastOk' = IF e.a = "rename" /\ e.ok THEN e.r ELSE lastOk
            /\ LET differs == \/ IdOf(inodes'[file']) # e.content
                              \/ (e.a = "rename" /\ e.ok # (pc'[e.r] = "ok"))
                   c == obs \cup (IF differs THEN {"DRIFT_SaveDiffersFromSpec"} ELSE {}) IN
               IF c = {} THEN UNCHANGED bad ELSE bad' = bad + 1 /\ Say(c)
TSpec == TInit /\ [][TNext]_tvars
Emit == (l = Len(Trace) + 1) => PrintT("CONSUMED " \o ToString(Len(Trace)) \o " bad " \o ToString(bad))
=============================================================================
