---------------------------- MODULE StepSched ----------------------------
(* Implementation-shaped model of internal/dag/scheduler/{scheduler,node}.go.

   Grain of atomicity = the gates of the verification hooks (build tag `verif`): every
   action below is "one goroutine runs from the gate it is parked at to the next gate".
   A pc value IS the name of the gate the goroutine is parked at, so a recorded segment
   <<thread, from-gate, to-gate, status writes>> of the real code binds to exactly one
   action (StepSchedTrace.tla), and a behaviour of this model can be replayed into the
   real code by releasing the named goroutine (harness, model-driven mode).

   Threads:  L  the scheduling loop = Scheduler.Schedule           (scheduler.go:98-262)
             W(s) the worker goroutine of step s                   (scheduler.go:145-236)
             old goroutines of s parked at their deferred part     (tails[s])
             S  a caller of Scheduler.Signal (stop request, later the KILL escalation)
             the environment: child processes exit, the context deadline fires.
   Line numbers refer to the hooked source.                                              *)
EXTENDS Props_Retry, TLC

CONSTANTS N,          \* steps are 1..N in file (= scan) order
          Configs     \* set of run configurations explored (records, see Init)

Steps   == 1..N
HTypes  == {"success", "failure", "cancel", "exit"}

VARIABLES
  cfg,       \* [deps, contF, contS, rlimit, pcond, repeat, obeys, maxActive, handlers, hfail,
             \*  stop, kill, timeout, doneChan, dry]
  status,    \* node status as written under n.mu
  retry,     \* NodeState.RetryCount
  doneCnt,   \* NodeState.DoneCount
  wpc,       \* gate the current worker goroutine of s is parked at ("idle" = none)
  tails,     \* number of old goroutines of s parked at worker.tail (deferred teardown/finish/wg.Done)
  cmd,       \* n.cmd != nil
  alive,     \* child process exists
  sigd,      \* strongest signal delivered to the live process: none | term | kill
  res,       \* result of the last execNode: none | ok | fail | nostart
  lpc, li,   \* gate of the loop goroutine; node index (visit/launch)
  wg,        \* sync.WaitGroup counter
  hq, hlog,  \* handlers still to run (sequence of types); handler types that were executed
  hstat,     \* status of the handler nodes
  canceled, lastErr, timedOut,
  spc, si, sround,   \* Signal caller: gate; node index; "term" | "kill"
  sreq,      \* per step: the stop request has reached the node (requestStop): it creates no executor any more
  prevented, \* per step: the stop request reached an executor that had not started its process (PreventStart / Kill): Run starts nothing
  \* ---- history variables (not read by any action guard)
  execs,     \* process starts per step
  early,     \* C01 violated at some start
  lateStart, \* a step process was started after the stop was accepted
  lateFresh, \* ... whose worker had not yet passed its own cancel check when the stop was accepted
  created,   \* executor created (ever) per step
  pastCreate,\* snapshot at stop: the worker of s had already passed its own cancel check (F-05b window)
  hwm,       \* C15: max number of simultaneously executing steps
  rwait,     \* step is waiting out its retry interval
  lastOK,    \* outcome of the last attempt per step
  stopDone,  \* every step was terminal when the stop was accepted
  hselRun    \* run status at handler selection

loopVars == <<lpc, li, wg, hq, hlog, hstat, hselRun>>
nodeVars == <<status, retry, doneCnt>>
workVars == <<wpc, tails, cmd, alive, sigd, res>>
flagVars == <<canceled, lastErr, timedOut>>
stopVars == <<spc, si, sround, sreq, prevented>>
histVars == <<execs, early, lateStart, lateFresh, created, pastCreate, hwm, rwait, lastOK, stopDone>>
vars == <<cfg, loopVars, nodeVars, workVars, flagVars, stopVars, histVars>>

-----------------------------------------------------------------------------
FinishedSt(st)  == \A s \in Steps : st[s] \notin {NS, RUN}          \* isFinished, scheduler.go:483
RunningCnt(st)  == Cardinality({s \in Steps : st[s] = RUN})        \* runningCount
SucceededSt(st) == \A s \in Steps : st[s] \in {FIN, SKIP}          \* isSucceed
IsRunningSt(st) == \E s \in Steps : st[s] = RUN                    \* g.IsRunning
\* Scheduler.Status (scheduler.go:335-349); the graph is started in every state of the model
RunStatus(st, canc, lerr) ==
  IF canc /\ ~SucceededSt(st) THEN CANC
  ELSE IF IsRunningSt(st) THEN RUN
  ELSE IF lerr THEN FAIL ELSE FIN

\* isReady (scheduler.go:372-401): walks all dependencies in `depends` order (= ascending
\* index in every generated DAG); each blocking one re-labels the node, the last one wins.
Mark(d)    == IF status[d] = FAIL /\ ~cfg.contF[d] THEN CANC
              ELSE IF status[d] = SKIP /\ ~cfg.contS[d] THEN SKIP
              ELSE IF status[d] = CANC THEN CANC ELSE "nomark"
Ready(s)   == \A d \in cfg.deps[s] : DepAllows(status[d], cfg.contF[d], cfg.contS[d])
Markers(s) == {d \in cfg.deps[s] : Mark(d) # "nomark"}
MaxOf(S)   == CHOOSE x \in S : \A y \in S : y <= x
Marked(s)  == IF Markers(s) = {} THEN status ELSE [status EXCEPT ![s] = Mark(MaxOf(Markers(s)))]

InitRest ==
  /\ status = [s \in Steps |-> NS] /\ retry = [s \in Steps |-> 0] /\ doneCnt = [s \in Steps |-> 0]
  /\ wpc = [s \in Steps |-> "idle"] /\ tails = [s \in Steps |-> 0]
  /\ cmd = [s \in Steps |-> FALSE] /\ alive = [s \in Steps |-> FALSE]
  /\ sigd = [s \in Steps |-> "none"] /\ res = [s \in Steps |-> "none"]
  /\ lpc = "start" /\ li = 1 /\ wg = 0
  /\ hq = <<>> /\ hlog = <<>> /\ hstat = [h \in HTypes |-> NS] /\ hselRun = "none"
  /\ canceled = FALSE /\ lastErr = FALSE /\ timedOut = FALSE
  /\ spc = "idle" /\ si = 1 /\ sround = "term"
  /\ sreq = [s \in Steps |-> FALSE] /\ prevented = [s \in Steps |-> FALSE]
  /\ execs = [s \in Steps |-> 0] /\ early = FALSE /\ lateStart = FALSE /\ lateFresh = FALSE
  /\ created = [s \in Steps |-> FALSE] /\ pastCreate = [s \in Steps |-> FALSE]
  /\ hwm = 0 /\ rwait = [s \in Steps |-> FALSE] /\ lastOK = [s \in Steps |-> FALSE]
  /\ stopDone = FALSE
Init == cfg \in Configs /\ InitRest

-----------------------------------------------------------------------------
(* ---- the scheduling loop ---- *)

\* end of one NodesIteration: pause, then the loop condition (scheduler.go:113 / :237)
EndIter(st) == /\ lpc' = (IF FinishedSt(st) THEN "loop.wgwait" ELSE "loop.top")
               /\ li' = 1
Advance(st) == IF li < N THEN lpc' = "loop.visit" /\ li' = li + 1 ELSE EndIter(st)

\* Schedule: setup, g.Start, context with deadline, first evaluation of the loop condition (:99-113)
LStart == /\ lpc = "start"
          /\ lpc' = (IF FinishedSt(status) THEN "loop.wgwait" ELSE "loop.top") /\ li' = 1
          /\ UNCHANGED <<cfg, wg, hq, hlog, hstat, hselRun, nodeVars, workVars, flagVars, stopVars, histVars>>

LTop == /\ lpc = "loop.top"                                       \* :115-118
        /\ IF canceled THEN lpc' = "loop.wgwait" /\ li' = 1
                       ELSE lpc' = "loop.visit" /\ li' = 1
        /\ UNCHANGED <<cfg, wg, hq, hlog, hstat, hselRun, nodeVars, workVars, flagVars, stopVars, histVars>>

LVisit == /\ lpc = "loop.visit"                                   \* :121-128
          /\ IF status[li] # NS
               THEN Advance(status) /\ UNCHANGED status
             ELSE IF ~Ready(li)
               THEN status' = Marked(li) /\ Advance(Marked(li))
             ELSE IF canceled
               THEN EndIter(status) /\ UNCHANGED status           \* break NodesIteration
             ELSE lpc' = "loop.launch" /\ UNCHANGED <<li, status>>
          /\ UNCHANGED <<cfg, wg, hq, hlog, hstat, hselRun, retry, doneCnt, workVars, flagVars, stopVars, histVars>>

LLaunch ==
  /\ lpc = "loop.launch"                                          \* :129-147
  /\ IF cfg.maxActive > 0 /\ wg >= cfg.maxActive                  \* the limit counts the step goroutines that have not ended (wg)
       THEN Advance(status) /\ UNCHANGED <<status, wpc, wg>>
     ELSE IF cfg.pcond[li] = "unmet"
       THEN /\ status' = [status EXCEPT ![li] = SKIP] /\ Advance(status')
            /\ UNCHANGED <<wpc, wg>>
     ELSE /\ status' = [status EXCEPT ![li] = RUN]
          /\ wpc' = [wpc EXCEPT ![li] = "worker.begin"]
          /\ wg' = wg + 1
          /\ Advance(status')
  /\ UNCHANGED <<cfg, hq, hlog, hstat, hselRun, retry, doneCnt, tails, cmd, alive, sigd, res, flagVars, stopVars, histVars>>

\* wg.Wait returns, handlers are selected (scheduler.go:240-254)
LWgWait ==
  /\ lpc = "loop.wgwait" /\ wg = 0
  /\ LET run == RunStatus(status, canceled, lastErr)
         q   == ExpectedHandlers(cfg.handlers, run)
     IN /\ hq' = q /\ hselRun' = run
        /\ lpc' = (IF q = <<>> THEN "returned" ELSE "handler")
  /\ UNCHANGED <<cfg, li, wg, hlog, hstat, nodeVars, workVars, flagVars, stopVars, histVars>>

\* runHandlerNode up to the executor (scheduler.go:403-430, node.go Execute)
HNext(q) == IF q = <<>> THEN "returned" ELSE "handler"

LHandler ==
  /\ lpc = "handler"
  /\ IF cfg.dry
       THEN /\ hstat' = [hstat EXCEPT ![Head(hq)] = FIN]     \* dry run: running -> finished, nothing executed
            /\ hq' = Tail(hq) /\ lpc' = HNext(Tail(hq))
       ELSE /\ hstat' = [hstat EXCEPT ![Head(hq)] = RUN]
            /\ lpc' = "h.created" /\ UNCHANGED hq
  /\ UNCHANGED <<cfg, li, wg, hlog, hselRun, nodeVars, workVars, flagVars, stopVars, histVars>>

LHCreated ==
  /\ lpc = "h.created"
  /\ IF timedOut                                   \* the handler's executor gets the expired run context
       THEN /\ hstat' = [hstat EXCEPT ![Head(hq)] = FAIL]
            /\ hq' = Tail(hq) /\ lpc' = HNext(Tail(hq)) /\ UNCHANGED hlog
       ELSE /\ lpc' = "h.proc" /\ hlog' = Append(hlog, Head(hq)) /\ UNCHANGED <<hq, hstat>>
  /\ UNCHANGED <<cfg, li, wg, hselRun, nodeVars, workVars, flagVars, stopVars, histVars>>

LHExit ==
  /\ lpc = "h.proc"
  /\ \E ok \in BOOLEAN :
       /\ (Head(hq) \in cfg.hfail) => ~ok
       /\ (Head(hq) \notin cfg.hfail /\ ~timedOut) => ok
       /\ hstat' = [hstat EXCEPT ![Head(hq)] = IF ok THEN FIN ELSE FAIL]
  /\ hq' = Tail(hq) /\ lpc' = HNext(Tail(hq))
  /\ UNCHANGED <<cfg, li, wg, hlog, hselRun, nodeVars, workVars, flagVars, stopVars, histVars>>

-----------------------------------------------------------------------------
(* ---- worker goroutine of step s ---- *)

\* "finish the node" (scheduler.go:224-235): running -> finished, explicit teardown, done <- node;
\* then the goroutine reaches its deferred part (gate worker.tail)
ToTail(s) == /\ wpc' = [wpc EXCEPT ![s] = "idle"] /\ tails' = [tails EXCEPT ![s] = @ + 1]
FinishSection(s, st) == [st EXCEPT ![s] = IF @ = RUN THEN FIN ELSE @]

WBegin(s) ==
  /\ wpc[s] = "worker.begin"                                      \* :152-167 setupNode + loop condition
  /\ IF canceled                                                  \* the exec loop is never entered: running -> canceled
       THEN /\ status' = [status EXCEPT ![s] = IF @ = RUN THEN CANC ELSE @] /\ ToTail(s)
       ELSE /\ wpc' = [wpc EXCEPT ![s] = "worker.exec"] /\ UNCHANGED <<status, tails>>
  /\ UNCHANGED <<cfg, loopVars, retry, doneCnt, cmd, alive, sigd, res, flagVars, stopVars, histVars>>

WExec(s) ==
  /\ wpc[s] = "worker.exec"                                       \* execNode -> Execute -> setupExec (node.go)
  /\ IF cfg.dry
       THEN /\ res' = [res EXCEPT ![s] = "ok"] /\ wpc' = [wpc EXCEPT ![s] = "worker.post"]
            /\ UNCHANGED <<cmd, created, prevented>>
     ELSE IF sreq[s]                                              \* setupExec refuses: the run is being stopped
       THEN /\ res' = [res EXCEPT ![s] = "nostart"] /\ wpc' = [wpc EXCEPT ![s] = "worker.post"]
            /\ UNCHANGED <<cmd, created, prevented>>
       ELSE /\ cmd' = [cmd EXCEPT ![s] = TRUE] /\ created' = [created EXCEPT ![s] = TRUE]
            /\ prevented' = [prevented EXCEPT ![s] = FALSE]       \* a new executor
            /\ wpc' = [wpc EXCEPT ![s] = "node.created"] /\ UNCHANGED res
  /\ UNCHANGED <<cfg, loopVars, nodeVars, tails, alive, sigd, flagVars, spc, si, sround, sreq,
                 execs, early, lateStart, lateFresh, pastCreate, hwm, rwait, lastOK, stopDone>>

NExec == NExecuting(Steps, alive, rwait)

WStart(s) ==
  /\ wpc[s] = "node.created"                                      \* cmd.Run(): process start (command.go:50-57)
  /\ IF timedOut \/ prevented[s]                                  \* exec.CommandContext refuses an expired context; Run after PreventStart / Kill
       THEN /\ res' = [res EXCEPT ![s] = "nostart"] /\ wpc' = [wpc EXCEPT ![s] = "worker.post"]
            /\ UNCHANGED <<alive, sigd, execs, early, lateStart, lateFresh, hwm>>
       ELSE /\ alive' = [alive EXCEPT ![s] = TRUE] /\ sigd' = [sigd EXCEPT ![s] = "none"]
            /\ execs' = [execs EXCEPT ![s] = @ + 1]
            /\ wpc' = [wpc EXCEPT ![s] = "proc"]
            /\ early' = (early \/ ~C01_StartOK(cfg.deps, cfg.contF, cfg.contS, status, alive, s))
            /\ lateStart' = (lateStart \/ canceled)
            /\ lateFresh' = (lateFresh \/ (canceled /\ ~pastCreate[s]))
            /\ hwm' = IF NExec + 1 > hwm THEN NExec + 1 ELSE hwm
            /\ UNCHANGED res
  /\ UNCHANGED <<cfg, loopVars, nodeVars, tails, cmd, flagVars, stopVars, created, pastCreate, rwait, lastOK, stopDone>>

WExit(s) ==
  /\ wpc[s] = "proc"                                              \* the process ends, Execute returns
  /\ \E o \in {"ok", "fail"} :
        /\ (sigd[s] = "kill" \/ (sigd[s] = "term" /\ cfg.obeys[s]) \/ timedOut) => o = "fail"
        /\ res' = [res EXCEPT ![s] = o] /\ lastOK' = [lastOK EXCEPT ![s] = (o = "ok")]
  /\ alive' = [alive EXCEPT ![s] = FALSE]
  /\ wpc' = [wpc EXCEPT ![s] = "worker.post"]
  /\ UNCHANGED <<cfg, loopVars, nodeVars, tails, cmd, sigd, flagVars, stopVars,
                 execs, early, lateStart, lateFresh, created, pastCreate, hwm, rwait, stopDone>>

\* the switch after execNode, done count, repeat decision (scheduler.go worker, after execNode)
WPost(s) ==
  /\ wpc[s] = "worker.post"
  /\ LET failed == res[s] # "ok"
         st     == status[s] IN
     IF failed /\ st \notin {FIN, CANC} /\ ~timedOut /\ ~canceled /\ cfg.rlimit[s] > retry[s]
       THEN /\ retry' = [retry EXCEPT ![s] = @ + 1]                \* retry: sleep with status running
            /\ wpc' = [wpc EXCEPT ![s] = "worker.retrywake"]
            /\ rwait' = [rwait EXCEPT ![s] = TRUE]
            /\ UNCHANGED <<status, doneCnt, lastErr, tails>>
       ELSE LET st1 == IF ~failed \/ st \in {FIN, CANC} THEN st
                       ELSE IF timedOut THEN CANC
                       ELSE IF canceled THEN CANC                  \* failed after the run was canceled: canceled
                       ELSE FAIL
                status1 == [status EXCEPT ![s] = st1]
                again == cfg.repeat[s] /\ (~failed \/ cfg.contF[s]) /\ ~canceled
            IN /\ lastErr' = (lastErr \/ (failed /\ st \notin {FIN, CANC}))
               /\ doneCnt' = [doneCnt EXCEPT ![s] = IF st1 # CANC THEN @ + 1 ELSE @]
               /\ UNCHANGED <<retry, rwait>>
               /\ IF again                                         \* repeat: sleep (after a failed iteration the node stays labelled failed)
                    THEN /\ wpc' = [wpc EXCEPT ![s] = "worker.repeatwake"]
                         /\ status' = status1 /\ UNCHANGED tails
                  ELSE IF failed /\ cfg.doneChan                   \* done <- node; return
                    THEN /\ status' = status1 /\ ToTail(s)
                  ELSE /\ status' = FinishSection(s, status1) /\ ToTail(s)
  /\ UNCHANGED <<cfg, loopVars, cmd, alive, sigd, res, canceled, timedOut, stopVars,
                 execs, early, lateStart, lateFresh, created, pastCreate, hwm, lastOK, stopDone>>

\* end of the repeat interval: the loop condition is evaluated again (a stop request may have arrived meanwhile)
WRepeatWake(s) ==
  /\ wpc[s] = "worker.repeatwake"
  /\ IF canceled
       THEN /\ status' = FinishSection(s, status) /\ ToTail(s)      \* "finish the node"
       ELSE /\ wpc' = [wpc EXCEPT ![s] = "worker.exec"] /\ UNCHANGED <<status, tails>>
  /\ UNCHANGED <<cfg, loopVars, retry, doneCnt, cmd, alive, sigd, res, flagVars, stopVars, histVars>>

\* end of the retry interval (scheduler.go:195-199), then the rest of the loop body
WRetryWake(s) ==
  /\ wpc[s] = "worker.retrywake"
  /\ status' = [status EXCEPT ![s] = NS]
  /\ doneCnt' = [doneCnt EXCEPT ![s] = @ + 1]
  /\ rwait' = [rwait EXCEPT ![s] = FALSE]
  /\ ToTail(s)
  /\ UNCHANGED <<cfg, loopVars, retry, cmd, alive, sigd, res, flagVars, stopVars,
                 execs, early, lateStart, lateFresh, created, pastCreate, hwm, lastOK, stopDone>>

\* deferred part of a goroutine: teardown, finish, wg.Done (scheduler.go:146-150, :165-168)
WTail(s) ==
  /\ tails[s] > 0
  /\ tails' = [tails EXCEPT ![s] = @ - 1] /\ wg' = wg - 1
  /\ UNCHANGED <<cfg, lpc, li, hq, hlog, hstat, hselRun, nodeVars, wpc, cmd, alive, sigd, res, flagVars, stopVars, histVars>>

-----------------------------------------------------------------------------
(* ---- stop request: Scheduler.Signal (scheduler.go:303-327, node.go:248-264) ---- *)
Stronger(a, b) == IF a = "kill" \/ b = "kill" THEN "kill" ELSE IF a = "term" \/ b = "term" THEN "term" ELSE "none"

SCall == /\ spc = "idle" /\ cfg.stop /\ lpc # "returned"          \* a stop request arrives: flag set, gate signal.flagged
         /\ canceled' = TRUE /\ spc' = "signal.flagged" /\ sround' = "term"
         /\ pastCreate' = [s \in Steps |-> wpc[s] \in {"worker.exec", "node.created"}]   \* worker already past its own cancel check
         /\ stopDone' = FinishedSt(status)
         /\ sreq' = [s \in Steps |-> TRUE]                        \* requestStop on every node (repeating ones too) before the gate
         /\ prevented' = [s \in Steps |-> prevented[s] \/ wpc[s] = "node.created"]   \* executor created, process not started
         /\ UNCHANGED <<cfg, loopVars, nodeVars, workVars, lastErr, timedOut, si,
                        execs, early, lateStart, lateFresh, created, hwm, rwait, lastOK>>

SKillCall == /\ spc = "between" /\ cfg.kill /\ lpc # "returned"   \* agent escalation: Signal(SIGKILL) (agent.go:404-408)
             /\ spc' = "signal.flagged" /\ sround' = "kill"
             /\ UNCHANGED <<cfg, loopVars, nodeVars, workVars, flagVars, si, sreq, prevented, histVars>>

SFlagged == /\ spc = "signal.flagged"
            /\ spc' = "signal.node" /\ si' = 1
            /\ UNCHANGED <<cfg, loopVars, nodeVars, workVars, flagVars, sround, sreq, prevented, histVars>>

SNode ==
  /\ spc = "signal.node"
  /\ IF status[si] \in {RUN, CANC} /\ ~cfg.repeat[si]            \* a node signalled before is labelled canceled: later rounds reach it too
       THEN /\ status' = [status EXCEPT ![si] = CANC]
            /\ sigd' = [sigd EXCEPT ![si] = IF cmd[si] /\ alive[si] THEN Stronger(@, sround) ELSE @]
       ELSE UNCHANGED <<status, sigd>>
  /\ IF si < N THEN si' = si + 1 /\ UNCHANGED spc
              ELSE si' = 1 /\ spc' = (IF sround = "term" THEN "between" ELSE "done")
  /\ UNCHANGED <<cfg, loopVars, retry, doneCnt, wpc, tails, cmd, alive, res, flagVars, sround, sreq, prevented, histVars>>

\* context deadline (scheduler.go:108-112)
TFire == /\ cfg.timeout /\ ~timedOut /\ lpc # "returned"
         /\ timedOut' = TRUE
         /\ UNCHANGED <<cfg, loopVars, nodeVars, workVars, canceled, lastErr, stopVars, histVars>>

-----------------------------------------------------------------------------
Loop      == LStart \/ LTop \/ LVisit \/ LLaunch \/ LWgWait \/ LHandler \/ LHCreated \/ LHExit
WorkerCtl(s) == WBegin(s) \/ WExec(s) \/ WStart(s) \/ WPost(s) \/ WRetryWake(s) \/ WRepeatWake(s) \/ WTail(s)
Worker(s) == WorkerCtl(s) \/ WExit(s)
Stop      == SCall \/ SKillCall \/ SFlagged \/ SNode
Next      == Loop \/ (\E s \in Steps : Worker(s)) \/ Stop \/ TFire
Spec      == Init /\ [][Next]_vars

\* a process that was told to die, or is told nothing, eventually ends; one that ignores SIGTERM and
\* is never SIGKILLed may run forever
MustExit(s) == sigd[s] = "kill" \/ (sigd[s] = "term" /\ cfg.obeys[s]) \/ timedOut \/ sigd[s] = "none"
FairSpec == Spec /\ WF_vars(Loop) /\ WF_vars(Stop) /\ WF_vars(TFire)
                 /\ \A s \in Steps : WF_vars(WorkerCtl(s)) /\ WF_vars(MustExit(s) /\ WExit(s))

-----------------------------------------------------------------------------
(* ---- properties ---- *)
Returned == lpc = "returned"
\* Scheduler.Status: once the handlers have been selected the outcome is frozen (a stop request that arrives while the
\* handlers run does not change it)
RunNow   == IF lpc \in {"handler", "h.created", "h.proc", "returned"} THEN hselRun ELSE RunStatus(status, canceled, lastErr)
RepExtra(s) == IF cfg.repeat[s] THEN 1 ELSE 0

TypeOK == /\ \A s \in Steps : status[s] \in {NS, RUN, FAIL, CANC, FIN, SKIP}
          /\ wg >= 0 /\ \A s \in Steps : tails[s] >= 0

C01_NoEarlyStart == ~early
C15_Limit        == C15_Within(cfg.maxActive, hwm)
C03_BoundInv     == \A s \in Steps : ~cfg.repeat[s] => C03_Bound(execs[s], cfg.rlimit[s], 0)
C03_RetryCount   == \A s \in Steps : ~cfg.repeat[s] /\ wpc[s] \in {"idle"} /\ execs[s] >= 1 => retry[s] <= execs[s]
C03_NoGhost      == \A s \in Steps : status[s] = FIN /\ ~cfg.dry => execs[s] >= 1
C05_NoLateStart  == ~lateStart
C05_NoLateFresh  == ~lateFresh

C02_Final == Returned /\ ~canceled /\ ~timedOut =>
               \A s \in Steps : ~cfg.repeat[s] =>
                  C02_Local(cfg.deps, cfg.contF, cfg.contS, status, s, execs[s], lastOK[s], cfg.pcond[s] # "unmet")

C04_Outcome == Returned /\ ~timedOut =>
                 IF canceled THEN C04_OutcomeStop(Steps, status, RunNow, stopDone)
                             ELSE C04_OutcomeNoStop(Steps, status, RunNow)
C04_HandlerLog == Returned /\ ~timedOut => C04_Handlers(cfg.handlers, RunNow, hlog)
C04_ReturnAgrees == Returned /\ ~timedOut => (RunNow = FIN => ~lastErr) /\ (RunNow = FAIL => lastErr)   \* return value of Schedule vs status
\* C08 (labels of a finished run): no step is left "running", and a step labelled finished did not fail its last execution
C08_FinalLabels == Returned => \A s \in Steps : /\ status[s] # RUN
                                                 /\ (status[s] = FIN /\ execs[s] >= 1 /\ ~cfg.dry => lastOK[s])
C04_NoRunningLeft == Returned => \A s \in Steps : status[s] # RUN

\* when the KILL escalation round of Signal is over, every process still alive (repeat steps excepted) has been sent SIGKILL
C05_KillReaches  == spc = "done" => \A s \in Steps : alive[s] /\ ~cfg.repeat[s] => sigd[s] = "kill"
\* when the TERM round is over, every process that was alive when the stop was accepted and still is has been signalled
\* after the first round every live process of a non-repeating step has got the stop signal (no exception any more for
\* workers that were past their cancel check: they start nothing)
C05_TermReachesAll == spc = "between" => \A s \in Steps : alive[s] /\ ~cfg.repeat[s] => sigd[s] # "none"
C05_TermReaches  == spc = "between" => \A s \in Steps : alive[s] /\ ~cfg.repeat[s] /\ ~pastCreate[s] => sigd[s] # "none"

\* C10: whatever instant a run is cut at, its status vector is one the retry rules are defined for
C10_ReachableConsistent == Consistent(cfg.deps, cfg.contF, cfg.contS, status)

Ends     == <>Returned
StopEnds == (spc = "signal.flagged") ~> Returned
=============================================================================
