---------------------------- MODULE Admission ----------------------------
(* Implementation-shaped model of graph admission: ExecutionGraph.setup (graph.go:212) resolves
   every `depends` name (findStep: first error wins), adds one edge per entry, then hasCycle
   (graph.go:230) runs Kahn's algorithm: in-degrees from the `to` map, queue of zero in-degree
   nodes in file order, pop / decrement / push, cycle iff some in-degree stays positive.
   The agent (agent.go:99 setup before history/socket/steps) refuses the run when setup fails.
   TLC checks that the algorithm's verdict equals the declarative Admissible for every graph
   with N steps (every edge set incl. self loops, with or without a dangling entry).          *)
EXTENDS Props_Admission, TLC

CONSTANT N
Node == 1..N

VARIABLES deps,     \* the DAG: sequence of dependency sequences (0 = dangling name)
          pc,       \* "resolve" | "indeg" | "kahn" | "final" | "done"
          indeg,    \* in-degree map of hasCycle
          q,        \* Kahn queue
          verdict,  \* "none" | "accepted" | "dangling" | "cycle"
          effects   \* side effects of the agent so far (history opened, socket bound, steps executed)
vars == <<deps, pc, indeg, q, verdict, effects>>

SetToSeq(S) == CHOOSE f \in [1..Cardinality(S) -> S] : \A i, j \in 1..Cardinality(S) : i < j => f[i] < f[j]
\* all dependency lists: any subset of the steps (ascending), optionally one dangling entry on one step
AllDeps == {[s \in Node |-> SetToSeq(d[s]) \o (IF s = dg THEN <<0>> ELSE <<>>)] : d \in [Node -> SUBSET Node], dg \in 0..N}

Init == /\ deps \in AllDeps
        /\ pc = "resolve" /\ indeg = [s \in Node |-> 0] /\ q = <<>> /\ verdict = "none" /\ effects = {}

\* setup(): findStep for every entry; the first unknown name aborts
Resolve == /\ pc = "resolve"
           /\ IF NoDangling(deps) THEN pc' = "indeg" /\ UNCHANGED verdict
                                  ELSE pc' = "done" /\ verdict' = "dangling"
           /\ UNCHANGED <<deps, indeg, q, effects>>

Count(seq, x) == Cardinality({i \in DOMAIN seq : seq[i] = x})
\* hasCycle(): in-degrees (one per `depends` entry), initial queue in file order
InDeg == /\ pc = "indeg"
         /\ indeg' = [s \in Node |-> Len(deps[s])]
         /\ q' = SelectSeq(SetToSeq(Node), LAMBDA s : Len(deps[s]) = 0)
         /\ pc' = "kahn"
         /\ UNCHANGED <<deps, verdict, effects>>

\* one iteration of the queue loop: pop f, decrement every node that depends on f (once per entry)
Kahn == /\ pc = "kahn"
        /\ IF q = <<>> THEN pc' = "final" /\ UNCHANGED <<indeg, q>>
           ELSE LET f == Head(q)
                    nd == [s \in Node |-> indeg[s] - Count(deps[s], f)]
                    newly == SelectSeq(SetToSeq(Node), LAMBDA s : nd[s] = 0 /\ indeg[s] > 0)
                IN indeg' = nd /\ q' = Tail(q) \o newly /\ UNCHANGED pc
        /\ UNCHANGED <<deps, verdict, effects>>

Final == /\ pc = "final"
         /\ verdict' = (IF \E s \in Node : indeg[s] > 0 THEN "cycle" ELSE "accepted")
         /\ pc' = "done"
         /\ UNCHANGED <<deps, indeg, q, effects>>

\* the agent goes on to open the history, bind the socket and run steps only when the graph was accepted
AgentGoesOn == /\ pc = "done" /\ verdict = "accepted" /\ effects = {}
               /\ effects' = {"history", "socket", "steps"}
               /\ UNCHANGED <<deps, pc, indeg, q, verdict>>

Next == Resolve \/ InDeg \/ Kahn \/ Final \/ AgentGoesOn
Spec == Init /\ [][Next]_vars /\ WF_vars(Next)

C14_VerdictCorrect == pc = "done" => ((verdict = "accepted") <=> Admissible(deps))
C14_NoEffectsWhenRefused == verdict # "accepted" => effects = {}
C14_Terminates == <>(pc = "done")
=============================================================================
