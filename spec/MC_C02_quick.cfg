CONSTANTS N = 3
CONSTANT Configs <- OrderQuick
SPECIFICATION MCSpec
VIEW MCView
CONSTRAINT ExecBound
INVARIANTS TypeOK C02_Final C04_NoRunningLeft

CHECK_DEADLOCK FALSE
