SPECIFICATION Spec
CONSTANTS Agents = {"a1"}
 NSteps = 2
 AllowCrash = TRUE
 FixStatus = TRUE
 BindFailUnlinks = FALSE
 ExclusiveBind = TRUE
INVARIANTS C08_CutShort C08_NoError
CHECK_DEADLOCK FALSE
