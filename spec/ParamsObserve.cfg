CONSTANTS TraceFile = "trace.ndjson"
  MaxLen = 3
SPECIFICATION TSpec
INVARIANT Emit
CHECK_DEADLOCK FALSE
