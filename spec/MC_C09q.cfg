CONSTANTS Dags <- MCDags1
  Scheds <- MCScheds1
  Horizon = 3
SPECIFICATION Spec
CONSTRAINT Bound
INVARIANTS C09_OnlyScheduled C09_NoDouble C09_GuardHolds
CHECK_DEADLOCK FALSE
