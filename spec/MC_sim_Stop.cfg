CONSTANTS N = 3
CONSTANT Configs <- StopFull
SPECIFICATION MCSpec
INVARIANTS EmitBehaviour
CHECK_DEADLOCK FALSE
