---------------------------- MODULE Auth ----------------------------
(* C17.  The authentication chain of the web server as a deterministic pipeline over abstract
   requests:   prefixChecker -> BasicAuth -> TokenAuth -> (cors, logging, ...) -> API handler
   (internal/frontend/middleware/global.go:13-36, basic_auth.go, token_auth.go).

   An abstract request is [conf, hdr, path, method].  A header is a sequence of ATOMS, so that
   strings.Split(h, " ") and net/http's parseBasicAuth can be modelled without string
   arithmetic: a word atom (the scheme word), SP (one blank), TAB, or a payload atom:
     [k |-> "b64", valid, user, pass, colon]   a base64 text (decodes to user:pass if valid)
     [k |-> "raw", v]                           any other text; never valid base64
   The harness renders every abstract request to a concrete one, sends it through the real
   middleware.Setup + SetupGlobalMiddleware and logs what happened; AuthObserve.tla judges
   the records with MustPass / MustDeny below and compares with Decide (conformance).       *)
EXTENDS Integers, Sequences, FiniteSets, TLC

SP  == [k |-> "sp"]
TAB == [k |-> "tab"]
Word(v) == [k |-> "word", v |-> v]
B64(valid, u, p, colon) == [k |-> "b64", valid |-> valid, user |-> u, pass |-> p, colon |-> colon]
Raw(v) == [k |-> "raw", v |-> v]

Schemes  == {"none", "Basic", "basic", "Bearer", "bearer", "Other"}
Seps     == {"one", "two", "none", "tab"}
Pays     == {"b64_U_P", "b64_U_wrong", "b64_wrong_P", "b64_U_empty", "b64_empty_P", "b64_U_Pprefix", "b64_U_Psuffix",
             "b64_nocolon", "b64_U_T", "badb64", "T", "Twrong", "Tprefix", "Tsuffix", "Tcase", "P", "empty",
             "T_sp_extra", "junk_sp_T", "b64_U_P_sp_T", "b64_U_P_pad",
             "b64_other_empty", "b64_empty_empty", "b64_other_wrong", "b64_Ucase_P", "b64_Upre_P"}
Shapes   == {"api", "api_sub", "api_root", "apix", "ui", "root", "upper", "dslash"}
Methods  == {"GET", "POST", "DELETE", "OPTIONS"}
Confs    == [basic : BOOLEAN, token : BOOLEAN]

PayAtoms(p) ==
  CASE p = "b64_U_P"       -> <<B64(TRUE, "U", "P", TRUE)>>
    [] p = "b64_U_wrong"   -> <<B64(TRUE, "U", "wrong", TRUE)>>
    [] p = "b64_wrong_P"   -> <<B64(TRUE, "other", "P", TRUE)>>
    [] p = "b64_U_empty"   -> <<B64(TRUE, "U", "", TRUE)>>
    [] p = "b64_empty_P"   -> <<B64(TRUE, "", "P", TRUE)>>
    [] p = "b64_U_Pprefix" -> <<B64(TRUE, "U", "Ppre", TRUE)>>
    [] p = "b64_U_Psuffix" -> <<B64(TRUE, "U", "Psuf", TRUE)>>
    [] p = "b64_nocolon"   -> <<B64(TRUE, "UP", "", FALSE)>>
    [] p = "b64_U_T"       -> <<B64(TRUE, "U", "T", TRUE)>>
    [] p = "b64_U_P_pad"   -> <<B64(FALSE, "U", "P", TRUE)>>          \* the right text with broken padding
    [] p = "b64_other_empty" -> <<B64(TRUE, "other", "", TRUE)>>
    [] p = "b64_empty_empty" -> <<B64(TRUE, "", "", TRUE)>>
    [] p = "b64_other_wrong" -> <<B64(TRUE, "other", "wrong", TRUE)>>
    [] p = "b64_Ucase_P"     -> <<B64(TRUE, "Ucase", "P", TRUE)>>
    [] p = "b64_Upre_P"      -> <<B64(TRUE, "Upre", "P", TRUE)>>
    [] p = "badb64"        -> <<Raw("junk")>>
    [] p = "T"             -> <<Raw("T")>>
    [] p = "Twrong"        -> <<Raw("Twrong")>>
    [] p = "Tprefix"       -> <<Raw("Tpre")>>
    [] p = "Tsuffix"       -> <<Raw("Tsuf")>>
    [] p = "Tcase"         -> <<Raw("Tcase")>>
    [] p = "P"             -> <<Raw("P")>>
    [] p = "empty"         -> <<>>
    [] p = "T_sp_extra"    -> <<Raw("T"), SP, Raw("junk")>>
    [] p = "junk_sp_T"     -> <<Raw("junk"), SP, Raw("T")>>
    [] p = "b64_U_P_sp_T"  -> <<B64(TRUE, "U", "P", TRUE), SP, Raw("T")>>
SepAtoms(s) == CASE s = "one" -> <<SP>> [] s = "two" -> <<SP, SP>> [] s = "none" -> <<>> [] s = "tab" -> <<TAB>>
SchemeWord(s) == IF s = "Other" THEN "Token" ELSE s
\* the Authorization header as atoms; scheme "none" = header absent
HdrAtoms(scheme, sep, pay) == IF scheme = "none" THEN <<>> ELSE <<Word(SchemeWord(scheme))>> \o SepAtoms(sep) \o PayAtoms(pay)

\* ---- strings.Split(header, " "): the words between blanks; each word is a sequence of atoms
RECURSIVE SplitSP(_, _)
SplitSP(atoms, cur) ==
  IF atoms = <<>> THEN <<cur>>
  ELSE IF Head(atoms) = SP THEN <<cur>> \o SplitSP(Tail(atoms), <<>>)
  ELSE SplitSP(Tail(atoms), Append(cur, Head(atoms)))
Words(atoms) == SplitSP(atoms, <<>>)
IsWord(w, v) == w = <<Word(v)>>

\* ---- net/http (*Request).BasicAuth: prefix "Basic " compared case-insensitively, rest must be valid base64 of "user:pass"
BasicParse(atoms) ==
  IF Len(atoms) >= 2 /\ atoms[1].k = "word" /\ atoms[1].v \in {"Basic", "basic"} /\ atoms[2] = SP
    THEN LET rest == SubSeq(atoms, 3, Len(atoms)) IN
         IF Len(rest) = 1 /\ rest[1].k = "b64" /\ rest[1].valid /\ rest[1].colon
           THEN [ok |-> TRUE, user |-> rest[1].user, pass |-> rest[1].pass]
           ELSE [ok |-> FALSE, user |-> "", pass |-> ""]
    ELSE [ok |-> FALSE, user |-> "", pass |-> ""]

\* ---- prefixChecker (global.go:78-95)
PathKind(base, shape) ==
  IF base /\ shape = "root" THEN "redirect"
  ELSE IF shape \in {"api", "api_sub", "api_root", "apix"} THEN "api"      \* strings.HasPrefix(path, "/api")
  ELSE "ui"

\* ---- the chain. Result: [kind, code]: kind = "api" (reached an API handler), "ui", "redirect", "denied"
BasicStage(conf, atoms) ==          \* "pass" | "passAuth" | "deny"
  IF ~conf.basic THEN "pass"
  ELSE LET w == Words(atoms) IN
       IF conf.token /\ Len(w) >= 2 /\ IsWord(w[1], "Bearer") THEN "pass"       \* skipBasicAuth
       ELSE LET bp == BasicParse(atoms) IN
            IF bp.ok /\ bp.user = "U" /\ bp.pass = "P" THEN "passAuth" ELSE "deny"
TokenStage(conf, atoms, authed) ==  \* "pass" | "deny"
  IF ~conf.token \/ authed THEN "pass"
  ELSE LET w == Words(atoms) IN
       IF Len(w) < 2 THEN "deny"
       ELSE IF w[2] = <<>> THEN "deny"
       ELSE IF w[2] = <<Raw("T")>> THEN "pass" ELSE "deny"

Decide(conf, atoms, base, shape) ==
  LET pk == PathKind(base, shape) IN
  IF pk # "api" THEN pk
  ELSE LET b == BasicStage(conf, atoms) IN
       IF b = "deny" THEN "denied"
       ELSE IF TokenStage(conf, atoms, b = "passAuth") = "deny" THEN "denied" ELSE "api"

\* ---- the property (C17), over what the request PRESENTS, independent of the pipeline
Contains(atoms, a) == \E i \in DOMAIN atoms : atoms[i] = a
StdBasic(atoms)  == atoms = <<Word("Basic"), SP, B64(TRUE, "U", "P", TRUE)>>
StdBearer(atoms) == atoms = <<Word("Bearer"), SP, Raw("T")>>
PresentsSecret(conf, atoms) == \/ conf.basic /\ Contains(atoms, B64(TRUE, "U", "P", TRUE))
                               \/ conf.token /\ Contains(atoms, Raw("T"))
MustPass(conf, atoms) == (conf.basic /\ StdBasic(atoms)) \/ (conf.token /\ StdBearer(atoms)) \/ (~conf.basic /\ ~conf.token)
MustDeny(conf, atoms) == (conf.basic \/ conf.token) /\ ~PresentsSecret(conf, atoms)

C17_OK(conf, atoms, base, shape, outcome) ==
  PathKind(base, shape) = "api" =>
     /\ MustPass(conf, atoms) => outcome = "api"
     /\ MustDeny(conf, atoms) => outcome = "denied"

\* ---- exhaustive check of the model over the whole abstract request space
VARIABLES req, out
Init == /\ req \in [conf : Confs, scheme : Schemes, sep : Seps, pay : Pays, base : BOOLEAN, shape : Shapes]
        /\ out = "pending"
Run  == /\ out = "pending"
        /\ out' = Decide(req.conf, HdrAtoms(req.scheme, req.sep, req.pay), req.base, req.shape)
        /\ UNCHANGED req
Spec == Init /\ [][Run]_<<req, out>>
C17_Model == out # "pending" => C17_OK(req.conf, HdrAtoms(req.scheme, req.sep, req.pay), req.base, req.shape, out)
\* vacuity guards: both sides of the property occur in the space
SomeMustPassAuth == \E c \in Confs, s \in Schemes, e \in Seps, p \in Pays : (c.basic \/ c.token) /\ MustPass(c, HdrAtoms(s, e, p))
=============================================================================
