-------------------------- MODULE HistoryConcTrace --------------------------
(* C06: validates what the real jsondb did at every gate (vh cache -conc) against HistoryConc.tla: a latest-status /
   recent-history query, gated after its listing and before every file it reads, while the recorder compacts the
   newest run (gated after creating and after writing the copy) and begins the next one.
   Every line is matched with the specification's step of that name (list, visit <file>, relist, return <answer>,
   ccreate, cwrite, cunlink, open2, write2, update - recorded when it returns, the lock is not observed -, findafter);
   the query's own choice between skipping a vanished file and listing again
   is taken from the trace, so the code before and after the fix both have a matching behaviour, and the property is
   judged on the returned answer:
     C06_QueryNotLinearizable  the answer is not one the store would have given at any moment while the query ran
     C06_ClosingRunMissing     the run that was being closed is not in the answer
     C06_AcknowledgedUpdateLost  a manual status update of the run, issued while Close compacts its file and
                               acknowledged, is not what the lookup returns once the run is closed (open finding F-06h) *)
EXTENDS HistoryConc, Json
CONSTANT TraceFile
Trace == ndJsonDeserialize(TraceFile)
VARIABLES l, bad, lost, qfind, nq      \* nq: how many runs the query of the current scenario asks for
E == Trace[l]
tvars == <<vars, l, bad, lost, nq, qfind>>

Reset == /\ disk' = [f \in Runs \X Kinds |->
                       IF f[1] < R /\ f[2] = "comp" THEN [exists |-> TRUE, st |-> f[1], upd |-> FALSE]
                       ELSE IF f[1] = R /\ f[2] = "orig" THEN [exists |-> TRUE, st |-> R, upd |-> FALSE] ELSE NoFile]
         /\ rpc' = "open" /\ qpc' = "idle" /\ qfiles' = <<>> /\ qacc' = <<>> /\ relists' = 0 /\ valid' = {} /\ answer' = <<>>
         /\ upc' = "idle" /\ ufile' = <<R, "orig">> /\ ugone' = FALSE /\ readUpd' = FALSE /\ lk' = "none"
         /\ lost' = FALSE /\ nq' = E.n /\ qfind' = (E.query = "find")
\* the query's steps, the branch taken from the trace
TList == /\ qpc = "idle" /\ qpc' = "iter"
         /\ qfiles' = Listing(disk, R + 1) /\ qacc' = <<>> /\ relists' = 0 /\ valid' = {AbstractOf(disk, nq, qfind)}
         /\ UNCHANGED <<disk, rpc, answer>> /\ UNCHANGED uvars
TVisitOK(e) == qpc = "iter" /\ qfiles # <<>> /\ Head(qfiles) = <<e.run, e.kind>>
TVisit == LET f == Head(qfiles) IN
          /\ qfiles' = Tail(qfiles) /\ UNCHANGED relists
          /\ qacc' = IF disk[f].exists /\ Takes(disk[f].st, qfind) /\ ~InAcc(disk[f].st) THEN Append(qacc, disk[f].st) ELSE qacc
          /\ UNCHANGED <<disk, rpc, qpc, valid, answer>> /\ UNCHANGED uvars
TRelist == /\ qfiles' = Listing(disk, R + 1) /\ qacc' = <<>> /\ relists' = relists + 1
           /\ UNCHANGED <<disk, rpc, qpc, valid, answer>> /\ UNCHANGED uvars
TReturn == /\ qpc' = "done" /\ answer' = qacc /\ UNCHANGED <<disk, rpc, qfiles, qacc, relists, valid>> /\ UNCHANGED uvars
TRec(d2, pc2) == /\ disk' = d2 /\ rpc' = pc2
                 /\ valid' = IF qpc = "iter" THEN valid \cup {AbstractOf(d2, nq, qfind)} ELSE valid
                 /\ UNCHANGED <<qpc, qfiles, qacc, relists, answer>>
\* the whole manual update in one step (it runs while the recorder is parked at a gate)
TUpdate == /\ upc' = "acked" /\ ufile' = FoundFile /\ UNCHANGED <<ugone, readUpd, lk>>
           /\ disk' = [disk EXCEPT ![FoundFile] = [exists |-> TRUE, st |-> R, upd |-> TRUE]]
           /\ UNCHANGED <<rpc, qpc, qfiles, qacc, relists, valid, answer>>
Enabled(e) ==
  CASE e.a = "list"    -> qpc = "idle"
    [] e.a = "visit"   -> TVisitOK(e)
    [] e.a = "relist"  -> TVisitOK(e) /\ ~disk[Head(qfiles)].exists
    [] e.a = "return"  -> qpc = "iter"
    [] e.a = "ccreate" -> rpc = "open"
    [] e.a = "cwrite"  -> rpc = "c_write"
    [] e.a = "cunlink" -> rpc = "c_unlink"
    [] e.a = "open2"   -> rpc = "closed"
    [] e.a = "write2"  -> rpc = "open2"
    [] e.a = "update"  -> rpc # "open" /\ upc = "idle" /\ e.ok
    [] e.a = "findafter" -> TRUE
    [] OTHER -> FALSE
Act(e) ==
  CASE e.a = "list"    -> TList
    [] e.a = "visit"   -> TVisit
    [] e.a = "relist"  -> TRelist
    [] e.a = "return"  -> TReturn
    [] e.a = "ccreate" -> /\ TRec([disk EXCEPT ![<<R, "comp">>] = [exists |-> TRUE, st |-> 0, upd |-> FALSE]], "c_write")
                          /\ readUpd' = disk[<<R, "orig">>].upd /\ UNCHANGED <<upc, ufile, ugone, lk>>
    [] e.a = "cwrite"  -> TRec([disk EXCEPT ![<<R, "comp">>].st = R, ![<<R, "comp">>].upd = readUpd], "c_unlink") /\ UNCHANGED uvars
    [] e.a = "cunlink" -> TRec([disk EXCEPT ![<<R, "orig">>] = NoFile], "closed") /\ UNCHANGED uvars
    [] e.a = "open2"   -> TRec([disk EXCEPT ![<<R + 1, "orig">>] = [exists |-> TRUE, st |-> 0, upd |-> FALSE]], "open2") /\ UNCHANGED uvars
    [] e.a = "write2"  -> TRec([disk EXCEPT ![<<R + 1, "orig">>].st = R + 1], "wrote2") /\ UNCHANGED uvars
    [] e.a = "update"  -> TUpdate
    [] e.a = "findafter" -> UNCHANGED vars
\* the returned answer against the specification's state (evaluated BEFORE the return step)
Judge(e) == IF e.a = "findafter"
              THEN (IF upc = "acked" /\ e.answer # <<9>> THEN {"C06_AcknowledgedUpdateLost"} ELSE {})
                   \cup (IF e.answer # (IF ~HasStatus(disk, R) THEN <<>> ELSE IF disk[FoundFile].upd THEN <<9>> ELSE <<R>>) THEN {"DRIFT_ConcAnswerDiffers"} ELSE {})
            ELSE IF e.a # "return" THEN {}
            ELSE (IF e.answer \notin valid THEN {"C06_QueryNotLinearizable"} ELSE {})
                 \cup (IF ~\E i \in DOMAIN e.answer : e.answer[i] >= R THEN {"C06_ClosingRunMissing"} ELSE {})
                 \cup (IF e.answer # qacc THEN {"DRIFT_ConcAnswerDiffers"} ELSE {})
Say(c) == PrintT("VERDICT " \o ToJson([line |-> l, scen |-> E.scen, viol |-> c, rec |-> E]))
TInit == Init /\ l = 1 /\ bad = 0 /\ lost = FALSE /\ nq = 1 /\ qfind = FALSE
TNext ==
  /\ l <= Len(Trace) /\ l' = l + 1
  /\ LET e == E IN
     IF e.ev = "Reset" THEN Reset /\ UNCHANGED bad
     ELSE IF e.ev = "Infra" THEN UNCHANGED <<vars, lost, nq, qfind>> /\ bad' = bad + 1 /\ Say({"INFRA"})
     ELSE IF lost THEN UNCHANGED <<vars, lost, bad, nq, qfind>>
     ELSE IF ~Enabled(e)
       THEN UNCHANGED <<vars, nq, qfind>> /\ lost' = TRUE /\ bad' = bad + 1 /\ Say({"DRIFT_ConcStepNotInSpec"})
       ELSE /\ Act(e) /\ UNCHANGED <<lost, nq, qfind>>
            /\ LET c == Judge(e) IN IF c = {} THEN UNCHANGED bad ELSE bad' = bad + 1 /\ Say(c)
TSpec == TInit /\ [][TNext]_tvars
Emit == (l = Len(Trace) + 1) => PrintT("CONSUMED " \o ToString(Len(Trace)) \o " bad " \o ToString(bad))
=============================================================================
