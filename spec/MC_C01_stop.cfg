CONSTANTS N = 2
CONSTANT Configs <- StopTimeoutQuick
SPECIFICATION MCSpec
VIEW MCView
CONSTRAINT ExecBound
INVARIANTS TypeOK C01_NoEarlyStart

CHECK_DEADLOCK FALSE
