CONSTANT MaxLen = 3
INIT Init
NEXT Next
INVARIANTS C11_Start C11_Retry C11_RetryOfRetry
CHECK_DEADLOCK FALSE
