---------------------------- MODULE AgentLife ----------------------------
(* C08 and C16.  Start-up / shutdown protocol of agent.Run over the unix socket and the history store,
   two starters of the same DAG file, the process may be killed anywhere.
   FixStatus = TRUE models Agent.Status after daaac56 (a run in progress is never recorded as finished);
   the latest-status query follows jsondb after 417efc6 / 62a24ae (an empty newest file is skipped).
   ExclusiveBind = TRUE models the code after the F-16a fix: the socket is bound BEFORE anything is recorded, and
   [connect-probe, unlink stale file, bind] as well as the closing unlink happen under a file lock (flock on
   <socket>.lock, released by the kernel when the process dies); a bind that finds a live listener fails and the start
   is refused.  With FALSE the model is the old order (probe, open history, write, unlink, bind) and
   `windowRace` records that a starter probed while another one was between its own probe and its bind (F-16a):
   mutual exclusion then holds only for behaviours without that race.
   Action order taken from the recorded system calls of a real `blackdagger start` (new order):
   connect(sock) [probe] · flock · connect(sock) · unlinkat(sock) · bind(sock) · flock(un) · mkdirat/openat(.dat) ·
   write(init) · … · write(status)* · write(final) · compaction · flock · unlinkat(sock) [listener close] · exit *)
EXTENDS Integers, Sequences, FiniteSets, TLC

CONSTANTS Agents, NSteps, AllowCrash, FixStatus, ExclusiveBind,
          BindFailUnlinks   \* TRUE: the Shutdown of a start whose bind was refused removes the socket file (the seeded defect
                            \* C16-e: the file belongs to the active run; a third start then finds nobody listening)

VARIABLES pc,        \* per agent
          listener,  \* agent whose listening socket is bound to the current socket inode, or "none"
          sockFile,  \* owner of the socket file at the well-known path, "none" if no file
          bound,     \* per agent: holds an open listening socket (possibly on an unlinked inode)
          hist,      \* per agent: sequence of persisted run-status lines of its run (<<>> = empty file), or "nofile"
          order,     \* sequence of agents in order of history file creation (start-time order)
          stepsDone, \* per agent
          execd,     \* per agent: has executed at least one step
          final,     \* per agent: final status written
          lock,      \* holder of the address lock (flock), "none" if free
          windowRace,\* history: a starter probed while another was between probe and bind
          overlap    \* history: a step was executed while another starter that had executed steps was still alive

vars == <<pc, listener, sockFile, bound, hist, order, stepsDone, execd, final, lock, windowRace, overlap>>

Init == /\ pc = [a \in Agents |-> "probe"]
        /\ listener = "none" /\ sockFile = "none"
        /\ bound = [a \in Agents |-> FALSE]
        /\ hist = [a \in Agents |-> "nofile"]
        /\ order = <<>>
        /\ stepsDone = [a \in Agents |-> 0] /\ execd = [a \in Agents |-> FALSE]
        /\ final = [a \in Agents |-> FALSE] /\ lock = "none" /\ windowRace = FALSE /\ overlap = FALSE

Reachable == sockFile # "none" /\ listener = sockFile /\ bound[sockFile]

Probe(a) == /\ pc[a] = "probe"                       \* agent.go:113-116 checkIsAlreadyRunning
            /\ pc' = [pc EXCEPT ![a] = IF Reachable THEN "refused" ELSE IF ExclusiveBind THEN "lock" ELSE "openhist"]
            /\ windowRace' = (windowRace \/ (~ExclusiveBind /\ \E b \in Agents \ {a} : pc[b] \in {"openhist", "writeinit", "unlink", "bind"}))
            /\ UNCHANGED <<listener, sockFile, bound, hist, order, stepsDone, execd, final, overlap, lock>>
OpenHist(a) == /\ pc[a] = "openhist"                 \* agent.go:121 setupDatabase -> jsondb.Open (creates empty file)
               /\ hist' = [hist EXCEPT ![a] = <<>>] /\ order' = Append(order, a)
               /\ pc' = [pc EXCEPT ![a] = "writeinit"]
               /\ UNCHANGED <<listener, sockFile, bound, stepsDone, execd, final, lock, windowRace, overlap>>
WriteInit(a) == /\ pc[a] = "writeinit"               \* agent.go:130
                /\ hist' = [hist EXCEPT ![a] = Append(@, "none")]
                /\ pc' = [pc EXCEPT ![a] = IF ExclusiveBind THEN "run" ELSE "unlink"]
                /\ UNCHANGED <<listener, sockFile, bound, order, stepsDone, execd, final, lock, windowRace, overlap>>
Unlink(a) == /\ pc[a] = "unlink"                     \* sock/server.go:49 os.Remove(addr)
             /\ sockFile' = "none"
             /\ pc' = [pc EXCEPT ![a] = "bind"]
             /\ UNCHANGED <<listener, bound, hist, order, stepsDone, execd, final, lock, windowRace, overlap>>
Bind(a) == /\ pc[a] = "bind"                         \* sock/server.go net.Listen
           /\ IF sockFile = "none"
                THEN /\ sockFile' = a /\ listener' = a /\ bound' = [bound EXCEPT ![a] = TRUE]
                     /\ pc' = [pc EXCEPT ![a] = IF ExclusiveBind THEN "openhist" ELSE "run"]
                ELSE /\ pc' = [pc EXCEPT ![a] = "bindfail"]   \* EADDRINUSE -> errFailedSetupUnixSocket
                     /\ UNCHANGED <<sockFile, listener, bound>>
           /\ lock' = IF lock = a THEN "none" ELSE lock      \* end of the critical section
           /\ UNCHANGED <<hist, order, stepsDone, execd, final, windowRace, overlap>>
\* ExclusiveBind: the critical section of listenExclusive (flock, connect-probe, unlink, bind)
Lock(a) == /\ pc[a] = "lock" /\ lock = "none"
           /\ lock' = a /\ pc' = [pc EXCEPT ![a] = "dial"]
           /\ UNCHANGED <<listener, sockFile, bound, hist, order, stepsDone, execd, final, windowRace, overlap>>
Dial(a) == /\ pc[a] = "dial"
           /\ IF Reachable THEN pc' = [pc EXCEPT ![a] = "bindfail"] /\ lock' = "none"     \* a live process serves the address
                           ELSE pc' = [pc EXCEPT ![a] = "unlink"] /\ UNCHANGED lock
           /\ UNCHANGED <<listener, sockFile, bound, hist, order, stepsDone, execd, final, windowRace, overlap>>
\* status value persisted after a step finished (scheduler.Status + Agent.Status)
Mid(a, k) == IF FixStatus THEN "running" ELSE "success"      \* Schedule has not returned yet when this line is written
Step(a) == /\ pc[a] = "run" /\ stepsDone[a] < NSteps  \* one step executes and its status line is written
           /\ stepsDone' = [stepsDone EXCEPT ![a] = @ + 1] /\ execd' = [execd EXCEPT ![a] = TRUE]
           /\ hist' = [hist EXCEPT ![a] = Append(@, Mid(a, stepsDone[a] + 1))]
           /\ overlap' = (overlap \/ \E b \in Agents \ {a} : execd[b] /\ pc[b] \in {"run", "shutdown"})
           /\ UNCHANGED <<pc, listener, sockFile, bound, order, final, lock, windowRace>>
RunningLine(a) == /\ pc[a] = "run" /\ stepsDone[a] < NSteps /\ Len(hist[a]) < NSteps + 3  \* waitForRunning write
                  /\ hist' = [hist EXCEPT ![a] = Append(@, "running")]
                  /\ UNCHANGED <<pc, listener, sockFile, bound, order, stepsDone, execd, final, lock, windowRace, overlap>>
Final(a) == /\ pc[a] = "run" /\ stepsDone[a] = NSteps  \* agent.go:193-197
            /\ hist' = [hist EXCEPT ![a] = Append(@, "success")] /\ final' = [final EXCEPT ![a] = TRUE]
            /\ pc' = [pc EXCEPT ![a] = "shutdown"]
            /\ UNCHANGED <<listener, sockFile, bound, order, stepsDone, execd, lock, windowRace, overlap>>
Shutdown(a) == /\ pc[a] \in {"shutdown", "bindfail"}
               /\ (ExclusiveBind /\ pc[a] = "shutdown") => lock = "none"     \* the closing unlink takes the address lock   \* listener.Close unlinks *the path*, then os.Remove(addr)
               /\ IF bound[a] \/ pc[a] = "shutdown"
                    THEN /\ sockFile' = "none"
                         /\ listener' = IF listener = a THEN "none" ELSE listener
                    ELSE IF BindFailUnlinks
                    THEN sockFile' = "none" /\ UNCHANGED listener
                    ELSE UNCHANGED <<sockFile, listener>>
               /\ bound' = [bound EXCEPT ![a] = FALSE]
               /\ pc' = [pc EXCEPT ![a] = "exit"]
               /\ UNCHANGED <<hist, order, stepsDone, execd, final, lock, windowRace, overlap>>
Crash(a) == /\ AllowCrash /\ pc[a] \notin {"exit", "refused", "dead"}
            /\ pc' = [pc EXCEPT ![a] = "dead"]
            /\ bound' = [bound EXCEPT ![a] = FALSE]
            /\ listener' = IF listener = a THEN "none" ELSE listener
            /\ lock' = IF lock = a THEN "none" ELSE lock            \* the kernel releases the flock of a dead process
            /\ UNCHANGED <<sockFile, hist, order, stepsDone, execd, final, windowRace, overlap>>

Next == \E a \in Agents : Probe(a) \/ Lock(a) \/ Dial(a) \/ OpenHist(a) \/ WriteInit(a) \/ Unlink(a) \/ Bind(a) \/ Step(a)
                          \/ RunningLine(a) \/ Final(a) \/ Shutdown(a) \/ Crash(a)
Spec == Init /\ [][Next]_vars

-----------------------------------------------------------------------------
Active(a) == pc[a] \in {"run", "shutdown"}
\* C16: two starts never both execute steps; a refused/failed start records nothing
C16_Mutex == \A a, b \in Agents : a # b => ~(execd[a] /\ execd[b] /\ Len(SelectSeq(order, LAMBDA x : x \in {a, b})) = 2
                                              /\ \E i, j \in DOMAIN order : order[i] = a /\ order[j] = b)
C16_Simple == Cardinality({a \in Agents : execd[a]}) <= 1
C16_MutexUnlessWindowRace == ~windowRace => ~overlap
C16_NoOverlap == ~overlap                         \* with ExclusiveBind: two starts never both execute steps, unconditionally
C16_RefusedRecordsNothing == \A a \in Agents : (pc[a] = "refused" \/ (ExclusiveBind /\ pc[a] = "bindfail")) => hist[a] = "nofile" /\ ~execd[a]
C16_Undisturbed == \A a \in Agents : pc[a] = "run" /\ bound[a] => Reachable /\ listener = a
\* C08: what client.GetLatestStatus answers
Newest == order[Len(order)]
Latest == IF Reachable THEN "running"
          ELSE IF order = <<>> THEN "none"
          ELSE LET withStatus == SelectSeq(order, LAMBDA x : hist[x] # <<>>) IN       \* newest run that holds a status
               IF withStatus = <<>> THEN "none"
               ELSE LET n == withStatus[Len(withStatus)]
                        s == hist[n][Len(hist[n])] IN IF s = "running" THEN "failed" ELSE s
Quiet == \A a \in Agents : pc[a] \in {"exit", "refused", "dead"}
C08_CutShort == Quiet /\ order # <<>> /\ ~final[Newest] => Latest \notin {"running", "success"}
C08_NoError == Quiet => Latest # "ERROR"
=============================================================================
