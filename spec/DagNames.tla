------------------------------ MODULE DagNames ------------------------------
(* C18 "creating or renaming a DAG never overwrites a DAG that already exists under the target name", when two requests
   are handled at the same moment (local/dag_store.go Create, Rename; the handlers of one server run concurrently).
   Both operations are a check followed by the act:
       Create(n)      : exists(n)? refuse : write the template to n
       Rename(m -> n) : exists(n)? refuse : rename(m, n)
   Excl = FALSE is the code before the fix: the act does not look again - os.WriteFile truncates what another request
   has created (and perhaps already edited) in between, rename(2) replaces it.  Excl = TRUE: the act itself refuses an
   existing target (O_EXCL; link + unlink instead of rename).
   A definition's content is abstract: "tpl:<actor>" written by a create, "edited" after a save, the source's content
   after a rename.                                                                                               *)
EXTENDS Integers, Sequences, FiniteSets, TLC

CONSTANTS Excl
Names == {"n", "m"}
Creators == {"c1", "c2"}             \* both create "n"
Renamer == "r"                       \* renames "m" (exists from the start) to "n"
Actors == Creators \cup {Renamer}

VARIABLES names,     \* [Names -> content | "absent"]
          pc,        \* [Actors -> "start" | "checked" | "ok" | "refused"]
          saves      \* saves of "n" so far (bound)
vars == <<names, pc, saves>>

Init == names = [x \in Names |-> IF x = "m" THEN "m-text" ELSE "absent"] /\ pc = [a \in Actors |-> "start"] /\ saves = 0

Check(a) == /\ pc[a] = "start"
            /\ pc' = [pc EXCEPT ![a] = IF names["n"] # "absent" THEN "refused" ELSE "checked"]
            /\ UNCHANGED <<names, saves>>
CreateAct(a) == /\ a \in Creators /\ pc[a] = "checked"
                /\ IF Excl /\ names["n"] # "absent"
                     THEN pc' = [pc EXCEPT ![a] = "refused"] /\ UNCHANGED names
                     ELSE pc' = [pc EXCEPT ![a] = "ok"] /\ names' = [names EXCEPT !["n"] = "tpl:" \o a]
                /\ UNCHANGED saves
RenameAct == /\ pc[Renamer] = "checked"
             /\ IF names["m"] = "absent" \/ (Excl /\ names["n"] # "absent")
                  THEN pc' = [pc EXCEPT ![Renamer] = "refused"] /\ UNCHANGED names
                  ELSE pc' = [pc EXCEPT ![Renamer] = "ok"] /\ names' = [names EXCEPT !["n"] = names["m"], !["m"] = "absent"]
             /\ UNCHANGED saves
\* a save of "n" by whoever created it (atomic here: DagStoreConc.tla has the save's own steps)
Save == /\ names["n"] # "absent" /\ saves < 1 /\ saves' = saves + 1
        /\ names' = [names EXCEPT !["n"] = "edited"] /\ UNCHANGED pc

Next == (\E a \in Actors : Check(a)) \/ (\E a \in Creators : CreateAct(a)) \/ RenameAct \/ Save
Spec == Init /\ [][Next]_vars

\* a definition that exists changes only by a save of it or by being renamed away: never into a template or into
\* another DAG's text
C18_NeverOverwritten == [][\A x \in Names : names[x] # "absent" /\ names'[x] # names[x] => names'[x] \in {"edited", "absent"}]_vars
\* at most one of the requests for the same target is accepted
C18_OneWinner == Cardinality({a \in Actors : pc[a] = "ok"}) <= 1
=============================================================================
