CONSTANTS NoRun = NoRun
  TodayFrom = 4
  TraceFile = "trace.ndjson"
SPECIFICATION TSpec
INVARIANT Emit
CHECK_DEADLOCK FALSE
