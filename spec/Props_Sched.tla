---------------------------- MODULE Props_Sched ----------------------------
(* Property operators of the step scheduler (C01 C02 C03 C04 C05 C15), written once over
   explicit arguments so that the implementation-shaped model (StepSched) and the trace
   monitors (SchedObserve) evaluate literally the same formulas.
   Status values are the strings the code prints (NodeStatus.String / Status.String).   *)
EXTENDS Integers, Sequences, FiniteSets

NS   == "not started"
RUN  == "running"
FAIL == "failed"
CANC == "canceled"
FIN  == "finished"
SKIP == "skipped"

Terminal(st) == st \in {FAIL, CANC, FIN, SKIP}

(* a dependency in state st lets its dependents proceed *)
DepAllows(st, contF, contS) == \/ st = FIN
                               \/ st = FAIL /\ contF
                               \/ st = SKIP /\ contS

(* a dependency in state st blocks its dependents for good *)
DepBlocks(st, contF, contS) == \/ st = CANC
                               \/ st = FAIL /\ ~contF
                               \/ st = SKIP /\ ~contS

(* C01: the command of step s may start now *)
C01_StartOK(deps, contF, contS, status, alive, s) ==
  \A d \in deps[s] : ~alive[d] /\ DepAllows(status[d], contF[d], contS[d])

(* C15: number of executing steps (alive or waiting out a retry interval) *)
NExecuting(Steps, alive, retryWait) == Cardinality({s \in Steps : alive[s] \/ retryWait[s]})
C15_Within(k, n) == k > 0 => n <= k

(* C03: bound on executions of one step in one run (rep = extra repeat rounds allowed) *)
C03_Bound(execs, rlimit, rep) == execs <= (1 + rlimit) * (1 + rep)

(* expected number of executions of a runnable non-repeating step whose script fails the
   first k attempts (k may exceed the limit) *)
Min(a, b) == IF a < b THEN a ELSE b
C03_Expected(k, rlimit) == Min(k + 1, rlimit + 1)

(* C02: local consistency of the final state of s with the final states of its dependencies.
   ran = number of executions, lastOK = outcome of the last attempt, pmet = own precondition met *)
C02_Local(deps, contF, contS, status, s, ran, lastOK, pmet) ==
  /\ Terminal(status[s])
  /\ IF \A d \in deps[s] : DepAllows(status[d], contF[d], contS[d])
       THEN /\ (ran >= 1) = pmet
            /\ status[s] = (IF ~pmet THEN SKIP ELSE IF lastOK THEN FIN ELSE FAIL)
       ELSE /\ \E d \in deps[s] : DepBlocks(status[d], contF[d], contS[d])
            /\ ran = 0
            /\ status[s] \in {CANC, SKIP}

(* C04: reported outcome of a run that was not stopped and did not time out *)
AllOK(Steps, status) == \A s \in Steps : status[s] \in {FIN, SKIP}
AnyFailed(Steps, status) == \E s \in Steps : status[s] = FAIL
C04_OutcomeNoStop(Steps, status, run) ==
  /\ (run = FIN) = AllOK(Steps, status)
  /\ AnyFailed(Steps, status) => run = FAIL
  /\ run \in {FIN, FAIL}

(* C04: reported outcome when a stop was accepted.  completedBeforeStop: every step was
   already terminal when the stop was accepted (then the stop did not cut the run short). *)
C04_OutcomeStop(Steps, status, run, completedBeforeStop) ==
  /\ (run = FIN) => AllOK(Steps, status)
  /\ ~completedBeforeStop /\ ~AllOK(Steps, status) => run = CANC
  \* a stop that arrives after the last step finished may or may not count as "stopped before
  \* completing" (the handlers had not run yet): either label is accepted
  /\ completedBeforeStop => \/ run = (IF AllOK(Steps, status) THEN FIN ELSE FAIL)
                            \/ run = CANC /\ ~AllOK(Steps, status)

(* C04: handler log (sequence of handler types that were executed) for outcome run *)
HandlerFor(run) == IF run = FIN THEN "success" ELSE IF run = FAIL THEN "failure"
                   ELSE IF run = CANC THEN "cancel" ELSE "none"
ExpectedHandlers(configured, run) ==
  (IF HandlerFor(run) \in configured THEN <<HandlerFor(run)>> ELSE <<>>)
    \o (IF "exit" \in configured THEN <<"exit">> ELSE <<>>)
C04_Handlers(configured, run, hlog) == hlog = ExpectedHandlers(configured, run)
=============================================================================
