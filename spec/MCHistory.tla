---------------------------- MODULE MCHistory ----------------------------
(* Exhaustive model of History over small constants, with the C06 guarantees as action properties,
   and behaviour export (operation sequences for replay on the real jsondb).                     *)
EXTENDS History, Json

CONSTANTS DAGs, RQ, MaxTs, MaxSt, MaxOps
VARIABLES ops,         \* history: operations so far (output only)
          done
mvars == <<runs, open, ops, done>>
View == <<runs, open, Len(ops), done>>

StatusId(r, k) == r \o "." \o ToString(k)
NextSt(r) == StatusId(r, Len(runs[r].st) + 1)
UsedTs == {runs[r].ts : r \in Reqs}
Op(o) == ops' = Append(ops, o)

MInit == Init /\ ops = <<>> /\ done = FALSE
\* deterministic last step: the simulator evaluates invariants on every successor it generates
Finish == Len(ops) = MaxOps /\ ~done /\ done' = TRUE /\ UNCHANGED <<runs, open, ops>>
MStep ==
  /\ Len(ops) < MaxOps /\ UNCHANGED done
  /\ \/ \E d \in DAGs, r \in RQ \ Reqs, ts \in (1..MaxTs) \ UsedTs : Open(d, r, ts) /\ Op([op |-> "Open", d |-> d, r |-> r, ts |-> ts])
     \/ /\ open # NoRun /\ Len(runs[open].st) < MaxSt /\ Write(NextSt(open)) /\ Op([op |-> "Write", st |-> NextSt(open)])
     \/ /\ open # NoRun /\ Close /\ Op([op |-> "Close"])
     \/ \E d \in DAGs, r \in RQ : /\ r # open /\ (r \in Reqs => Len(runs[r].st) < MaxSt)
                                  /\ r \in Reqs \/ (RQ \ Reqs # {} /\ d = "d1" /\ r = CHOOSE x \in RQ \ Reqs : TRUE)   \* one unknown-run update is enough
                                  /\ LET s == IF r \in Reqs THEN NextSt(r) ELSE StatusId(r, 9) IN
                                     Update(d, r, s) /\ Op([op |-> "Update", d |-> d, r |-> r, st |-> s])
     \/ \E d, d2 \in DAGs : d # d2 /\ open \notin RunsOf(d) /\ Rename(d, d2) /\ Op([op |-> "Rename", d |-> d, to |-> d2])
     \/ \E d \in DAGs, days \in {0, 7, 150000} : open \notin RunsOf(d) /\ RemoveOld(d, days) /\ Op([op |-> "RemoveOld", d |-> d, days |-> days])
     \/ \E r \in Reqs : r # open /\ runs[r].age = 0 /\ SetAge(r, 30) /\ Op([op |-> "SetAge", r |-> r, age |-> 30])
MNext == Finish \/ MStep
MSpec == MInit /\ [][MNext]_mvars

\* ---- C06 as properties of the design ----------------------------------------------------
Answers(d) == <<[r \in RQ |-> Find(d, r)], LatestAnswers(d, TRUE), LatestAnswers(d, FALSE), Recent(d, 2)>>
\* an operation aimed at one DAG leaves every answer for every other DAG unchanged (rename: also for the target it moves to, of course not)
Target(o) == IF o.op \in {"Open", "Update", "RemoveOld"} THEN {o.d}
             ELSE IF o.op = "Rename" THEN {o.d, o.to}
             ELSE IF o.op \in {"Write", "Close"} THEN {runs[open].dag}
             ELSE IF o.op = "SetAge" THEN {} ELSE DAGs
C06_Frame == [][\A d \in DAGs : d \notin Target(ops'[Len(ops')]) => Answers(d)' = Answers(d)]_mvars
\* rename carries every run: whatever could be found under d is found under d2 afterwards, nothing stays behind
FindR(rs, d, r) == IF r \in DOMAIN rs /\ rs[r].dag = d /\ rs[r].st # <<>> THEN rs[r].st[Len(rs[r].st)] ELSE "notfound"
C06_RenameCarries == [][LET o == ops'[Len(ops')] IN o.op = "Rename" =>
                          /\ \A r \in RQ : Find(o.d, r) # "notfound" => FindR(runs', o.to, r) = Find(o.d, r)
                          /\ {r \in DOMAIN runs' : runs'[r].dag = o.d} = {}]_mvars
\* retention removes only runs older than the period
C06_RetentionOnlyOld == [][LET o == ops'[Len(ops')] IN o.op = "RemoveOld" =>
                             \A r \in Reqs : (o.days > 0 /\ runs[r].age <= o.days) \/ runs[r].dag # o.d => (r \in DOMAIN runs' /\ runs'[r] = runs[r])]_mvars
\* a lookup returns the last status recorded for the run
C06_FindIsLast == \A r \in Reqs : HasStatus(r) => Find(runs[r].dag, r) = Last(r)
TypeOK == /\ open \in Reqs \cup {NoRun}
          /\ \A r \in Reqs : runs[r].dag \in DAGs /\ runs[r].ts \in 1..MaxTs

EmitBehaviour == done => PrintT("BEHAVIOUR " \o ToJson([ops |-> ops]))
=============================================================================
