CONSTANTS N = 3
CONSTANT Configs <- LimitQuick
SPECIFICATION MCSpec
VIEW MCView
CONSTRAINT ExecBound
INVARIANTS TypeOK C15_Limit

CHECK_DEADLOCK FALSE
