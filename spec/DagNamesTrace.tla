--------------------------- MODULE DagNamesTrace ---------------------------
(* C18: validates what the real DAG store did when two creates and a rename aimed at the same name are handled at the
   same moment (vh savepair -names) against DagNames.tla, at the grain of the gates of the verif build (after the
   existence check | the act).  Every line is matched with the specification's step; the outcome of every step and the
   content of both names after it are compared with the specification's (a difference is DRIFT), and the property is
   judged on the recorded contents:
     C18_ExistingDefinitionOverwritten   a name that held a definition holds, one step later, something that is neither
                                         that definition, nor its saved edit, nor nothing (renamed away)            *)
EXTENDS DagNames, Json
CONSTANT TraceFile
Trace == ndJsonDeserialize(TraceFile)
VARIABLES l, bad, lost, prev       \* prev: the contents recorded with the previous line
E == Trace[l]
tvars == <<vars, l, bad, lost, prev>>
Start == [n |-> "absent", m |-> "m-text"]
Reset == /\ names' = [x \in Names |-> IF x = "m" THEN "m-text" ELSE "absent"] /\ pc' = [a \in Actors |-> "start"] /\ saves' = 0
         /\ lost' = FALSE /\ prev' = Start
Changed(old, new) == old # "absent" /\ new # old /\ new \notin {"edited", "absent"}
Observed(e) == IF e.ev = "Infra" THEN {"INFRA"}
               ELSE IF e.ev = "Step" /\ (Changed(prev.n, e.n) \/ Changed(prev.m, e.m)) THEN {"C18_ExistingDefinitionOverwritten"}
               ELSE {}
Enabled(e) == CASE e.a = "check" -> pc[e.r] = "start"
                [] e.a = "act"   -> pc[e.r] = "checked"
                [] e.a = "save"  -> names["n"] # "absent"
                [] OTHER -> FALSE
Act(e) == CASE e.a = "check" -> Check(e.r)
            [] e.a = "act"   -> IF e.r = Renamer THEN RenameAct ELSE CreateAct(e.r)
            [] e.a = "save"  -> /\ names' = [names EXCEPT !["n"] = "edited"] /\ saves' = saves + 1 /\ UNCHANGED pc
Say(c) == PrintT("VERDICT " \o ToJson([line |-> l, scen |-> E.scen, viol |-> c, rec |-> E, before |-> prev]))
TInit == Init /\ l = 1 /\ bad = 0 /\ lost = FALSE /\ prev = Start
TNext ==
  /\ l <= Len(Trace) /\ l' = l + 1
  /\ LET e == E
         obs == Observed(e) IN
     IF e.ev = "Reset" THEN Reset /\ UNCHANGED bad
     ELSE /\ prev' = IF e.ev = "Step" THEN [n |-> e.n, m |-> e.m] ELSE prev
          /\ IF e.ev # "Step" \/ lost \/ ~Enabled(e)
               THEN /\ UNCHANGED vars /\ lost' = (lost \/ e.ev = "Step")
                    /\ LET c == obs \cup (IF e.ev = "Step" /\ ~lost THEN {"DRIFT_NamesStepNotInSpec"} ELSE {}) IN
                       IF c = {} THEN UNCHANGED bad ELSE bad' = bad + 1 /\ Say(c)
               ELSE /\ Act(e) /\ UNCHANGED lost
                    /\ LET differs == \/ names'["n"] # e.n \/ names'["m"] # e.m
                                      \/ (e.a \in {"check", "act"} /\ e.res # pc'[e.r])
                           c == obs \cup (IF differs THEN {"DRIFT_NamesDifferFromSpec"} ELSE {}) IN
                       IF c = {} THEN UNCHANGED bad ELSE bad' = bad + 1 /\ Say(c)
TSpec == TInit /\ [][TNext]_tvars
Emit == (l = Len(Trace) + 1) => PrintT("CONSUMED " \o ToString(Len(Trace)) \o " bad " \o ToString(bad))
=============================================================================
