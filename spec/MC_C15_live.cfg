CONSTANTS N = 3
CONSTANT Configs <- LiveLimit
SPECIFICATION MCFairSpec
VIEW MCView
CONSTRAINT ExecBound
INVARIANTS TypeOK 
PROPERTIES Ends
CHECK_DEADLOCK FALSE
