CONSTANTS R = 2
  N = 1
  Find = TRUE
  Lock = TRUE
  WithUpdate = FALSE
  Relist = FALSE
  MaxRelist = 3
SPECIFICATION Spec
INVARIANTS C06_QueryLinearizable C06_ClosingRunIsShown
CHECK_DEADLOCK FALSE
