CONSTANTS N = 4
CONSTANT Configs = {}
CONSTANT TraceFile = "trace.ndjson"
SPECIFICATION TSpec
INVARIANT Emit
CHECK_DEADLOCK FALSE
