---------------------------- MODULE Params ----------------------------
(* C11, the parameter pipeline as token transformations over character CLASSES:
     given structure --Render--> parameter string --Tokenize (parser.go parseParamValue)--> pairs
       --stringify + Record (model.Params, after 2f01647: quoting)--> recorded string --Tokenize--> pairs (retry / restart)
   A character is one of  w (word character)  s (blank)  q (double quote)  e (equals sign)  b (backslash).
   Tokenize transcribes the regular expression
       (?:([^\s="]+)=)?("(?:\\"|[^"])*"|[^"\s]+)         (leftmost match, greedy, optional group tried first;
                                                           since the F-11d fix a name cannot contain a quote)
   and the unquoting that follows (Trim of quotes, \" -> ").  The harness checks this transcription against
   the real parser on every string over the alphabet up to length 7 (ParamsObserve, kind "tok").
   TLC enumerates every structure of up to 2 parameters with values up to 3 characters and checks the round
   trips.                                                                                               *)
EXTENDS Integers, Sequences, FiniteSets, TLC

Chars == {"w", "s", "q", "e", "b"}
NoPair == [name |-> <<"!">>, value |-> <<>>]

\* ---- Render: the documented syntax ---------------------------------------------------------------
Has(v, c) == \E i \in DOMAIN v : v[i] = c
RECURSIVE Escape(_)
Escape(v) == IF v = <<>> THEN <<>> ELSE (IF Head(v) = "q" THEN <<"b", "q">> ELSE <<Head(v)>>) \o Escape(Tail(v))
Quote(v) == <<"q">> \o Escape(v) \o <<"q">>
NeedsQuote(named, v) == v = <<>> \/ Has(v, "s") \/ Has(v, "q") \/ (~named /\ Has(v, "e"))
RenderOne(p) == (IF p.name = <<>> THEN <<>> ELSE p.name \o <<"e">>)
                \o (IF NeedsQuote(p.name # <<>>, p.value) THEN Quote(p.value) ELSE p.value)
RECURSIVE Render(_)
Render(ps) == IF ps = <<>> THEN <<>>
              ELSE RenderOne(Head(ps)) \o (IF Tail(ps) = <<>> THEN <<>> ELSE <<"s">> \o Render(Tail(ps)))

\* ---- Tokenize: the regular expression -------------------------------------------------------------
\* longest run of characters from position i that satisfy P; returns the end position (exclusive)
NameChar(c)  == c \notin {"s", "e", "q"}
BareChar(c)  == c \notin {"q", "s"}
RECURSIVE NameEnd(_, _), BareEnd(_, _)
NameEnd(s, i) == IF i <= Len(s) /\ NameChar(s[i]) THEN NameEnd(s, i + 1) ELSE i
BareEnd(s, i) == IF i <= Len(s) /\ BareChar(s[i]) THEN BareEnd(s, i + 1) ELSE i
\* quoted value starting at i (s[i] = q): position after the closing quote, or 0 if there is none.
\* inside: \" is consumed as a pair, any other non-quote character singly (greedy, with backtracking: the
\* closing quote is the LAST position at which the rest can still close - for this alphabet greedy-first suffices
\* except that a trailing backslash before the closing quote is tried as an escape first)
RECURSIVE QuotedEnd(_, _)
QuotedEnd(s, i) ==   \* i: position inside the quotes
  IF i > Len(s) THEN 0
  ELSE IF s[i] = "b" /\ i + 1 <= Len(s) /\ s[i + 1] = "q"
         THEN LET viaEscape == QuotedEnd(s, i + 2) IN
              IF viaEscape # 0 THEN viaEscape ELSE QuotedEnd(s, i + 1)    \* backtrack: the backslash alone, then the quote closes
  ELSE IF s[i] = "q" THEN i + 1
  ELSE QuotedEnd(s, i + 1)
ValueEnd(s, i) == IF i > Len(s) THEN 0
                  ELSE IF s[i] = "q" THEN QuotedEnd(s, i + 1)
                  ELSE LET e == BareEnd(s, i) IN IF e = i THEN 0 ELSE e
\* one match attempt at position i: <<name, rawvalue, end>> or end = 0
MatchAt(s, i) ==
  LET ne == NameEnd(s, i)
      withName == ne > i /\ ne <= Len(s) /\ s[ne] = "e" /\ ValueEnd(s, ne + 1) # 0
  IN IF withName THEN <<SubSeq(s, i, ne - 1), SubSeq(s, ne + 1, ValueEnd(s, ne + 1) - 1), ValueEnd(s, ne + 1)>>
     ELSE LET ve == ValueEnd(s, i) IN IF ve # 0 THEN <<<<>>, SubSeq(s, i, ve - 1), ve>> ELSE <<<<>>, <<>>, 0>>
\* the enclosing pair of quotes is stripped (after the parser fix: exactly one pair), then \" -> "
RECURSIVE Unescape(_)
TrimL(v) == Tail(v)
TrimR(v) == SubSeq(v, 1, Len(v) - 1)
Unescape(v) == IF v = <<>> THEN <<>>
               ELSE IF Len(v) >= 2 /\ v[1] = "b" /\ v[2] = "q" THEN <<"q">> \o Unescape(SubSeq(v, 3, Len(v)))
               ELSE <<Head(v)>> \o Unescape(Tail(v))
Unquote(raw) == IF raw # <<>> /\ Head(raw) = "q" THEN Unescape(TrimR(TrimL(raw))) ELSE raw
RECURSIVE TokFrom(_, _)
TokFrom(s, i) == IF i > Len(s) THEN <<>>
                 ELSE LET m == MatchAt(s, i) IN
                      IF m[3] = 0 THEN TokFrom(s, i + 1)
                      ELSE <<[name |-> m[1], value |-> Unquote(m[2])]>> \o TokFrom(s, m[3])
Tokenize(s) == TokFrom(s, 1)

\* ---- Record: stringifyParam + model.Params (quoteParam) ------------------------------------------------
Stringify(p) == IF p.name = <<>> THEN p.value ELSE p.name \o <<"e">> \o p.value
FirstEq(v) == IF Has(v, "e") THEN CHOOSE i \in DOMAIN v : v[i] = "e" /\ \A j \in 1..(i - 1) : v[j] # "e" ELSE 0
QuoteParam(v) ==
  LET k == FirstEq(v)
      split == k > 1 /\ ~\E j \in 1..(k - 1) : v[j] \in {"s", "q"}
      nm == IF split THEN SubSeq(v, 1, k) ELSE <<>>
      val == IF split THEN SubSeq(v, k + 1, Len(v)) ELSE v
  IN nm \o (IF val = <<>> \/ Has(val, "s") \/ Has(val, "q") THEN Quote(val) ELSE val)
RECURSIVE RecordAll(_)
RecordAll(ps) == IF ps = <<>> THEN <<>>
                 ELSE QuoteParam(Stringify(Head(ps))) \o (IF Tail(ps) = <<>> THEN <<>> ELSE <<"s">> \o RecordAll(Tail(ps)))

\* ---- the guarantees -----------------------------------------------------------------------------------
SeenAtStart(ps) == Tokenize(Render(ps))
SeenAtRetry(ps) == Tokenize(RecordAll(SeenAtStart(ps)))
\* What a step sees: $i is the stringified i-th parameter, $NAME the value of a named one.  A positional value that
\* contains '=' is recorded as it was given (k=v) and reads as a named parameter in the retry: $i is the same, the retry
\* additionally sees a variable k - the given values are all there.
PosView(xs) == [i \in DOMAIN xs |-> Stringify(xs[i])]
NamedView(xs) == {<<xs[i].name, xs[i].value>> : i \in {j \in DOMAIN xs : xs[j].name # <<>>}}
\* the retry is recorded as a new run, with the parameters as IT saw them, and can be retried in turn
SeenAtRetry2(ps) == Tokenize(RecordAll(SeenAtRetry(ps)))
C11_StartSeesGiven(xs) == SeenAtStart(xs) = xs
C11_RetrySeesSame(xs)  == /\ PosView(SeenAtRetry(xs)) = PosView(SeenAtStart(xs))
                          /\ NamedView(SeenAtStart(xs)) \subseteq NamedView(SeenAtRetry(xs))

\* ---- exhaustive check over small structures -----------------------------------------------------------
CONSTANTS MaxLen
Vals == UNION {[1..n -> Chars] : n \in 0..MaxLen}
\* values whose rendering is in the documented syntax: a backslash right before a quote or at the end of a quoted
\* value would read as an escape; such values are outside the syntax (there is no escape for a backslash)
Clean(v) == ~\E i \in DOMAIN v : v[i] = "b" /\ (i = Len(v) \/ v[i + 1] = "q")
One == {[name |-> n, value |-> v] : n \in {<<>>, <<"w">>}, v \in {x \in Vals : Clean(x)}}
VARIABLE ps
Init == ps \in {<<p>> : p \in One} \cup {<<p, r>> : p \in One, r \in {x \in One : Len(x.value) <= 1}}
Next == UNCHANGED ps
C11_Start == C11_StartSeesGiven(ps)
C11_Retry == C11_RetrySeesSame(ps)
\* ... and so does a retry of the retry (recording what the retry saw and reading it back changes nothing any more)
C11_RetryOfRetry == /\ PosView(SeenAtRetry2(ps)) = PosView(SeenAtStart(ps))
                    /\ NamedView(SeenAtRetry(ps)) \subseteq NamedView(SeenAtRetry2(ps))
=============================================================================
