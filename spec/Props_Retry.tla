---------------------------- MODULE Props_Retry ----------------------------
(* C10: which steps a retry of a recorded run must execute again.  deps[s] = set of steps s
   depends on, vec[s] = recorded status.  Independent of the frontier walk the code uses. *)
EXTENDS Props_Sched

Unfinished(st) == st \in {FAIL, CANC, RUN, NS}
Dependents(deps, S) == {t \in DOMAIN deps : deps[t] \cap S # {}}
RECURSIVE Down(_, _, _)
Down(deps, S, k) == IF k = 0 THEN S ELSE Down(deps, S \cup Dependents(deps, S), k - 1)
\* steps that did not complete successfully, plus everything downstream of them
ReRun(deps, vec) == Down(deps, {s \in DOMAIN vec : Unfinished(vec[s])}, Len(vec))

\* steps whose own recorded state, or that of a step upstream, demands a reset before the retry is scheduled
MustReset(deps, vec) == Down(deps, {s \in DOMAIN vec : vec[s] \in {FAIL, CANC, RUN}}, Len(vec))

\* A status vector a run can leave behind (finished, stopped or killed at any instant): a step that
\* got as far as being launched (it ran, is running, succeeded or failed) was launched when all its
\* dependencies let it proceed; a step labelled skipped / canceled without having been launched was
\* labelled by the readiness check because one of its dependencies blocks it.  (Nothing is demanded of a
\* canceled step: a stop during a retry wait relabels the waiting step "not started" after its dependents
\* were canceled - found by TLC on StepSched - and a canceled step is reset by every retry anyway.)
Launched(st) == st \in {FIN, FAIL, RUN}
AllAllow(deps, contF, contS, vec, s) == \A d \in deps[s] : DepAllows(vec[d], contF[d], contS[d])
Consistent(deps, contF, contS, vec) ==
  \A s \in DOMAIN vec :
    /\ Launched(vec[s]) => AllAllow(deps, contF, contS, vec, s)
    /\ vec[s] = SKIP => AllAllow(deps, contF, contS, vec, s) \/ \E d \in deps[s] : vec[d] = SKIP /\ ~contS[d]

\* what the retry graph must look like before it is scheduled.  A never-started step is already "not
\* started"; a step downstream of a never-started one that is itself blocked by a *kept* skipped step
\* cannot run in the retry either way, so keeping its label is as good as resetting it (freedom).
C10_GraphOK(deps, vec, after) ==
  \A s \in DOMAIN vec :
    IF s \in MustReset(deps, vec) THEN after[s] = NS
    ELSE IF s \notin ReRun(deps, vec) THEN after[s] = vec[s]
    ELSE after[s] \in {NS, vec[s]}
=============================================================================
