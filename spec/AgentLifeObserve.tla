---------------------------- MODULE AgentLifeObserve ----------------------------
(* C08 and C16: judges records of the REAL blackdagger binary under the ptrace supervisor (vh agentlife).
   kind "kill":   `start` was SIGKILLed at the entry of its k-th relevant system call (k = ncalls+1: not killed);
                  then the real client was asked for the latest status and the DAG was started again
   kind "second": the first `start` was held at its k-th relevant call while a second `start` of the same
                  file ran to completion; afterProbe / afterBind / afterShutdown place k relative to the first
                  start's connect (probe), bind and final unlink of the status socket                      *)
EXTENDS Integers, Sequences, TLC, Json
CONSTANT TraceFile
Trace == ndJsonDeserialize(TraceFile)
VARIABLES l, bad
R == Trace[l]
KillClauses(r) ==
  (IF r.killed /\ r.latest = "running" THEN {"C08_KilledRunReportedRunning"} ELSE {})
  \cup (IF r.killed /\ ~r.finalWritten /\ r.latest = "finished" THEN {"C08_KilledRunReportedSucceeded"} ELSE {})
  \cup (IF r.latestErr # "" \/ r.latestErrAfterRestart # "" THEN {"C08_StatusQueryFails"} ELSE {})
  \cup (IF r.restartExit # 0 \/ ~r.restartRan \/ r.restartHist # 1 \/ r.latestAfterRestart # "finished" THEN {"C08_CannotBeStartedAgain"} ELSE {})
  \cup (IF ~r.killed /\ r.latest # "finished" THEN {"C08_FinishedRunNotReportedFinished"} ELSE {})
\* the first start had committed itself to being the run of the file (it holds the address lock or, without such a lock,
\* has made its probe) and had not yet given up its socket
Active(r) == r.committed /\ ~r.afterShutdown
SecondClauses(r) ==
  \* a second start that had to wait for the held first one (address lock) and ran after it had ended is not an overlap
  (IF Active(r) /\ r.runsThatExecuted >= 2 /\ (~r.secondBlocked \/ r.interleaved) THEN {"C16_BothExecuted"} ELSE {})
  \cup (IF r.exitB # 0 /\ r.histNewDuringB > 0 THEN {"C16_RefusedStartRecordedRun"} ELSE {})
  \cup (IF r.exitA # 0 \/ r.statusEnd # "finished" \/ r.statusEndErr # "" THEN {"C16_ActiveRunDisturbed"} ELSE {})
  \cup (IF r.runsThatExecuted = 0 THEN {"C16_NobodyRan"} ELSE {})
\* kind "truth": an unkilled run of the real binary: the status reported while it ran and the persisted final status
\* against what the steps really did (marker file)
TruthClauses(r) ==
  (IF ~r.liveOK THEN {"C08_NotReportedRunningWhileInProgress"} ELSE {})
  \cup (IF r.runStatus # r.wantRun \/ r.latestErr # "<nil>" THEN {"C08_FinalRunStatusWrong"} ELSE {})
  \cup (IF \E i \in DOMAIN r.nodes : r.nodes[i].status # r.nodes[i].want THEN {"C08_FinalStepStateWrong"} ELSE {})
  \cup (IF \E i \in DOMAIN r.nodes : r.nodes[i].executions # r.nodes[i].wantExecutions
                                      \/ r.nodes[i].retryCount # (IF r.nodes[i].executions > 1 THEN r.nodes[i].executions - 1 ELSE 0)
          THEN {"C08_AttemptsWrong"} ELSE {})
  \cup (IF \E i \in DOMAIN r.nodes : r.nodes[i].executions > 0 /\ ~r.nodes[i].logExists THEN {"C08_LogPathMissing"} ELSE {})
  \cup (IF \E i \in DOMAIN r.nodes : ~r.nodes[i].startNotAfterFinish THEN {"C08_StartAfterFinish"} ELSE {})
\* kind "stop" (C05 on real processes): the real `stop` command against a real run whose step is a shell process that
\* obeys SIGTERM / ignores it / wants SIGINT (signalOnStop) / repeats
StopClauses(r) ==
  (IF r.infra # "" THEN {"INFRA"} ELSE
   (IF ~r.withinBound THEN {"C05_RunDoesNotEndWithinBound"} ELSE {})
   \cup (IF r.ended /\ r.status # "canceled" THEN {"C05_StoppedRunNotCanceled"} ELSE {})
   \cup (IF r.ended /\ (r.oncancel # 1 \/ r.onexit # 1 \/ r.onsuccess # 0) THEN {"C05_CancelHandlersNotRun"} ELSE {})
   \cup (IF r.s2ran > 0 THEN {"C05_StepStartedAfterStop"} ELSE {})
   \cup (IF r.variant = "sigint" /\ r.gotint # 1 THEN {"C05_SignalOnStopNotUsed"} ELSE {})
   \cup (IF r.variant = "repeat" /\ (r.iterdone # r.started \/ r.started > 2) THEN {"C05_RepeatStepDisturbedOrRepeated"} ELSE {}))
\* kind "outcome" (C04 on the real binary): what a run reports through each channel - persisted status, exit code of the
\* start command, handlers that ran, mails sent - against what its steps did; ExpectedHandlers is the operator of the model
PS == INSTANCE Props_Sched
RngOf(seq) == {seq[i] : i \in DOMAIN seq}
OutcomeClauses(r) ==
  IF r.infra # "" THEN {"INFRA"} ELSE
  (IF r.run # r.wantRun THEN {"C04_RealWrongOutcome"} ELSE {})
  \cup (IF r.dagPreUnmet /\ (r.handlersRan # <<>> \/ r.stepsRan # <<>> \/ r.run # "") THEN {"C04_RanDespiteDagPrecondition"} ELSE {})
  \cup (IF r.run # "" /\ r.handlersRan # PS!ExpectedHandlers(RngOf(r.handlers), r.run) THEN {"C04_RealWrongHandlers"} ELSE {})
  \cup (IF (r.run = "finished" /\ r.exit # 0) \/ (r.run = "failed" /\ r.exit = 0) \/ (r.dagPreUnmet /\ r.exit = 0)
          THEN {"C04_RealExitCodeDisagrees"} ELSE {})
  \cup (IF \/ r.run = "finished" /\ (r.errMails # 0 \/ r.infoMails # (IF r.mailOn THEN 1 ELSE 0))
           \/ r.run = "failed" /\ (r.infoMails # 0 \/ r.errMails # r.failedStepsWithMail + (IF r.mailOn THEN 1 ELSE 0))
           \/ r.run = "canceled" /\ r.infoMails # 0
           \/ r.dagPreUnmet /\ r.mails # <<>>
           \/ ~r.finalStatusInSubject
          THEN {"C04_RealMailDisagrees"} ELSE {})
\* kind "window" (C05, the start barrier on the real command executor): the worker of a real step was held after its own
\* cancel check (before / after the executor was created) while the stop request was made
WindowClauses(r) ==
  IF r.infra # "" THEN {"INFRA"}
  ELSE IF r.variant = "control" THEN (IF ~r.started THEN {"INFRA"} ELSE {})
  ELSE (IF r.started THEN {"C05_StartAfterStopRealExecutor"} ELSE {})
       \cup (IF r.status # "canceled" \/ r.run # "canceled" THEN {"C05_StoppedRunNotCanceled"} ELSE {})
Clauses(r) == IF r.kind = "window" THEN WindowClauses(r) ELSE IF r.kind = "kill" THEN KillClauses(r) ELSE IF r.kind = "truth" THEN TruthClauses(r)
              ELSE IF r.kind = "stop" THEN StopClauses(r) ELSE IF r.kind = "outcome" THEN OutcomeClauses(r) ELSE SecondClauses(r)
Init == l = 1 /\ bad = 0
Next == /\ l <= Len(Trace) /\ l' = l + 1
        /\ LET c == Clauses(R) IN IF c = {} THEN UNCHANGED bad
           ELSE bad' = bad + 1 /\ PrintT("VERDICT " \o ToJson([line |-> l, viol |-> c, rec |-> R]))
Spec == Init /\ [][Next]_<<l, bad>>
Emit == (l = Len(Trace) + 1) => PrintT("CONSUMED " \o ToString(Len(Trace)) \o " bad " \o ToString(bad))
=============================================================================
