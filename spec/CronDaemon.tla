---------------------------- MODULE CronDaemon ----------------------------
(* C09.  internal/scheduler: the tick loop (scheduler.go start/run/nextTick), the entry reader
   (entryreader.go Read: one entry per DAG, operation and minute), the job guard (job.go Start).
   Time is in minutes.  A schedule is abstracted to the set of minutes it matches inside the horizon
   (the binding to real cron expressions is Props_Cron!CronMatch, used by CronObserve on real records).
   A start issued by the daemon becomes visible to GetLatestStatus only at RunVisible (the spawned
   process has opened its history file) and the run ends at RunEnds.  Ticks can be late and then run
   back-to-back (bunched); the daemon can be restarted at any time, its first tick then is the current
   minute, history survives.                                                                          *)
EXTENDS Integers, Sequences, FiniteSets, TLC

CONSTANTS Dags, Horizon, Scheds   \* Scheds: [Dags -> sequence of sets of minutes] (start schedules)

VARIABLES tick,      \* next minute to be ticked
          wall,      \* wall-clock minute (ticks never run ahead of it)
          susp,      \* suspended dags
          jobs,      \* pending job goroutines: records [d, next]
          pendingVis,\* starts issued but not yet visible: records [d, at]
          running,   \* dags with a live, visible run
          lastStart, \* [Dags -> minute of the most recent visible run start, -1 = never]
          starts,    \* history: sequence of [d, m, at, ep] starts issued (m = scheduled minute)
          ep         \* daemon incarnation
vars == <<tick, wall, susp, jobs, pendingVis, running, lastStart, starts, ep>>

Init == /\ tick = 0 /\ wall = 0 /\ susp \in SUBSET Dags /\ jobs = {} /\ pendingVis = {}
        /\ running = {} /\ lastStart = [d \in Dags |-> -1] /\ starts = <<>> /\ ep = 0

Matches(d, m) == \E i \in DOMAIN Scheds[d] : m \in Scheds[d][i]
\* entryReader.Read + Scheduler.run(tick): one job per DAG whose some start schedule falls on the tick
Tick == /\ tick <= Horizon /\ tick <= wall
        /\ jobs' = jobs \cup {[d |-> d, next |-> tick] : d \in {x \in Dags \ susp : Matches(x, tick)}}
        /\ tick' = tick + 1
        /\ UNCHANGED <<wall, susp, pendingVis, running, lastStart, starts, ep>>
\* jobImpl.Start (job.go:51-73)
JobStart(j) == /\ j \in jobs
               /\ jobs' = jobs \ {j}
               /\ IF j.d \in running \/ lastStart[j.d] >= j.next
                    THEN UNCHANGED <<pendingVis, starts>>
                    ELSE /\ pendingVis' = pendingVis \cup {[d |-> j.d, at |-> wall, n |-> Len(starts) + 1]}
                         /\ starts' = Append(starts, [d |-> j.d, m |-> j.next, at |-> wall, ep |-> ep])
               /\ UNCHANGED <<tick, wall, susp, running, lastStart, ep>>
RunVisible(p) == /\ p \in pendingVis
                 /\ pendingVis' = pendingVis \ {p}
                 /\ running' = running \cup {p.d}
                 /\ lastStart' = [lastStart EXCEPT ![p.d] = IF p.at > @ THEN p.at ELSE @]
                 /\ UNCHANGED <<tick, wall, susp, jobs, starts, ep>>
RunEnds(d) == /\ d \in running /\ running' = running \ {d}
              /\ UNCHANGED <<tick, wall, susp, jobs, pendingVis, lastStart, starts, ep>>
Clock == /\ wall < Horizon /\ wall' = wall + 1        \* real time passes: ticks may lag behind
         /\ UNCHANGED <<tick, susp, jobs, pendingVis, running, lastStart, starts, ep>>
\* daemon restart: pending goroutines are gone, the first tick of the new daemon is the current minute
Restart == /\ jobs' = {} /\ tick' = wall /\ ep' = ep + 1 /\ ep < 2
           /\ UNCHANGED <<wall, susp, pendingVis, running, lastStart, starts>>
Toggle(d) == /\ susp' = (IF d \in susp THEN susp \ {d} ELSE susp \cup {d})
             /\ UNCHANGED <<tick, wall, jobs, pendingVis, running, lastStart, starts, ep>>

Next == Tick \/ Clock \/ Restart \/ (\E j \in jobs : JobStart(j)) \/ (\E p \in pendingVis : RunVisible(p))
        \/ (\E d \in Dags : RunEnds(d)) \/ (\E d \in Dags : Toggle(d))
Spec == Init /\ [][Next]_vars

\* ---- C09 ----
\* a start is only ever issued for a minute the DAG is scheduled for
C09_OnlyScheduled == \A a \in DOMAIN starts : Matches(starts[a].d, starts[a].m)
\* one daemon incarnation never starts the same scheduled minute of a DAG twice (a restart inside the
\* minute may re-issue it while the first start is still invisible to the guard - the guard cannot know)
C09_NoDouble == \A a, b \in DOMAIN starts : a < b /\ starts[a].d = starts[b].d /\ starts[a].m = starts[b].m
                   => starts[a].ep # starts[b].ep
\* a start is never issued for a minute at or before the start of a run that was already visible:
\* visible runs of d started at lastStart[d]; every later start of d is for a minute after it
C09_GuardHolds == \A a \in DOMAIN starts : \A d \in Dags :
                     starts[a].d = d /\ (\A p \in pendingVis : p.n # a) => lastStart[d] >= starts[a].at
=============================================================================
