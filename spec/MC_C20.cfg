CONSTANTS Names = {"a", "b", "c"}
  Steps = {"s0", "s1", "s2"}
  Reqs = {"r1", "r2"}
  MaxOps = 4
SPECIFICATION Spec
VIEW View
INVARIANT GuaranteesHold
CHECK_DEADLOCK FALSE
