CONSTANTS R = 3
  K = 2
SPECIFICATION Spec
INVARIANTS C07_Interrupted C07_LatestNoErr C07_Recent1 C07_Recent2
CHECK_DEADLOCK FALSE
