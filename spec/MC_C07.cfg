CONSTANTS R = 3
  K = 2
  MaxCrashes = 2
  FixTornAppend = TRUE
  CompFirst = TRUE
SPECIFICATION Spec
INVARIANTS C07_Interrupted C07_LatestNoErr C07_Recent1 C07_Recent2 C07_AckedIsShown
CHECK_DEADLOCK FALSE
