---------------------------- MODULE CronObserve ----------------------------
(* C09.  Judges the per-tick records of the real daemon (vh cron): real entry reader + watcher, real
   Scheduler.run, real jobImpl guards, real cron parser, over a recording fake client.
   For every tick (minute m) and every DAG file:
     jobs invoked      = one per start / stop / restart schedule that matches m, iff the file is loaded
                         (valid, present, seen by the watcher) and not suspended
     each start job    : issues a start iff it was told "not running, latest run started before minute m"
     each stop job     : issues a stop iff it was told "running";  each restart job issues a restart
     never two starts of one DAG for one scheduled minute (within a tick, or across ticks / restarts)  *)
EXTENDS Props_Cron, TLC, Json

CONSTANT TraceFile
Trace == ndJsonDeserialize(TraceFile)
VARIABLES l, viol, started, nscen, c
E == Trace[l]
Rng(seq) == {seq[i] : i \in DOMAIN seq}
Count(seq, P(_)) == Cardinality({i \in DOMAIN seq : P(seq[i])})

Loaded(e, n) == (n \o ".yaml") \in Rng(e.loaded)
ShouldBeLoaded(e, n) == (n \o ".yaml") \in Rng(e.expectLoaded)
DagClauses(e, n) ==
  LET d == e.dags[n]
      live == ShouldBeLoaded(e, n) /\ ~d.susp
      One(k) == IF k >= 1 THEN 1 ELSE 0        \* several schedules falling on one minute are one job
      nS == IF live THEN One(NMatch(d.def.start, e.bd)) ELSE 0
      nT == IF live THEN One(NMatch(d.def.stop, e.bd)) ELSE 0
      nR == IF live THEN One(NMatch(d.def.restart, e.bd)) ELSE 0
      okStart == Count(d.startAns, LAMBDA a : StartPermitted(a, e.m))
      okStop  == Count(d.stopAns, LAMBDA a : StopPermitted(a))
  IN IF d.unspec THEN {} ELSE    \* its file was overwritten with a malformed text: what the daemon holds for it is not specified
     (IF d.invStart < nS THEN {"C09_ScheduledStartNotAttempted"} ELSE {})
     \cup (IF d.invStart > nS THEN {"C09_UnscheduledStartAttempted"} ELSE {})
     \cup (IF d.invStop # nT THEN {"C09_StopScheduleWrong"} ELSE {})
     \cup (IF d.invRestart # nR \/ d.restarts # d.invRestart THEN {"C09_RestartScheduleWrong"} ELSE {})
     \cup (IF Len(d.startAns) # d.invStart \/ Len(d.stopAns) # d.invStop THEN {"C09_JobDidNotAskLatestStatus"} ELSE {})
     \cup (IF d.starts > okStart THEN {"C09_StartDespiteGuard"} ELSE {})
     \cup (IF d.starts < okStart THEN {"C09_PermittedStartNotIssued"} ELSE {})
     \cup (IF d.stops # okStop THEN {"C09_StopGuardWrong"} ELSE {})
     \cup (IF d.starts > 1 THEN {"C09_MinuteStartedTwice"} ELSE {})
     \cup (IF d.starts >= 1 /\ <<n, e.m>> \in started THEN {"C09_MinuteStartedTwice"} ELSE {})
     \cup (IF ShouldBeLoaded(e, n) /\ ~Loaded(e, n) THEN {"C09_ValidFileNotLoaded"} ELSE {})
     \cup (IF ~ShouldBeLoaded(e, n) /\ Loaded(e, n) /\ d.def.form = "gone" THEN {"C09_RemovedFileStillLoaded"} ELSE {})

Init == l = 1 /\ viol = {} /\ started = {} /\ nscen = 0 /\ c = [none |-> TRUE]
Reset == /\ E.ev = "Reset" /\ viol' = {} /\ started' = {} /\ nscen' = nscen + 1 /\ c' = E
Tick == /\ E.ev = "Tick"
        /\ LET per == [n \in DOMAIN E.dags |-> DagClauses(E, n)]
               b == UNION {per[n] : n \in DOMAIN E.dags} IN
           /\ viol' = viol \cup b
           /\ (b \ viol # {}) => PrintT("DETAIL " \o ToJson([scen |-> E.scen, line |-> l, i |-> E.i, m |-> E.m, bd |-> E.bd, viol |-> b,
                      dags |-> [n \in {x \in DOMAIN E.dags : per[x] # {}} |-> [viol |-> per[n], rec |-> E.dags[n],
                                  nStartSched |-> NMatch(E.dags[n].def.start, E.bd)]]]))
        /\ started' = started \cup {<<n, E.m>> : n \in {x \in DOMAIN E.dags : E.dags[x].starts >= 1}}
        /\ UNCHANGED <<nscen, c>>
Hung == /\ E.ev = "Hung" /\ viol' = viol \cup {"C09_TickNeverReturns"} /\ UNCHANGED <<started, nscen, c>>
End == /\ E.ev = "End" /\ UNCHANGED <<viol, started, nscen, c>>
       \* a scenario in which the daemon's watcher had to fall back to polling (no inotify instance left) is not judged
       /\ PrintT("VERDICT " \o ToJson([scen |-> E.scen, viol |-> IF E.pollFallback THEN {} ELSE viol, delayed |-> c.delayed,
                                        skipped |-> E.pollFallback]))
Next == l <= Len(Trace) /\ l' = l + 1 /\ (Reset \/ Tick \/ Hung \/ End)
Spec == Init /\ [][Next]_<<l, viol, started, nscen, c>>
Emit == (l = Len(Trace) + 1) => PrintT("CONSUMED " \o ToString(Len(Trace)) \o " scenarios " \o ToString(nscen))
=============================================================================
