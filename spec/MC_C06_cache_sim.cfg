CONSTANTS Readers = {"q1", "q2", "q3"}
  MaxVer = 6
  MaxQueries = 4
  ReturnChecked = TRUE
  RestatAfterLoad = FALSE
  MaxSteps = 22
INIT MInit
NEXT MNext
INVARIANTS EmitBehaviour
CHECK_DEADLOCK FALSE
