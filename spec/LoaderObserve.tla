---------------------------- MODULE LoaderObserve ----------------------------
(* C13 and C19.  Judges records of the loader rig (vh loader).
   kind "base" / "single" / "pair" / "bytes": one document loaded through one entry point
       C13: outcome \in {accept, reject} (never a crash, never "neither"), and an accepted definition
            gives every step a name and something to execute, only parseable schedules and valid signal
            names, a status that can be serialised and read back, preconditions that can be evaluated,
            a graph that can be built (LoadMetadata: the metadata-level subset of those)
   kind "canary": a command substitution / variable reference planted in one string-valued field
       C19: a non-executing entry point runs no command and leaves the process environment alone;
            the executing entry point (Load) is the vacuity control: it must evaluate env/params/logDir *)
EXTENDS Integers, Sequences, FiniteSets, TLC, Json

CONSTANT TraceFile
Trace == ndJsonDeserialize(TraceFile)
VARIABLES l, bad
R == Trace[l]

PostKeys == {"named", "exec", "sched", "signals", "serial", "precond", "graph"}
PostClause(k) == CASE k = "named" -> "C13_AcceptedStepWithoutName"
                   [] k = "exec" -> "C13_AcceptedStepWithNothingToRun"
                   [] k = "sched" -> "C13_AcceptedUnparseableSchedule"
                   [] k = "signals" -> "C13_AcceptedInvalidSignalName"
                   [] k = "serial" -> "C13_StatusNotSerialisable"
                   [] k = "precond" -> "C13_PreconditionCrashes"
                   [] k = "graph" -> "C13_GraphBuildCrashes"
ShapeClauses(r) ==
  (IF r.outcome = "panic" THEN {"C13_LoaderCrashed"} ELSE {})
  \cup (IF r.outcome = "neither" THEN {"C13_NeitherErrorNorDefinition"} ELSE {})
  \cup (IF r.outcome = "accept" THEN {PostClause(k) : k \in {x \in PostKeys : r.post[x] = FALSE}} ELSE {})
EvaluatedFields == {"env.0.A", "env.1.B", "params", "logDir"}
CanaryClauses(r) ==
  (IF ~r.executing /\ r.fired THEN {"C19_CommandExecuted"} ELSE {})
  \cup (IF ~r.executing /\ r.env # <<>> THEN {"C19_EnvironmentChanged"} ELSE {})
  \cup (IF ~r.executing /\ r.site # "" THEN {"C13_LoaderCrashed"} ELSE {})
  \cup (IF r.executing /\ r.plant = "cmd" /\ r.field \in EvaluatedFields /\ ~r.fired THEN {"VACUITY_CanaryDidNotFire"} ELSE {})
Clauses(r) == IF r.kind = "canary" THEN CanaryClauses(r) ELSE ShapeClauses(r)

Init == l = 1 /\ bad = 0
Next == /\ l <= Len(Trace) /\ l' = l + 1
        /\ LET c == Clauses(R) IN
           IF c = {} THEN UNCHANGED bad
           ELSE bad' = bad + 1 /\ PrintT("VERDICT " \o ToJson([line |-> l, viol |-> c, rec |-> R]))
Spec == Init /\ [][Next]_<<l, bad>>
Emit == (l = Len(Trace) + 1) => PrintT("CONSUMED " \o ToString(Len(Trace)) \o " bad " \o ToString(bad))
=============================================================================
