CONSTANT TraceFile = "trace.ndjson"
SPECIFICATION Spec
INVARIANT Emit
CHECK_DEADLOCK FALSE
