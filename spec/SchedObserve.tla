---------------------------- MODULE SchedObserve ----------------------------
(* Observe trace specification of the step scheduler: NO guards.  The abstract state is
   rebuilt (event-sourced) from the events recorded on the real code — status trace points
   under n.mu, executor events, stop / timeout events — and the property operators of
   Props_Sched (the same ones that are invariants of StepSched) are evaluated after every
   event.  A failed clause is added to `viol`; at the end of each run one VERDICT line is
   printed.  Many runs are concatenated in one trace file (Reset starts a new run).

   Clause names carry the property id (C01_…, C02_…); /verif/lib decides per check which
   clauses it owns, matches them against KNOWN_FINDINGS.json and prints the verdict lines. *)
EXTENDS Props_Retry, TLC, Json

CONSTANT TraceFile
Trace == ndJsonDeserialize(TraceFile)

VARIABLES l,         \* index of the next event
          c,         \* configuration of the current run (Reset event)
          status, alive, execs, lastOK, created, rwait, initst, checked,
          stopped, pastCreate, pastCheck, attAtStop, completedAtStop, sigs, killRound, timedOut,
          hlog, hst, returned, viol, nruns, facts

vars == <<l, c, status, alive, execs, lastOK, created, rwait, initst, checked, stopped, pastCreate, pastCheck, attAtStop,
          completedAtStop, sigs, killRound, timedOut, hlog, hst, returned, viol, nruns, facts>>

Rng(seq) == {seq[i] : i \in DOMAIN seq}
E == Trace[l]
Steps == 1..c.n
Deps  == [s \in Steps |-> Rng(c.deps[s])]
Add(v, cond, name) == IF cond THEN v \cup {name} ELSE v

NoCfg == [n |-> 0]
Init == /\ l = 1 /\ c = NoCfg /\ status = <<>> /\ alive = <<>> /\ execs = <<>> /\ lastOK = <<>>
        /\ created = <<>> /\ rwait = <<>> /\ initst = <<>> /\ checked = <<>> /\ pastCheck = <<>>
        /\ stopped = FALSE /\ pastCreate = <<>> /\ attAtStop = <<>> /\ completedAtStop = FALSE
        /\ sigs = <<>> /\ killRound = FALSE /\ timedOut = FALSE
        /\ hlog = <<>> /\ hst = <<>> /\ returned = FALSE /\ viol = {} /\ nruns = 0 /\ facts = {}

Reset ==
  /\ E.ev = "Reset"
  /\ c' = E
  /\ LET S == 1..E.n
         ist == IF "init" \in DOMAIN E THEN E.init ELSE [s \in S |-> NS]
         sst == IF "start" \in DOMAIN E THEN E.start ELSE ist IN     \* retry: statuses after the retry graph was set up
     /\ status' = sst /\ initst' = ist
     /\ alive' = [s \in S |-> FALSE] /\ execs' = [s \in S |-> 0] /\ lastOK' = [s \in S |-> FALSE]
     /\ created' = [s \in S |-> FALSE] /\ rwait' = [s \in S |-> FALSE]
     /\ checked' = [s \in S |-> FALSE] /\ pastCheck' = [s \in S |-> FALSE]
     /\ pastCreate' = [s \in S |-> FALSE] /\ attAtStop' = [s \in S |-> 0]
     /\ sigs' = [s \in S |-> {}]
  /\ stopped' = FALSE /\ completedAtStop' = FALSE /\ killRound' = FALSE /\ timedOut' = FALSE
  /\ hlog' = <<>> /\ hst' = [h \in {"success", "failure", "cancel", "exit"} |-> NS]
  /\ returned' = FALSE /\ viol' = {} /\ nruns' = nruns + 1 /\ facts' = {}

StatusEv ==
  /\ E.ev = "Status"
  /\ status' = [status EXCEPT ![E.s] = E.st]
  /\ UNCHANGED <<c, alive, execs, lastOK, created, rwait, initst, checked, pastCheck, stopped, pastCreate, attAtStop,
                 completedAtStop, sigs, killRound, timedOut, hlog, hst, returned, viol, nruns, facts>>

ExecCreate ==
  /\ E.ev = "ExecCreate"
  /\ created' = [created EXCEPT ![E.s] = TRUE]
  /\ viol' = Add(viol, c.dry, "C03_DryRunCreatedExecutor")
  /\ UNCHANGED <<c, status, alive, execs, lastOK, rwait, initst, checked, pastCheck, stopped, pastCreate, attAtStop,
                 completedAtStop, sigs, killRound, timedOut, hlog, hst, returned, nruns, facts>>

\* a dependency that is labelled finished must really have succeeded (in this run, or in the
\* recorded run that is being retried)
DepTruth(d) == status[d] = FIN => (IF execs[d] >= 1 THEN lastOK[d] ELSE initst[d] = FIN)

ExecBegin ==
  /\ E.ev = "ExecBegin"
  /\ LET s == E.s
         nex == NExecuting(Steps, alive, rwait) + (IF rwait[s] THEN 0 ELSE 1)
         v1 == Add(viol, ~C01_StartOK(Deps, c.contF, c.contS, status, alive, s), "C01_EarlyStart")
         v2 == Add(v1, \E d \in Deps[s] : ~DepTruth(d), "C01_DepNotReallyDone")
         v3 == Add(v2, ~C15_Within(c.maxActive, nex), "C15_TooManyActive")
         v4 == Add(v3, ~c.repeat[s] /\ ~C03_Bound(execs[s] + 1, c.rlimit[s], 0), "C03_TooManyExecutions")
         \* the worker had already passed its own cancel check when the stop was accepted (F-05b window)
         v5 == Add(v4, stopped /\ ~pastCheck[s], "C05_StartAfterStop")
         v6 == Add(v5, stopped /\ pastCheck[s], "C05_StartAfterStopInWindow")
         v7 == Add(v6, timedOut, "C05_StartAfterTimeout")
         v8 == Add(v7, hlog # <<>>, "C04_StepAfterHandler")
         v9 == Add(v8, c.dry, "C03_DryRunExecuted")
         v10 == Add(v9, alive[s], "C03_ConcurrentAttempts")
     IN viol' = v10
  /\ alive' = [alive EXCEPT ![E.s] = TRUE]
  /\ execs' = [execs EXCEPT ![E.s] = @ + 1]
  /\ checked' = [checked EXCEPT ![E.s] = FALSE]
  /\ facts' = Add(facts, stopped /\ pastCheck[E.s], "windowStart")
  /\ UNCHANGED <<c, status, lastOK, created, rwait, initst, pastCheck, stopped, pastCreate, attAtStop,
                 completedAtStop, sigs, killRound, timedOut, hlog, hst, returned, nruns>>

ExecEnd ==
  /\ E.ev = "ExecEnd"
  /\ alive' = [alive EXCEPT ![E.s] = FALSE]
  /\ lastOK' = [lastOK EXCEPT ![E.s] = E.ok]
  /\ facts' = Add(facts, stopped /\ ~E.ok /\ E.why = "script", "failAfterStop")
  /\ UNCHANGED <<c, status, execs, created, rwait, initst, checked, pastCheck, stopped, pastCreate, attAtStop,
                 completedAtStop, sigs, killRound, timedOut, hlog, hst, returned, viol, nruns>>

RetryWait ==
  /\ E.ev = "RetryWait"
  /\ rwait' = [rwait EXCEPT ![E.s] = TRUE]
  /\ UNCHANGED <<c, status, alive, execs, lastOK, created, initst, checked, pastCheck, stopped, pastCreate, attAtStop,
                 completedAtStop, sigs, killRound, timedOut, hlog, hst, returned, viol, nruns, facts>>
RetryWake ==
  /\ E.ev = "RetryWake"
  /\ rwait' = [rwait EXCEPT ![E.s] = FALSE]
  /\ UNCHANGED <<c, status, alive, execs, lastOK, created, initst, checked, pastCheck, stopped, pastCreate, attAtStop,
                 completedAtStop, sigs, killRound, timedOut, hlog, hst, returned, viol, nruns, facts>>

CheckedEv ==
  /\ E.ev = "Checked"
  /\ checked' = [checked EXCEPT ![E.s] = TRUE]
  /\ UNCHANGED <<c, status, alive, execs, lastOK, created, rwait, initst, pastCheck, stopped, pastCreate, attAtStop,
                 completedAtStop, sigs, killRound, timedOut, hlog, hst, returned, viol, nruns, facts>>

ExpectedSig(s) == IF killRound THEN "kill"
                  ELSE IF c.sigOnStop[s] = "SIGINT" THEN "int"
                  ELSE IF c.sigOnStop[s] = "SIGUSR1" THEN "usr1" ELSE "term"
KillEv ==
  /\ E.ev = "Kill"
  /\ sigs' = [sigs EXCEPT ![E.s] = IF E.alive THEN @ \cup {E.sig} ELSE @]
  /\ viol' = Add(Add(viol, c.repeat[E.s], "C05_RepeatStepSignalled"),
                 E.alive /\ E.sig # ExpectedSig(E.s), "C05_WrongSignal")
  /\ UNCHANGED <<c, status, alive, execs, lastOK, created, rwait, initst, checked, pastCheck, stopped, pastCreate, attAtStop,
                 completedAtStop, killRound, timedOut, hlog, hst, returned, nruns, facts>>

StopEv ==
  /\ E.ev = "Stop"
  /\ stopped' = TRUE /\ pastCreate' = created /\ pastCheck' = checked
  /\ attAtStop' = [s \in Steps |-> IF alive[s] THEN execs[s] ELSE 0]
  /\ completedAtStop' = \A s \in Steps : Terminal(status[s])
  /\ UNCHANGED <<c, status, alive, execs, lastOK, created, rwait, initst, checked, sigs, killRound, timedOut,
                 hlog, hst, returned, viol, nruns, facts>>

\* the process of s that was alive when the stop was accepted is still the live one
StillAlive(s) == attAtStop[s] > 0 /\ alive[s] /\ execs[s] = attAtStop[s]

SignalReturn ==
  /\ E.ev = "SignalReturn"
  /\ viol' = IF E.round = "term"
               THEN Add(viol, \E s \in Steps : StillAlive(s) /\ ~c.repeat[s] /\ sigs[s] = {}, "C05_NotSignalled")
               ELSE Add(viol, \E s \in Steps : alive[s] /\ ~c.repeat[s] /\ "kill" \notin sigs[s], "C05_NoForceKill")
  /\ UNCHANGED <<c, status, alive, execs, lastOK, created, rwait, initst, checked, pastCheck, stopped, pastCreate, attAtStop,
                 completedAtStop, sigs, killRound, timedOut, hlog, hst, returned, nruns, facts>>

KillRound == /\ E.ev = "KillRound" /\ killRound' = TRUE
             /\ UNCHANGED <<c, status, alive, execs, lastOK, created, rwait, initst, checked, pastCheck, stopped, pastCreate, attAtStop,
                            completedAtStop, sigs, timedOut, hlog, hst, returned, viol, nruns, facts>>
TimeoutEv == /\ E.ev = "Timeout" /\ timedOut' = TRUE
             /\ UNCHANGED <<c, status, alive, execs, lastOK, created, rwait, initst, checked, pastCheck, stopped, pastCreate, attAtStop,
                            completedAtStop, sigs, killRound, hlog, hst, returned, viol, nruns, facts>>

HCreate == /\ E.ev = "HCreate"
           /\ viol' = Add(viol, c.dry, "C03_DryRunCreatedExecutor")
           /\ UNCHANGED <<c, status, alive, execs, lastOK, created, rwait, initst, checked, pastCheck, stopped, pastCreate, attAtStop,
                          completedAtStop, sigs, killRound, timedOut, hlog, hst, returned, nruns, facts>>
HBegin ==
  /\ E.ev = "HBegin"
  /\ hlog' = Append(hlog, E.h)
  /\ viol' = Add(Add(viol, \E s \in Steps : alive[s], "C04_HandlerWhileStepRuns"), c.dry, "C03_DryRunExecuted")
  /\ UNCHANGED <<c, status, alive, execs, lastOK, created, rwait, initst, checked, pastCheck, stopped, pastCreate, attAtStop,
                 completedAtStop, sigs, killRound, timedOut, hst, returned, nruns, facts>>
HStatus == /\ E.ev = "HStatus" /\ hst' = [hst EXCEPT ![E.h] = E.st]
           /\ UNCHANGED <<c, status, alive, execs, lastOK, created, rwait, initst, checked, pastCheck, stopped, pastCreate, attAtStop,
                          completedAtStop, sigs, killRound, timedOut, hlog, returned, viol, nruns, facts>>

\* ---- end of a run -------------------------------------------------------------------
Runnable(s) == (\A d \in Deps[s] : DepAllows(status[d], c.contF[d], c.contS[d])) /\ c.pcond[s] # "unmet"
Plain == ~stopped /\ ~timedOut /\ ~c.dry          \* an undisturbed real run
IsRetry == "init" \in DOMAIN c
FinalChecks(run, final) ==
  LET v0 == viol
      v1 == Add(v0, Plain /\ \E s \in Steps : ~c.repeat[s] /\ initst[s] = NS /\
                      ~C02_Local(Deps, c.contF, c.contS, status, s, execs[s], lastOK[s], c.pcond[s] # "unmet"),
                "C02_FinalStateInconsistent")
      v2 == Add(v1, Plain /\ \E s \in Steps : ~c.repeat[s] /\ initst[s] = NS /\ Runnable(s) /\
                      c.failK[s] >= 0 /\ execs[s] # C03_Expected(c.failK[s], c.rlimit[s]), "C03_WrongExecutionCount")
      v3 == Add(v2, Plain /\ \E s \in Steps : initst[s] = NS /\ ~Runnable(s) /\ execs[s] # 0, "C03_RanUnrunnable")
      v4 == Add(v3, ~c.dry /\ \E s \in Steps : ~c.repeat[s] /\ initst[s] = NS /\
                      final[s].retry # (IF execs[s] >= 1 THEN execs[s] - 1 ELSE 0) /\
                      ~(stopped \/ timedOut) , "C03_RetryCountMismatch")
      v5 == Add(v4, ~c.dry /\ \E s \in Steps : status[s] = FIN /\ execs[s] = 0 /\ initst[s] # FIN, "C03_FinishedWithoutRunning")
      v6a == Add(v5, Plain /\ \E s \in Steps : status[s] = FIN /\ execs[s] >= 1 /\ ~lastOK[s] /\ ~c.repeat[s], "C02_FinishedButFailed")
      v6 == Add(v6a, ~Plain /\ ~c.dry /\ \E s \in Steps : status[s] = FIN /\ execs[s] >= 1 /\ ~lastOK[s] /\ ~c.repeat[s], "C08_FinishedButFailed")
      v7 == Add(v6, ~timedOut /\ ~(IF stopped THEN C04_OutcomeStop(Steps, status, run, completedAtStop)
                                                ELSE C04_OutcomeNoStop(Steps, status, run)), "C04_WrongOutcome")
      v8 == Add(v7, ~timedOut /\ ~c.dry /\ ~C04_Handlers(Rng(c.handlers), run, hlog), "C04_WrongHandlers")
      \* the error Schedule returns is what the start command exits with and what the mail report says: it agrees with the status
      v8b == Add(v8, ~timedOut /\ ((E.err /\ run = FIN) \/ (~E.err /\ run = FAIL)), "C04_ReturnedErrorDisagreesWithOutcome")
      v9 == Add(v8b, \E s \in Steps : alive[s], "C05_ReturnedWithLiveProcess")
      v10 == Add(v9, \E s \in Steps : status[s] \in {RUN} , "C08_FinalStatusRunning")
      v11 == Add(v10, stopped /\ ~completedAtStop /\ run # CANC /\ ~AllOK(Steps, status), "C05_StoppedRunNotCanceled")
      v12 == Add(v11, \E s \in Steps : final[s].st # status[s], "DRIFT_SnapshotMismatch")
      v13 == Add(v12, c.dry /\ (run = FIN) # TRUE /\ ~stopped, "C03_DryRunOutcome")
      \* ---- C10: this run is a retry of the recorded vector initst
      rr  == ReRun(Deps, initst)
      v14 == Add(v13, IsRetry /\ \E s \in Steps : execs[s] >= 1 /\ s \notin rr, "C10_KeptStepExecuted")
      v15 == Add(v14, IsRetry /\ \E s \in Steps : s \notin rr /\ status[s] # initst[s], "C10_KeptStepChanged")
      v16 == Add(v15, IsRetry /\ Plain /\ "C10_RetryNeverEnds" \notin viol /\
                        \E s \in rr : Runnable(s) /\ execs[s] = 0 /\ ~c.repeat[s], "C10_UnfinishedStepNotReRun")
      v17 == Add(v16, IsRetry /\ Plain /\ "C10_RetryNeverEnds" \notin viol /\ \E s \in Steps : status[s] \in {NS, RUN}, "C10_RetryLeftStepUnfinished")
  IN v17

ReturnedEv ==
  /\ E.ev = "Returned"
  /\ returned' = TRUE
  /\ viol' = FinalChecks(E.status, E.final)
  /\ UNCHANGED <<c, status, alive, execs, lastOK, created, rwait, initst, checked, pastCheck, stopped, pastCreate, attAtStop,
                 completedAtStop, sigs, killRound, timedOut, hlog, hst, nruns, facts>>

\* the run could make no progress any more (nothing executing, nothing launchable): which guarantee that breaks depends on the run
StuckEv == /\ E.ev = "Stuck"
           /\ viol' = viol \cup (IF "init" \in DOMAIN c THEN {"C10_RetryNeverEnds"}
                                 ELSE IF c.maxActive > 0 THEN {"C15_LimitPreventsCompletion"} ELSE {"C02_RunNeverEnds"})
           /\ stopped' = TRUE /\ completedAtStop' = FALSE          \* the driver cancels the stuck run right after
           /\ UNCHANGED <<c, status, alive, execs, lastOK, created, rwait, initst, checked, pastCheck, pastCreate, attAtStop,
                          sigs, killRound, timedOut, hlog, hst, returned, nruns, facts>>

Known == {"Stuck", "Reset", "Checked", "Status", "ExecCreate", "ExecBegin", "ExecEnd", "RetryWait", "RetryWake", "Kill", "Stop",
          "SignalReturn", "KillRound", "Timeout", "HCreate", "HBegin", "HStatus", "Returned"}
Other == /\ E.ev \notin Known /\ UNCHANGED <<c, status, alive, execs, lastOK, created, rwait, initst, checked, pastCheck, stopped,
                 pastCreate, attAtStop, completedAtStop, sigs, killRound, timedOut, hlog, hst, returned, viol, nruns, facts>>

Next == /\ l <= Len(Trace) /\ l' = l + 1
        /\ \/ Reset \/ CheckedEv \/ StatusEv \/ ExecCreate \/ ExecBegin \/ ExecEnd \/ RetryWait \/ RetryWake \/ KillEv
           \/ StopEv \/ SignalReturn \/ KillRound \/ TimeoutEv \/ HCreate \/ HBegin \/ HStatus \/ ReturnedEv \/ StuckEv \/ Other
Spec == Init /\ [][Next]_vars

\* ---- output -----------------------------------------------------------------------------
StopPhase == IF ~stopped THEN "none" ELSE IF completedAtStop THEN "after-steps" ELSE "steps"
Verdict == [run |-> c.run, viol |-> viol, stop |-> stopped, stopPhase |-> StopPhase, timeout |-> timedOut,
            dry |-> c.dry, doneChan |-> c.doneChan, kill |-> killRound,
            anyRepeat |-> \E s \in Steps : c.repeat[s], anyIgnore |-> \E s \in Steps : ~c.obeys[s],
            execs |-> execs, status |-> status, facts |-> facts, n |-> c.n, maxActive |-> c.maxActive,
            handlers |-> c.handlers, model |-> ("model" \in DOMAIN c), retry |-> IsRetry,
            initHasRunning |-> (IsRetry /\ \E s \in Steps : initst[s] = RUN)]
\* evaluated as an invariant: prints one line per finished run, and one when the trace is consumed
Emit == /\ (returned /\ l > 1 /\ Trace[l-1].ev = "Returned") => PrintT("VERDICT " \o ToJson(Verdict))
        /\ (l = Len(Trace) + 1) => PrintT("CONSUMED " \o ToString(Len(Trace)) \o " runs " \o ToString(nruns))
=============================================================================
