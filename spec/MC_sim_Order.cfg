CONSTANTS N = 3
CONSTANT Configs <- OrderFull
SPECIFICATION MCSpec
INVARIANTS EmitBehaviour
CHECK_DEADLOCK FALSE
