CONSTANTS N = 2
CONSTANT Configs <- OutcomeQuick
SPECIFICATION MCSpec
VIEW MCView
CONSTRAINT ExecBound
INVARIANTS Lead_C04_Outcome
CHECK_DEADLOCK FALSE
