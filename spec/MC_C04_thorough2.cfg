CONSTANTS N = 3
CONSTANT Configs <- OutcomeNoStop
SPECIFICATION MCSpec
VIEW MCView
CONSTRAINT ExecBound
INVARIANTS TypeOK C04_Outcome C04_HandlerLog C04_ReturnAgrees C04_NoRunningLeft
CHECK_DEADLOCK FALSE
