CONSTANTS TraceFile = "trace.ndjson"
  Savers = {"a", "b"}
  UniqueTmp = TRUE
SPECIFICATION TSpec
INVARIANT Emit
CHECK_DEADLOCK FALSE
