CONSTANTS N = 3
CONSTANT Configs <- StopFull
SPECIFICATION MCSpec
VIEW MCView
CONSTRAINT ExecBound
INVARIANTS TypeOK C05_NoLateFresh

CHECK_DEADLOCK FALSE
