CONSTANTS N = 3
CONSTANT Configs <- StopFull
SPECIFICATION MCSpec
VIEW MCView
CONSTRAINT ExecBound
INVARIANTS TypeOK C05_NoLateFresh C05_NoLateStart C05_TermReachesAll C05_KillReaches

CHECK_DEADLOCK FALSE
