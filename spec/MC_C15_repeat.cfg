CONSTANTS N = 2
CONSTANT Configs <- RepeatLimit
SPECIFICATION MCSpec
VIEW MCView
CONSTRAINT ExecBound
INVARIANTS TypeOK C15_Limit C08_FinalLabels
CHECK_DEADLOCK FALSE
