CONSTANTS N = 3
CONSTANT Configs <- RetryFull
SPECIFICATION MCSpec
INVARIANTS EmitBehaviour
CHECK_DEADLOCK FALSE
