SPECIFICATION Spec
INVARIANT C17_Model
CHECK_DEADLOCK FALSE
