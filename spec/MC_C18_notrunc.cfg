\* the seeded defect C18-d: the temporary file is opened without O_TRUNC
CONSTANTS Atomic = TRUE
  Trunc = FALSE
SPECIFICATION Spec
INVARIANTS C18_AllOrNothing C18_SavedWhenDone
CHECK_DEADLOCK FALSE
