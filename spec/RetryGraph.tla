---------------------------- MODULE RetryGraph ----------------------------
(* Implementation-shaped model of ExecutionGraph.setupRetry (graph.go:178-210): a frontier walk
   from the steps without dependencies; a step is cleared when it is failed or canceled or when a
   cleared step was seen upstream of it; every dependent is pushed once per edge.
   TLC checks the result against the declarative closure of Props_Retry for every DAG on N steps
   and every consistent recorded status vector.
   TreatRunningAsUnfinished = FALSE models the code as it is (F-10a: a step recorded `running`, left
   by a killed run, is neither cleared nor runnable).                                           *)
EXTENDS Props_Retry, TLC

CONSTANTS N, TreatRunningAsUnfinished
Steps == 1..N
Acyclic(d) == \E r \in [Steps -> 1..N] : \A s \in Steps : \A p \in d[s] : r[p] < r[s]

VARIABLES deps, contF, vec, st, retry, frontier, pc
vars == <<deps, contF, vec, st, retry, frontier, pc>>

SetToSeq(S) == CHOOSE f \in [1..Cardinality(S) -> S] : \A i, j \in 1..Cardinality(S) : i < j => f[i] < f[j]
F(x) == [s \in Steps |-> x]
Statuses == {NS, RUN, FAIL, CANC, FIN, SKIP}

Init == /\ deps \in {d \in [Steps -> SUBSET Steps] : Acyclic(d)}
        /\ contF \in {F(FALSE), F(TRUE), [s \in Steps |-> s = 1]}
        /\ vec \in {v \in [Steps -> Statuses] : Consistent(deps, contF, contF, v)}
        /\ st = vec /\ retry = F(FALSE)
        /\ frontier = SetToSeq({s \in Steps : deps[s] = {}})
        /\ pc = "walk"

Bad(x) == x \in {FAIL, CANC} \/ (TreatRunningAsUnfinished /\ x = RUN)
\* one element of the frontier: clear it if needed, push its dependents to the next frontier (appended:
\* processing order within a level does not matter because retry flags only grow)
Walk == /\ pc = "walk" /\ frontier # <<>>
        /\ LET u == Head(frontier)
               clear == retry[u] \/ Bad(vec[u])
               dn == SetToSeq({v \in Steps : u \in deps[v]})
           IN /\ st' = IF clear THEN [st EXCEPT ![u] = NS] ELSE st
              /\ retry' = [v \in Steps |-> retry[v] \/ (v = u /\ clear) \/ (clear /\ u \in deps[v])]
              /\ frontier' = Tail(frontier) \o dn
        /\ UNCHANGED <<deps, contF, vec, pc>>
Done == /\ pc = "walk" /\ frontier = <<>> /\ pc' = "done" /\ UNCHANGED <<deps, contF, vec, st, retry, frontier>>
Next == Walk \/ Done
Spec == Init /\ [][Next]_vars /\ WF_vars(Next)

\* without the F-10a defect the walk computes exactly the closure (recorded `running` excluded otherwise)
HasRunning == \E s \in Steps : vec[s] = RUN
C10_WalkIsClosure == pc = "done" /\ (TreatRunningAsUnfinished \/ ~HasRunning) => C10_GraphOK(deps, vec, st)
C10_WalkEnds == <>(pc = "done")
=============================================================================
