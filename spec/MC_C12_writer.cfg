CONSTANTS B = 4
  P = 8
  Sizes = {0, 1, 3, 4, 5, 8, 9}
  MaxAttempts = 3
  CfgStdout = FALSE
  CfgOutput = FALSE
  FixDone = TRUE
  FixDrain = TRUE
  FixHandover = TRUE
  WriteCalls = TRUE
  FixFlushAll = TRUE
SPECIFICATION Spec
INVARIANTS C12_Log C12_NothingLost
PROPERTY Finishes
CHECK_DEADLOCK FALSE
