CONSTANTS NOut = 3
  NErr = 3
  Cap = 2
  Lock = FALSE
SPECIFICATION Spec
INVARIANTS C12_LogComplete C11_CaptureIsStdout
PROPERTY Finishes
CHECK_DEADLOCK FALSE
