---------------------------- MODULE ApiControl ----------------------------
(* C20 and C18.  The control surface of the web API (frontend/dag/handler.go postAction, createDAG,
   deleteDAG) over client.Client and the two stores, as a state machine over an abstract state
       st = [defs  : name -> text id or "absent"        DAG definitions (local/dag_store.go)
             runs  : name -> sequence of [req, status, nodes]   recorded history (jsondb), start order
             susp  : name -> BOOLEAN                     suspend flags
             live  : name -> request id or "none"        a process of that run is serving /status now]
   An action is a record [op, d, ...]; Step(st, a) = [resp, st, spawn, stops]: the response class
   ("ok" / "refused"), the new state, the command lines spawned and the stop requests sent to the live
   process.  The exhaustive model (MCApi) wraps Step in \E over small argument sets; ApiObserve replays
   the actions logged by the rig on the real handlers and compares.
   The GUARANTEES (C20_OK, C18_OK) are written over <<pre, action, response, post, spawn, stops>> tuples,
   independently of Step, and are evaluated both on the model's transitions and on the real ones.      *)
EXTENDS Integers, Sequences, FiniteSets, TLC

CONSTANTS Names,       \* DAG ids
          Steps        \* step names that a mark action may address
ValidTexts   == {"A", "B", "C", "D", "T", "E"}   \* "T" = the template a new DAG is created with, "E" = the empty text (the loader accepts it)
IsValidText(t) == t \in ValidTexts
\* the steps (among Steps) that a text defines: A and B define s1, s2; C puts a step s0 in front of them; D lists s2 before s1;
\* the template and the empty text define none of them.  A recorded run keeps the steps of the text it was recorded under:
\* run.nodes[s] = "absent" for a step the run does not have.
TextSteps(t) == IF t \in {"A", "B", "D"} THEN {"s1", "s2"} ELSE IF t = "C" THEN {"s0", "s1", "s2"} ELSE {}
NodesOf(t, f(_)) == [s \in Steps |-> IF s \in TextSteps(t) THEN f(s) ELSE "absent"]
RUNNING == "running"  FAILED == "failed"  FINISHED == "finished"  CANCELED == "canceled"

Exists(st, d) == d \in Names /\ st.defs[d] # "absent"
Running(st, d) == d \in Names /\ st.live[d] # "none"
RunIdx(st, d, r) == {i \in DOMAIN st.runs[d] : st.runs[d][i].req = r}
Resp(r, st, sp, k) == [resp |-> r, st |-> st, spawn |-> sp, stops |-> k]
Refuse(st) == Resp("refused", st, <<>>, 0)

Mark(st, a, to) ==
  IF ~Exists(st, a.d) \/ a.req = "" \/ a.step = "" \/ Running(st, a.d) \/ RunIdx(st, a.d, a.req) = {} \/ a.step \notin Steps
    THEN Refuse(st)
  ELSE IF \A i \in RunIdx(st, a.d, a.req) : st.runs[a.d][i].nodes[a.step] = "absent"   \* the recorded run has no such step
    THEN Refuse(st)
  ELSE LET i == CHOOSE i \in RunIdx(st, a.d, a.req) : TRUE
           run == st.runs[a.d][i]
           run2 == [run EXCEPT !.nodes[a.step] = to,
                               !.status = IF @ = RUNNING THEN FAILED ELSE @]   \* a run still recorded as running whose process is gone
       IN Resp("ok", [st EXCEPT !.runs[a.d][i] = run2], <<>>, 0)

Step(st, a) ==
  CASE a.op = "start" ->
         IF ~Exists(st, a.d) \/ Running(st, a.d) THEN Refuse(st)
         ELSE Resp("ok", st, <<[cmd |-> "start", d |-> a.d, arg |-> a.params]>>, 0)
    [] a.op = "stop" ->
         IF ~Exists(st, a.d) \/ ~Running(st, a.d) THEN Refuse(st) ELSE Resp("ok", st, <<>>, 1)
    [] a.op = "retry" ->
         IF ~Exists(st, a.d) \/ a.req = "" THEN Refuse(st)
         ELSE Resp("ok", st, <<[cmd |-> "retry", d |-> a.d, arg |-> a.req]>>, 0)
    [] a.op = "suspend" ->
         IF ~Exists(st, a.d) THEN Refuse(st) ELSE Resp("ok", [st EXCEPT !.susp[a.d] = (a.value = "true")], <<>>, 0)
    [] a.op = "mark-success" -> Mark(st, a, FINISHED)
    [] a.op = "mark-failed"  -> Mark(st, a, FAILED)
    [] a.op = "save" ->
         IF ~Exists(st, a.d) \/ ~IsValidText(a.value) THEN Refuse(st)
         ELSE Resp("ok", [st EXCEPT !.defs[a.d] = a.value], <<>>, 0)
    [] a.op = "rename" ->
         IF ~Exists(st, a.d) \/ a.value = "" \/ a.value \notin Names \/ (a.value # a.d /\ Exists(st, a.value)) THEN Refuse(st)
         ELSE IF a.value = a.d THEN Resp("ok", st, <<>>, 0)
         ELSE Resp("ok", [st EXCEPT !.defs[a.value] = st.defs[a.d], !.defs[a.d] = "absent",
                                    !.runs[a.value] = st.runs[a.d], !.runs[a.d] = <<>>], <<>>, 0)
    [] a.op = "create" ->
         IF a.d \notin Names \/ Exists(st, a.d) THEN Refuse(st)
         ELSE Resp("ok", [st EXCEPT !.defs[a.d] = "T"], <<>>, 0)
    [] a.op = "delete" ->
         IF ~Exists(st, a.d) THEN Refuse(st)
         ELSE Resp("ok", [st EXCEPT !.defs[a.d] = "absent", !.runs[a.d] = <<>>], <<>>, 0)
    [] OTHER -> Refuse(st)                          \* unknown action, missing action

-----------------------------------------------------------------------------
(* ---- the guarantees, over observed tuples ---- *)
Core(st) == [defs |-> st.defs, runs |-> st.runs, susp |-> st.susp]
Unchanged(pre, post) == Core(pre) = Core(post)
Accepted(resp) == resp = "ok"
Malformed(a) == \/ a.op \notin {"start", "stop", "retry", "suspend", "mark-success", "mark-failed", "save", "rename", "create", "delete"}
                \/ a.op \in {"mark-success", "mark-failed"} /\ (a.req = "" \/ a.step = "")
                \/ a.op = "retry" /\ a.req = ""
                \/ a.op = "rename" /\ a.value = ""

\* exactly the addressed node of the addressed run changed (plus the running -> failed relabel of that run)
OnlyThatNode(pre, post, a, to) ==
  /\ post.defs = pre.defs /\ post.susp = pre.susp
  /\ \A n \in Names : n # a.d => post.runs[n] = pre.runs[n]
  /\ Len(post.runs[a.d]) = Len(pre.runs[a.d])
  /\ \A i \in DOMAIN pre.runs[a.d] :
       LET p == pre.runs[a.d][i]  q == post.runs[a.d][i] IN
       IF p.req # a.req THEN q = p
       ELSE /\ q.req = p.req
            /\ q.status \in {p.status} \cup (IF p.status = RUNNING THEN {FAILED} ELSE {})
            /\ \A s \in Steps : q.nodes[s] = (IF s = a.step THEN to ELSE p.nodes[s])

C20_Clauses(pre, a, resp, post, spawn, stops) ==
  (IF a.op = "start" /\ Running(pre, a.d) /\ (Accepted(resp) \/ spawn # <<>>) THEN {"C20_StartWhileRunning"} ELSE {})
  \cup (IF a.op = "stop" /\ ~Running(pre, a.d) /\ (Accepted(resp) \/ stops > 0) THEN {"C20_StopWhileNotRunning"} ELSE {})
  \cup (IF a.op \in {"mark-success", "mark-failed"} /\ Running(pre, a.d) /\ (Accepted(resp) \/ ~Unchanged(pre, post)) THEN {"C20_EditWhileRunning"} ELSE {})
  \cup (IF ~Accepted(resp) /\ (~Unchanged(pre, post) \/ spawn # <<>> \/ stops > 0) THEN {"C20_RefusedActionChangedSomething"} ELSE {})
  \cup (IF Malformed(a) /\ (Accepted(resp) \/ ~Unchanged(pre, post) \/ spawn # <<>>) THEN {"C20_MalformedActionAccepted"} ELSE {})
  \cup (IF a.op \in {"mark-success", "mark-failed"} /\ Accepted(resp) /\ ~Malformed(a) /\ ~Running(pre, a.d)
           /\ ~OnlyThatNode(pre, post, a, IF a.op = "mark-success" THEN FINISHED ELSE FAILED)
          THEN {"C20_EditChangedMoreOrLess"} ELSE {})
  \cup (IF a.op = "start" /\ Accepted(resp) /\ ~Running(pre, a.d)
           /\ ~(Len(spawn) = 1 /\ spawn[1].cmd = "start" /\ spawn[1].d = a.d /\ spawn[1].arg = a.params /\ Unchanged(pre, post))
          THEN {"C20_StartNotPassedThrough"} ELSE {})
  \cup (IF a.op \in {"start", "stop", "retry"} /\ ~Unchanged(pre, post) THEN {"C20_ControlActionChangedRecords"} ELSE {})

C18_Clauses(pre, a, resp, post) ==
  (IF a.op = "create" /\ a.d \in Names /\ Exists(pre, a.d) /\ ~Unchanged(pre, post) THEN {"C18_CreateOverwrote"} ELSE {})
  \cup (IF a.op = "rename" /\ a.value \in Names /\ a.value # a.d /\ Exists(pre, a.value)
           /\ (post.defs[a.value] # pre.defs[a.value] \/ post.runs[a.value] # pre.runs[a.value]) THEN {"C18_RenameOverwrote"} ELSE {})
  \cup (IF a.op = "save" /\ ~IsValidText(a.value) /\ ~Unchanged(pre, post) THEN {"C18_InvalidSaveChanged"} ELSE {})
  \cup (IF a.op = "save" /\ Accepted(resp) /\ a.d \in Names /\ post.defs[a.d] # a.value THEN {"C18_SaveNotStored"} ELSE {})
  \cup (IF a.op = "save" /\ a.d \in Names /\ post.defs[a.d] \notin {pre.defs[a.d], a.value} THEN {"C18_SaveLeftPartialText"} ELSE {})
  \cup (IF a.op = "rename" /\ Accepted(resp) /\ a.value \in Names /\ a.value # a.d /\ Exists(pre, a.d) /\ ~Exists(pre, a.value)
           /\ (post.defs[a.value] # pre.defs[a.d] \/ post.runs[a.value] # pre.runs[a.d] \/ post.defs[a.d] # "absent" \/ post.runs[a.d] # <<>>)
          THEN {"C18_RenameLostDefinitionOrHistory"} ELSE {})
  \cup (IF a.op = "rename" /\ Accepted(resp) /\ a.value = a.d /\ ~Unchanged(pre, post) THEN {"C18_RenameLostDefinitionOrHistory"} ELSE {})
  \cup (IF a.op = "delete" /\ Accepted(resp) /\ a.d \in Names /\ (post.defs[a.d] # "absent" \/ post.runs[a.d] # <<>>) THEN {"C18_DeleteLeftSomething"} ELSE {})
  \cup (IF a.op \in {"create", "rename", "delete", "save"}
           /\ \E n \in Names : n # a.d /\ ~(a.op = "rename" /\ n = a.value)
                                /\ (post.defs[n] # pre.defs[n] \/ post.runs[n] # pre.runs[n] \/ post.susp[n] # pre.susp[n])
          THEN {"C18_OtherDagTouched"} ELSE {})
=============================================================================
