CONSTANTS Excl = FALSE
SPECIFICATION Spec
INVARIANTS C18_OneWinner
PROPERTIES C18_NeverOverwritten
CHECK_DEADLOCK FALSE
