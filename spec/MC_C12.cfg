CONSTANTS B = 4
  P = 8
  Sizes = {0, 1, 3, 4, 5, 8, 9}
  MaxAttempts = 3
  CfgStdout = TRUE
  CfgOutput = TRUE
  FixDone = TRUE
  FixDrain = TRUE
SPECIFICATION Spec
INVARIANTS C12_LogUnlessRaced C12_NothingLostUnlessRaced
PROPERTY Finishes
CHECK_DEADLOCK FALSE
