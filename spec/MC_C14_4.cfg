CONSTANT N = 4
SPECIFICATION Spec
INVARIANTS C14_VerdictCorrect C14_NoEffectsWhenRefused
PROPERTY C14_Terminates
CHECK_DEADLOCK FALSE
