--------------------------- MODULE MCHistoryConc ---------------------------
(* HistoryConc with a history of the steps taken (schedules for replay on the real jsondb through the gates of the
   verif build) and a deterministic last step for the simulator.                                                   *)
EXTENDS HistoryConc, Json
VARIABLES steps, fin
mvars == <<vars, steps, fin>>
S(a) == steps' = Append(steps, [a |-> a, r |-> ""])
MInit == Init /\ steps = <<>> /\ fin = FALSE
Finish == ~fin /\ qpc = "done" /\ fin' = TRUE /\ UNCHANGED <<vars, steps>>
MStep == /\ ~fin /\ UNCHANGED fin
         /\ \/ (CCreate /\ S("ccreate")) \/ (CWrite /\ S("cwrite")) \/ (CUnlink /\ S("cunlink"))
            \/ (Open2 /\ S("open2")) \/ (Write2 /\ S("write2"))
            \/ (List /\ S("list")) \/ (Visit /\ S("visit")) \/ (Return /\ S("return"))
MNext == Finish \/ MStep
MSpec == MInit /\ [][MNext]_mvars
EmitBehaviour == fin => PrintT("BEHAVIOUR " \o ToJson([steps |-> steps, n |-> N]))
=============================================================================
