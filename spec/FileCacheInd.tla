---------------------------- MODULE FileCacheInd ----------------------------
(* C06, the status cache for ANY number of writes and queries: an inductive invariant of FileCache.tla, discharged by
   Apalache (symbolic, integers unbounded):
       apalache-mc check --cinit=ConstInit --init=CInit   --next=CNext --inv=IndInv --length=0 FileCacheInd.tla
       apalache-mc check --cinit=ConstInit --init=IndInit --next=CNext --inv=IndInv --length=1 FileCacheInd.tla
   IndInv implies C06_QueryFresh (its conjunct on ret), C06_QueryNeverPanics and C06_EntryNotOlderThanStamp.  Three
   concurrent queries; MaxVer and MaxQueries are arbitrary naturals.  With ConstInitOld (the code before 685493d) and
   ConstInitRestat (seed C06-d) the inductive step fails; NotVacuous fails from IndInit (so IndInit is satisfiable).
   TLC cannot load this module (the Apalache module is not on its path); FileCache.tla carries the type annotations as
   comments only.                                                                                                   *)
EXTENDS FileCache, Apalache

\* ---- an inductive invariant (Apalache: Init => IndInv, IndInv /\ Next => IndInv'), for any number of versions and queries
ConstInit == /\ Readers = {"q1", "q2", "q3"} /\ MaxVer \in Nat /\ MaxQueries \in Nat
             /\ ReturnChecked = TRUE /\ RestatAfterLoad = FALSE
Rec == [data: Int, stamp: Int]
IndInv ==
  /\ ver >= 0 /\ ~panicked /\ upc \in {"idle", "wrote"}
  /\ entry = None \/ (0 <= entry.stamp /\ entry.stamp <= entry.data /\ entry.data <= ver)
  /\ \A r \in Readers :
       /\ pc[r] \in {"idle", "checked", "loaded"}
       /\ nq[r] >= 0
       /\ ret[r][2] >= ret[r][1]
       /\ pc[r] \in {"checked", "loaded"} => began[r] = stamp[r] /\ 0 <= stamp[r] /\ stamp[r] <= ver
       /\ pc[r] = "checked" /\ ~stale[r] => seen[r] # None /\ seen[r].stamp = stamp[r] /\ seen[r].data >= seen[r].stamp
       /\ pc[r] = "loaded" => stale[r] /\ stamp[r] <= data[r] /\ data[r] <= ver
Dom == /\ DOMAIN pc = Readers /\ DOMAIN seen = Readers /\ DOMAIN stale = Readers /\ DOMAIN stamp = Readers /\ DOMAIN data = Readers
       /\ DOMAIN began = Readers /\ DOMAIN ret = Readers /\ DOMAIN nq = Readers
IndInit ==
  /\ ver = Gen(1) /\ entry = Gen(1)
  /\ pc = Gen(3) /\ seen = Gen(3) /\ stale = Gen(3) /\ stamp = Gen(3) /\ data = Gen(3) /\ began = Gen(3)
  /\ ret = Gen(3) /\ nq = Gen(3)
  /\ upc = Gen(1) /\ recording = Gen(1) /\ panicked = Gen(1)
  /\ Dom /\ IndInv
ConstInitOld == /\ Readers = {"q1", "q2", "q3"} /\ MaxVer \in Nat /\ MaxQueries \in Nat
                /\ ReturnChecked = FALSE /\ RestatAfterLoad = FALSE
ConstInitRestat == /\ Readers = {"q1", "q2", "q3"} /\ MaxVer \in Nat /\ MaxQueries \in Nat
                   /\ ReturnChecked = TRUE /\ RestatAfterLoad = TRUE
NotVacuous == ~(ver = 5 /\ \E r \in Readers : pc[r] = "loaded")
=============================================================================
