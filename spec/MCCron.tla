---------------------------- MODULE MCCron ----------------------------
EXTENDS CronDaemon
MCDags == {"a", "b"}
MCScheds == [d \in MCDags |-> IF d = "a" THEN <<{0, 1, 2, 3}, {1, 3}>> ELSE <<{2}>>]
Bound == Len(starts) <= 4
MCDags1 == {"a"}
MCScheds1 == [d \in MCDags1 |-> <<{0, 1, 2, 3}, {1, 3}>>]
=============================================================================
