---------------------------- MODULE HistoryTrace ----------------------------
(* Trace validation of the real jsondb against History.tla (C06).  One event per operation executed
   on the real store (vh hist): the operation with its arguments, then the answers of all three
   queries for every DAG and every request id.  The model state is advanced with the SAME action
   the exhaustive model uses, and every logged answer is compared with the query operators.
   Several scenarios are concatenated; a "Reset" event starts a new one.                        *)
EXTENDS History, Json

CONSTANT TraceFile
Trace == ndJsonDeserialize(TraceFile)
VARIABLES l, c, viol, nscen
tvars == <<runs, open, l, c, viol, nscen>>
E == Trace[l]

Rng(seq) == {seq[i] : i \in DOMAIN seq}
TInit == Init /\ l = 1 /\ c = [none |-> TRUE] /\ viol = {} /\ nscen = 0

Reset == /\ E.ev = "Reset" /\ c' = E /\ runs' = <<>> /\ open' = NoRun /\ viol' = {} /\ nscen' = nscen + 1

Apply(e) ==
  CASE e.op = "Open"      -> IF e.r \in Reqs THEN UNCHANGED hvars ELSE Open(e.d, e.r, e.ts)
    [] e.op = "Write"     -> IF open = NoRun THEN UNCHANGED hvars ELSE Write(e.st)
    [] e.op = "Close"     -> Close
    [] e.op = "Update"    -> Update(e.d, e.r, e.st)
    [] e.op = "Rename"    -> Rename(e.d, e.to)
    [] e.op = "RemoveOld" -> RemoveOld(e.d, e.days)
    [] e.op = "RemoveAll" -> RemoveAll(e.d)
    [] e.op = "SetAge"    -> IF e.r \in Reqs THEN SetAge(e.r, e.age) ELSE UNCHANGED hvars

\* compare the answers logged after the operation with the model's (evaluated in the NEW state)
SameSecondTwin(d) == \E r, q \in {x \in DOMAIN runs' : runs'[x].dag = d} : r # q /\ c.sec[runs'[r].ts] = c.sec[runs'[q].ts]
BadAnswers(e) ==
  LET rs == runs'
      RunsOfN(d) == {r \in DOMAIN rs : rs[r].dag = d}
      HasN(r) == rs[r].st # <<>>
      LastN(r) == rs[r].st[Len(rs[r].st)]
      NewestN(S) == CHOOSE r \in S : \A q \in S : rs[q].ts <= rs[r].ts
      FindN(d, r) == IF r \in RunsOfN(d) /\ HasN(r) THEN LastN(r) ELSE "notfound"
      LatestN(d, todayOnly) == LET S == {r \in RunsOfN(d) : ~todayOnly \/ rs[r].ts >= TodayFrom} IN
                               IF S = {} THEN {"nodata"} ELSE IF HasN(NewestN(S)) THEN {LastN(NewestN(S))} ELSE {"any"}
  IN UNION { (IF \E r \in DOMAIN e.ans[d].find : e.ans[d].find[r] # FindN(d, r) THEN {"C06_LookupWrong"} ELSE {})
             \cup (IF "any" \notin LatestN(d, c.todayOnly) /\ e.ans[d].latest \notin LatestN(d, c.todayOnly) THEN {"C06_LatestWrong"} ELSE {})
           : d \in DOMAIN e.ans }
RecentBad(e) ==
  LET rs == runs'
      RunsOfN(d) == {r \in DOMAIN rs : rs[r].dag = d}
      HasN(r) == rs[r].st # <<>>
      LastN(r) == rs[r].st[Len(rs[r].st)]
      RECURSIVE Top(_, _)
      Top(S, n) == IF n = 0 \/ S = {} THEN <<>>
                   ELSE LET r == CHOOSE x \in S : \A q \in S : rs[q].ts <= rs[x].ts IN <<r>> \o Top(S \ {r}, n - 1)
      RecentN(d, n) == LET top == Top({r \in RunsOfN(d) : HasN(r)}, n) IN [i \in DOMAIN top |-> LastN(top[i])]
  IN UNION { (IF e.ans[d].recent1 # RecentN(d, 1) \/ e.ans[d].recent2 # RecentN(d, 2) \/ e.ans[d].recent9 # RecentN(d, 9)
                THEN {"C06_RecentWrong"} ELSE {})
           : d \in DOMAIN e.ans }

OpEv == /\ E.ev = "Op"
        /\ Apply(E)
        /\ LET b == BadAnswers(E) \cup RecentBad(E) \cup (IF E.err /\ E.op \notin {"Update"} THEN {"C06_OperationFailed"} ELSE {}) IN
           /\ viol' = viol \cup b
           /\ b # {} /\ b \ viol # {} => PrintT("DETAIL " \o ToJson([scen |-> c.scen, line |-> l, viol |-> b, op |-> E,
                                                 sameSecond |-> \E d \in DOMAIN E.ans : SameSecondTwin(d)]))
        /\ UNCHANGED <<c, nscen>>
EndEv == /\ E.ev = "End" /\ UNCHANGED <<runs, open, c, viol, nscen>>
         /\ PrintT("VERDICT " \o ToJson([scen |-> c.scen, viol |-> viol, names |-> c.names, todayOnly |-> c.todayOnly, src |-> c.src]))

TNext == /\ l <= Len(Trace) /\ l' = l + 1 /\ (Reset \/ OpEv \/ EndEv)
TSpec == TInit /\ [][TNext]_tvars
Emit == (l = Len(Trace) + 1) => PrintT("CONSUMED " \o ToString(Len(Trace)) \o " scenarios " \o ToString(nscen))
=============================================================================
