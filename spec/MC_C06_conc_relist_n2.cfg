CONSTANTS R = 2
  N = 2
  Find = FALSE
  Lock = TRUE
  WithUpdate = FALSE
  Relist = TRUE
  MaxRelist = 3
SPECIFICATION Spec
INVARIANTS C06_QueryLinearizable C06_ClosingRunIsShown
CHECK_DEADLOCK FALSE
