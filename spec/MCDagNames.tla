----------------------------- MODULE MCDagNames -----------------------------
(* DagNames with a history of the steps taken (schedules for replay on the real DAG store through the gates of the
   verif build) and a deterministic last step for the simulator. *)
EXTENDS DagNames, Json
VARIABLES steps, fin
mvars == <<vars, steps, fin>>
S(a, r) == steps' = Append(steps, [a |-> a, r |-> r])
MInit == Init /\ steps = <<>> /\ fin = FALSE
Quiet == \A a \in Actors : pc[a] \in {"ok", "refused"}
Finish == ~fin /\ Quiet /\ fin' = TRUE /\ UNCHANGED <<vars, steps>>
MStep == /\ ~fin /\ UNCHANGED fin
         /\ \/ \E a \in Actors : Check(a) /\ S("check", a)
            \/ \E a \in Creators : CreateAct(a) /\ S("act", a)
            \/ (RenameAct /\ S("act", Renamer))
            \/ (Save /\ S("save", ""))
MNext == Finish \/ MStep
MSpec == MInit /\ [][MNext]_mvars
EmitBehaviour == fin => PrintT("BEHAVIOUR " \o ToJson([steps |-> steps]))
=============================================================================
