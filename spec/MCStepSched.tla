---------------------------- MODULE MCStepSched ----------------------------
(* Exhaustive and simulation configurations for StepSched (one cfg file per property).
   Adds two output-only history variables that no guard reads:
     mv   the gate-controller move that corresponds to the last action
          ("L", "W:2", "T:2", "S", "P:2:ok", "PH", "stop", "kill", "timeout")
     hist the sequence of moves so far - a behaviour of the model in the vocabulary the
          harness replays into the real scheduler (vh sched -scenarios ..., driveMoves).
   Both are hidden from the state fingerprint by VIEW MCView.                            *)
EXTENDS StepSched, Json

VARIABLES mv, hist
mcvars == <<vars, mv, hist>>
MCView == vars

Mv(m) == mv' = m /\ hist' = Append(hist, m)

MCInit == Init /\ mv = "init" /\ hist = <<>>
MCNext ==
  \/ (LStart \/ LTop \/ LVisit \/ LLaunch \/ LWgWait \/ LHandler \/ LHCreated) /\ Mv("L")
  \/ LHExit /\ Mv("PH")
  \/ \E s \in Steps :
       \/ (WBegin(s) \/ WExec(s) \/ WStart(s) \/ WPost(s) \/ WRetryWake(s) \/ WRepeatWake(s)) /\ Mv("W:" \o ToString(s))
       \/ WTail(s) /\ Mv("T:" \o ToString(s))
       \/ WExit(s) /\ Mv("P:" \o ToString(s) \o (IF res'[s] = "ok" THEN ":ok" ELSE ":fail"))
  \/ SCall /\ Mv("stop")
  \/ SKillCall /\ Mv("kill")
  \/ (SFlagged \/ SNode) /\ Mv("S")
  \/ TFire /\ Mv("timeout")
MCSpec == MCInit /\ [][MCNext]_mcvars
MCFairSpec == MCSpec /\ WF_vars(Loop) /\ WF_vars(Stop) /\ WF_vars(TFire)
                 /\ \A s \in Steps : WF_vars(WorkerCtl(s)) /\ WF_vars(MustExit(s) /\ WExit(s))

\* a finished behaviour: Schedule returned, no goroutine left, no Signal call in flight
Quiet == Returned /\ (\A s \in Steps : tails[s] = 0 /\ wpc[s] = "idle") /\ spc \in {"idle", "between", "done"}
EmitBehaviour == Quiet => PrintT("BEHAVIOUR " \o ToJson([cfg |-> cfg, moves |-> hist]))

\* a model counter-example is only a lead: it is printed as a replayable scenario (cfg + moves) and the
\* harness forces it onto the real scheduler; the verdict comes from the monitors on the recorded trace
Lead(ok) == ok \/ (PrintT("LEAD " \o ToJson([cfg |-> cfg, moves |-> hist])) /\ FALSE)
Lead_C03_NoGhost       == Lead(C03_NoGhost)
Lead_C04_HandlerLog    == Lead(C04_HandlerLog)
Lead_C04_Outcome       == Lead(C04_Outcome)
Lead_C04_NoRunningLeft == Lead(C04_NoRunningLeft)
Lead_C05_NoLateStart   == Lead(C05_NoLateStart)
Lead_C05_KillReaches   == Lead(C05_KillReaches)
Lead_C05_TermReaches   == Lead(C05_TermReaches)

F(x) == [s \in Steps |-> x]
Base == [deps |-> F({}), contF |-> F(FALSE), contS |-> F(FALSE), rlimit |-> F(0),
         pcond |-> F("none"), repeat |-> F(FALSE), obeys |-> F(TRUE), maxActive |-> 0,
         handlers |-> {}, hfail |-> {}, stop |-> FALSE, kill |-> FALSE, timeout |-> FALSE,
         doneChan |-> TRUE, dry |-> FALSE]

Acyclic(d) == \E r \in [Steps -> 1..N] : \A s \in Steps : \A p \in d[s] : r[p] < r[s]
AllDeps    == {d \in [Steps -> SUBSET Steps] : Acyclic(d)}
Chain   == [s \in Steps |-> IF s = 1 THEN {} ELSE {s - 1}]
Join    == [s \in Steps |-> IF s = N THEN 1..(N-1) ELSE {}]
Fork    == [s \in Steps |-> IF s = 1 THEN {} ELSE {1}]
RevJoin == [s \in Steps |-> IF s = 1 THEN 2..N ELSE {}]
RevChain == [s \in Steps |-> IF s = N THEN {} ELSE {s + 1}]
QuickDeps == {F({}), Chain, Join, Fork, RevJoin}
Only(i, a, b) == [s \in Steps |-> IF s = i THEN a ELSE b]

\* ---- family "order": C01 C02 C03 C15 without stop
OrderQuick ==
  {[Base EXCEPT !.deps = d, !.contF = cf, !.contS = cs, !.pcond = pc, !.rlimit = rl, !.maxActive = m, !.doneChan = dc]
     : d \in QuickDeps, cf \in {F(FALSE), Only(1, TRUE, FALSE)}, cs \in {F(FALSE), F(TRUE)},
       pc \in {F("none"), Only(1, "unmet", "none")},
       rl \in {F(0), Only(2, 1, 0)},
       m \in {0, 1}, dc \in BOOLEAN}
OrderFull ==
  {[Base EXCEPT !.deps = d, !.contF = cf, !.contS = cs, !.pcond = pc, !.rlimit = rl, !.maxActive = m, !.doneChan = dc]
     : d \in AllDeps, cf \in [Steps -> BOOLEAN], cs \in {F(FALSE), F(TRUE), Only(1, TRUE, FALSE)},
       pc \in {F("none"), Only(1, "unmet", "none"), Only(2, "unmet", "met")},
       rl \in {F(0), Only(2, 1, 0), Only(1, 2, 0)},
       m \in {0, 1, 2}, dc \in BOOLEAN}
\* C15: width x limit (k = 1 .. width+1) with retries
LimitQuick ==
  {[Base EXCEPT !.deps = d, !.rlimit = rl, !.maxActive = m, !.doneChan = dc]
     : d \in {F({}), Fork, Join}, rl \in {F(0), Only(2, 1, 0)}, m \in 0..(N + 1), dc \in BOOLEAN}
LimitFull ==
  {[Base EXCEPT !.deps = d, !.rlimit = rl, !.maxActive = m, !.contF = cf, !.doneChan = dc]
     : d \in AllDeps, rl \in {F(0), Only(2, 1, 0), F(1), Only(1, 2, 0)}, m \in 0..(N + 1),
       cf \in {F(FALSE), F(TRUE)}, dc \in BOOLEAN}
\* C03: retry limit 0..2 on every position (k below / at / above the limit is the free choice of WExit)
RetryQuick ==
  {[Base EXCEPT !.deps = d, !.rlimit = rl, !.maxActive = m, !.doneChan = dc, !.dry = dr]
     : d \in {F({}), Chain, Join}, rl \in {F(0), Only(1, 2, 0), Only(2, 1, 0), F(1)}, m \in {0, 1, 2},
       dc \in BOOLEAN, dr \in BOOLEAN}
RetryFull ==
  {[Base EXCEPT !.deps = d, !.rlimit = rl, !.maxActive = m, !.doneChan = dc, !.dry = dr, !.contF = cf]
     : d \in AllDeps, rl \in {F(0), Only(1, 2, 0), Only(2, 1, 0), Only(3, 2, 0), F(1)}, m \in {0, 1, 2},
       dc \in BOOLEAN, dr \in BOOLEAN, cf \in {F(FALSE), F(TRUE)}}

\* ---- family "outcome": C04 handlers with and without stop
AllH == {"success", "failure", "cancel", "exit"}
OutcomeQuick ==
  {[Base EXCEPT !.deps = d, !.contF = cf, !.handlers = h, !.hfail = hf, !.stop = st, !.rlimit = rl]
     : d \in {F({}), Chain}, cf \in {F(FALSE), Only(1, TRUE, FALSE)},
       h \in {AllH, {"exit"}, {"failure", "cancel"}, {}}, hf \in {{}, {"failure"}}, st \in BOOLEAN,
       rl \in {F(0)}}
OutcomeNoStopQuick ==
  {[Base EXCEPT !.deps = d, !.contF = cf, !.handlers = h, !.hfail = hf, !.doneChan = dc]
     : d \in {F({}), Chain, Join}, cf \in {F(FALSE), Only(1, TRUE, FALSE)},
       h \in {AllH, {"exit"}, {"failure", "cancel"}, {"success"}, {"success", "exit"}, {}}, hf \in {{}, {"failure", "exit"}},
       dc \in BOOLEAN}
OutcomeNoStop ==
  {[Base EXCEPT !.deps = d, !.contF = cf, !.handlers = h, !.hfail = hf, !.rlimit = rl, !.pcond = pc, !.doneChan = dc]
     : d \in QuickDeps, cf \in {F(FALSE), Only(1, TRUE, FALSE), F(TRUE)},
       h \in SUBSET AllH, hf \in {{}, {"failure"}, {"exit"}, {"success", "cancel"}},
       rl \in {F(0), Only(1, 1, 0)},
       pc \in {F("none"), Only(2, "unmet", "none")}, dc \in BOOLEAN}
OutcomeFull ==
  {[Base EXCEPT !.deps = d, !.contF = cf, !.handlers = h, !.hfail = hf, !.stop = st, !.rlimit = rl, !.pcond = pc]
     : d \in QuickDeps, cf \in {F(FALSE), Only(1, TRUE, FALSE), F(TRUE)},
       h \in SUBSET AllH, hf \in {{}, {"failure"}, {"exit"}, {"success", "cancel"}}, st \in BOOLEAN,
       rl \in {F(0), Only(1, 1, 0)},
       pc \in {F("none"), Only(2, "unmet", "none")}}

\* thorough: three steps in a chain with a stop request at any point, every handler subset that matters
OutcomeStop3 ==
  {[Base EXCEPT !.deps = d, !.contF = cf, !.handlers = h, !.hfail = hf, !.stop = TRUE]
     : d \in {Chain, Fork, Join, F({})}, cf \in {F(FALSE), Only(1, TRUE, FALSE)},
       h \in {AllH, {"exit"}, {"failure", "cancel"}}, hf \in {{}, {"failure"}}}

\* ---- family "stop": C05 (stop at any point, obeying / ignoring processes, kill escalation, repeat, timeout)
StopQuick ==
  {[Base EXCEPT !.deps = d, !.stop = TRUE, !.kill = k, !.obeys = ob, !.rlimit = rl, !.maxActive = m,
                !.handlers = {"cancel", "exit"}, !.repeat = rp]
     : d \in {F({}), Chain}, k \in BOOLEAN, ob \in {F(TRUE), F(FALSE)},
       rl \in {F(0), Only(1, 1, 0)}, m \in {0, 1},
       rp \in {F(FALSE), Only(N, TRUE, FALSE)}}
\* thorough (N = 3): sequential shapes with everything, parallel shapes without retry
StopFull ==
  {[Base EXCEPT !.deps = d, !.stop = TRUE, !.kill = k, !.obeys = ob, !.rlimit = rl, !.maxActive = m,
                !.handlers = h, !.repeat = rp, !.doneChan = dc]
     : d \in {Chain, RevChain}, k \in BOOLEAN, ob \in {F(TRUE), F(FALSE), Only(1, FALSE, TRUE)},
       rl \in {F(0), Only(1, 1, 0)}, m \in {0, 1}, h \in {{"cancel", "exit"}, {}},
       rp \in {F(FALSE), Only(N, TRUE, FALSE)}, dc \in BOOLEAN}
  \cup
  {[Base EXCEPT !.deps = d, !.stop = TRUE, !.kill = k, !.obeys = ob, !.maxActive = m, !.handlers = {"cancel"}]
     : d \in {Fork, Join}, k \in BOOLEAN, ob \in {F(TRUE), F(FALSE)}, m \in {0, 1}}
TimeoutQuick ==
  {[Base EXCEPT !.deps = d, !.timeout = TRUE, !.handlers = {"failure", "cancel", "exit"}, !.rlimit = rl]
     : d \in {F({}), Chain, Join}, rl \in {F(0), Only(1, 1, 0)}}
StopTimeoutQuick == StopQuick \cup TimeoutQuick
\* small configurations for the liveness clauses (the liveness graph is the expensive part)
LiveStop ==
  {[Base EXCEPT !.deps = d, !.stop = TRUE, !.kill = TRUE, !.obeys = ob, !.handlers = {"cancel"}, !.rlimit = rl]
     : d \in {Chain}, ob \in {F(TRUE), F(FALSE)}, rl \in {F(0), Only(1, 1, 0)}}
LiveLimit ==
  {[Base EXCEPT !.deps = d, !.maxActive = m, !.rlimit = rl]
     : d \in {F({}), Join}, m \in 1..N, rl \in {F(0), Only(1, 1, 0)}}

\* C15 with repeating steps: a repeating step (a leaf: it never ends by itself) next to ordinary steps under a limit; the
\* repeating step may fail an iteration and go on (continueOn.failure); the run is ended by a stop request
RepeatLimit ==
  {[Base EXCEPT !.deps = F({}), !.stop = TRUE, !.kill = k, !.obeys = ob, !.maxActive = m, !.repeat = Only(r, TRUE, FALSE),
                !.contF = cf, !.handlers = h, !.doneChan = dc]
     : r \in {1, N}, k \in {FALSE}, ob \in {F(TRUE), F(FALSE)}, m \in {0, 1, 2},
       cf \in {F(FALSE), F(TRUE)}, h \in {{"cancel", "exit"}}, dc \in BOOLEAN}
Lead_C15_Limit == Lead(C15_Limit)
Lead_C08_Labels == Lead(C08_FinalLabels)

ExecBound == \A s \in Steps : execs[s] <= 3
=============================================================================
