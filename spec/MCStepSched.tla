---------------------------- MODULE MCStepSched ----------------------------
(* Exhaustive configurations for StepSched (one cfg file per property family).        *)
EXTENDS StepSched

F(x) == [s \in Steps |-> x]
Base == [deps |-> F({}), contF |-> F(FALSE), contS |-> F(FALSE), rlimit |-> F(0),
         pcond |-> F("none"), repeat |-> F(FALSE), obeys |-> F(TRUE), maxActive |-> 0,
         handlers |-> {}, hfail |-> {}, stop |-> FALSE, kill |-> FALSE, timeout |-> FALSE,
         doneChan |-> TRUE, dry |-> FALSE]

Acyclic(d) == \E r \in [Steps -> 1..N] : \A s \in Steps : \A p \in d[s] : r[p] < r[s]
AllDeps    == {d \in [Steps -> SUBSET Steps] : Acyclic(d)}
\* one representative family of 3-step shapes for the quick tier
Chain   == [s \in Steps |-> IF s = 1 THEN {} ELSE {s - 1}]
Join    == [s \in Steps |-> IF s = N THEN 1..(N-1) ELSE {}]
Fork    == [s \in Steps |-> IF s = 1 THEN {} ELSE {1}]
RevJoin == [s \in Steps |-> IF s = 1 THEN 2..N ELSE {}]
QuickDeps == {F({}), Chain, Join, Fork, RevJoin}

\* ---- family "order": C01 C02 C03 C15 without stop (all shapes x continueOn x preconditions x retry x maxActive)
OrderQuick ==
  {[Base EXCEPT !.deps = d, !.contF = cf, !.contS = cs, !.pcond = pc, !.rlimit = rl, !.maxActive = m, !.doneChan = dc]
     : d \in QuickDeps, cf \in {F(FALSE), [s \in Steps |-> s = 1], F(TRUE)}, cs \in {F(FALSE), F(TRUE)},
       pc \in {F("none"), [s \in Steps |-> IF s = 1 THEN "unmet" ELSE "none"], [s \in Steps |-> IF s = 2 THEN "unmet" ELSE "met"]},
       rl \in {F(0), [s \in Steps |-> IF s = 2 THEN 1 ELSE 0], [s \in Steps |-> IF s = 1 THEN 2 ELSE 0]},
       m \in {0, 1, 2}, dc \in BOOLEAN}
OrderFull ==
  {[Base EXCEPT !.deps = d, !.contF = cf, !.contS = cs, !.pcond = pc, !.rlimit = rl, !.maxActive = m, !.doneChan = dc]
     : d \in AllDeps, cf \in [Steps -> BOOLEAN], cs \in {F(FALSE), F(TRUE), [s \in Steps |-> s = 1]},
       pc \in {F("none"), [s \in Steps |-> IF s = 1 THEN "unmet" ELSE "none"], [s \in Steps |-> IF s = 2 THEN "unmet" ELSE "met"]},
       rl \in {F(0), [s \in Steps |-> IF s = 2 THEN 1 ELSE 0], [s \in Steps |-> IF s = 1 THEN 2 ELSE 0]},
       m \in {0, 1, 2}, dc \in BOOLEAN}

\* ---- family "outcome": C04 handlers with and without stop
AllH == {"success", "failure", "cancel", "exit"}
OutcomeQuick ==
  {[Base EXCEPT !.deps = d, !.contF = cf, !.handlers = h, !.hfail = hf, !.stop = st, !.rlimit = rl]
     : d \in {F({}), Chain, Join}, cf \in {F(FALSE), [s \in Steps |-> s = 1]},
       h \in {AllH, {"exit"}, {"failure", "cancel"}, {}}, hf \in {{}, {"failure"}}, st \in BOOLEAN,
       rl \in {F(0), [s \in Steps |-> IF s = 1 THEN 1 ELSE 0]}}
OutcomeFull ==
  {[Base EXCEPT !.deps = d, !.contF = cf, !.handlers = h, !.hfail = hf, !.stop = st, !.rlimit = rl, !.pcond = pc]
     : d \in QuickDeps, cf \in {F(FALSE), [s \in Steps |-> s = 1], F(TRUE)},
       h \in SUBSET AllH, hf \in {{}, {"failure"}, {"exit"}, {"success", "cancel"}}, st \in BOOLEAN,
       rl \in {F(0), [s \in Steps |-> IF s = 1 THEN 1 ELSE 0]},
       pc \in {F("none"), [s \in Steps |-> IF s = 2 THEN "unmet" ELSE "none"]}}

\* ---- family "stop": C05 (stop at any point, obeying / ignoring processes, kill escalation, repeat, timeout)
StopQuick ==
  {[Base EXCEPT !.deps = d, !.stop = TRUE, !.kill = k, !.obeys = ob, !.rlimit = rl, !.maxActive = m,
                !.handlers = {"cancel", "exit"}, !.repeat = rp]
     : d \in {F({}), Chain, Join}, k \in BOOLEAN, ob \in {F(TRUE), F(FALSE)},
       rl \in {F(0), [s \in Steps |-> IF s = 1 THEN 1 ELSE 0]}, m \in {0, 1},
       rp \in {F(FALSE), [s \in Steps |-> s = 1]}}
TimeoutQuick ==
  {[Base EXCEPT !.deps = d, !.timeout = TRUE, !.handlers = {"failure", "cancel", "exit"}, !.rlimit = rl]
     : d \in {F({}), Chain, Join}, rl \in {F(0), [s \in Steps |-> IF s = 1 THEN 1 ELSE 0]}}

ExecBound == \A s \in Steps : execs[s] <= 3
=============================================================================
