---------------------------- MODULE ParamsObserve ----------------------------
(* C11: judges records of the parameter / output rig (vh params).
   kind "tok": a string over the five character classes through the REAL parser - compared with the TLA+
               transcription Params!Tokenize (conformance of the model: a difference is drift)
   kind "run": a real DAG started and then retried through the real loader and agent; what every consumer
               (adjacent step, handler, non-adjacent step in the retry, handler in the retry) saw of the
               parameters and of the captured output, compared by the rig with the structure they were
               generated from                                                                          *)
EXTENDS Params, Json
CONSTANT TraceFile
Trace == ndJsonDeserialize(TraceFile)
VARIABLES l, bad
R == Trace[l]
RECURSIVE StringifyAll(_)
StringifyAll(pairs) == IF pairs = <<>> THEN <<>> ELSE <<Stringify(Head(pairs))>> \o StringifyAll(Tail(pairs))
Probes == {"first_1", "exit_1", "after_2", "exit_2", "exit_3"}     \* exit_3: the exit handler of a retry of the retry
OutVars == {"OUTV", "ARG_OUTV"}      \* the captured value as seen in the environment / on the command line
RunClauses(r) ==
  (IF r.infra # "" THEN {"INFRA"} ELSE
   UNION {
     (IF r.probes[p].missing THEN {"C11_ConsumerDidNotRun"} ELSE {})
     \cup (IF \E i \in DOMAIN r.probes[p].bad : r.probes[p].bad[i] \in OutVars
             THEN {IF p \in {"after_2", "exit_2", "exit_3"} THEN "C11_OutputLostInRetry" ELSE "C11_OutputValueWrong"} ELSE {})
     \cup (IF \E i \in DOMAIN r.probes[p].bad : r.probes[p].bad[i] \notin OutVars
             THEN {IF p \in {"after_2", "exit_2", "exit_3"} THEN "C11_RetryParametersDiffer" ELSE "C11_ParameterValueChanged"} ELSE {})
     : p \in Probes })
\* kind "cli": the same through the command layer of the real binary: start -p (as the API's client spawns it), restart of
\* the running DAG (the new run takes the parameters of the previous one), retry of the canceled first run
CliProbes == {"first_1", "first_2", "after_2", "after_3"}
CliClauses(r) ==
  (IF r.infra # "" THEN {"INFRA"} ELSE
   (IF r.run1 # "canceled" \/ r.run2 # "finished" \/ r.runsRecorded # 2 THEN {"C11_RestartDidNotReplaceTheRun"} ELSE {})
   \cup UNION {
     (IF r.probes[p].missing THEN {"C11_ConsumerDidNotRun"} ELSE {})
     \cup (IF \E i \in DOMAIN r.probes[p].bad : r.probes[p].bad[i] \in OutVars
             THEN {IF p = "after_3" THEN "C11_OutputLostInRetry" ELSE "C11_OutputValueWrong"} ELSE {})
     \cup (IF \E i \in DOMAIN r.probes[p].bad : r.probes[p].bad[i] \notin OutVars
             THEN {IF p = "first_1" THEN "C11_StartParametersChanged"
                   ELSE IF p = "after_3" THEN "C11_RetryParametersDiffer" ELSE "C11_RestartParametersDiffer"} ELSE {})
     : p \in CliProbes })
\* kind "stop": the producing step repeats and the run is asked to stop while its second iteration executes; the iteration
\* finishes (a repeating step is not signalled) and what it printed is the step's output: for the exit handler of the
\* stopped run, and for the steps and the handler of the retry
StopProbes == {"exit_1", "first_2", "after_2", "exit_2"}
StopClauses(r) ==
  (IF r.infra # "" THEN {"INFRA"} ELSE
   UNION {
     (IF r.probes[p].missing THEN {"C11_ConsumerDidNotRun"} ELSE {})
     \cup (IF \E i \in DOMAIN r.probes[p].bad : r.probes[p].bad[i] \in OutVars
             THEN {IF p = "exit_1" THEN "C11_OutputOfStoppedStepLost" ELSE "C11_OutputLostInRetry"} ELSE {})
     \cup (IF \E i \in DOMAIN r.probes[p].bad : r.probes[p].bad[i] \notin OutVars
             THEN {IF p = "exit_1" THEN "C11_ParameterValueChanged" ELSE "C11_RetryParametersDiffer"} ELSE {})
     : p \in StopProbes })
\* kind "dying": `blackdagger restart` against a run that ends while restart is talking to it - the status query after the
\* stop request gets an answer that is cut off (bytes of the real status server, truncated) and the socket is gone; restart
\* must go on and start the new run with the parameters of the previous one
DyingClauses(r) ==
  (IF r.infra # "" THEN {"INFRA"} ELSE IF ~r.sawCut THEN {} ELSE
   (IF ~r.restartOk \/ r.runsRecorded # 2 \/ r.run2 # "finished" THEN {"C11_RestartDidNotReplaceTheRun"} ELSE {})
   \cup (IF r.restartOk /\ r.runsRecorded = 2 /\ ~r.probeOk THEN {"C11_RestartParametersDiffer"} ELSE {}))
Clauses(r) == IF r.kind = "dying" THEN DyingClauses(r) ELSE IF r.kind = "cli" THEN CliClauses(r) ELSE IF r.kind = "stop" THEN StopClauses(r) ELSE IF r.kind = "tok"
                THEN (IF ~r.err /\ StringifyAll(Tokenize(r["in"])) # r.out THEN {"DRIFT_TokenizerDiffers"} ELSE {})
              ELSE RunClauses(r)
TInit == l = 1 /\ bad = 0 /\ ps = <<>>
TNext == /\ l <= Len(Trace) /\ l' = l + 1 /\ UNCHANGED ps
         /\ LET c == Clauses(R) IN IF c = {} THEN UNCHANGED bad
            ELSE bad' = bad + 1 /\ PrintT("VERDICT " \o ToJson([line |-> l, viol |-> c, rec |-> R,
                     model |-> IF R.kind = "tok" THEN StringifyAll(Tokenize(R["in"])) ELSE <<>>]))
TSpec == TInit /\ [][TNext]_<<l, bad, ps>>
Emit == (l = Len(Trace) + 1) => PrintT("CONSUMED " \o ToString(Len(Trace)) \o " bad " \o ToString(bad))
=============================================================================
