\* the code before the fix of F-06h: a manual update issued while Close compacts the run's file is acknowledged and lost
CONSTANTS R = 2
  N = 1
  Find = TRUE
  Lock = FALSE
  WithUpdate = TRUE
  Relist = TRUE
  MaxRelist = 3
SPECIFICATION Spec
INVARIANTS C06_UpdateIsKept
CHECK_DEADLOCK FALSE
