\* the seeded defect C16-e: TLC finds the third start that runs alongside the first
SPECIFICATION Spec
CONSTANTS Agents = {"a1","a2","a3"}
 NSteps = 1
 AllowCrash = FALSE
 FixStatus = TRUE
 BindFailUnlinks = TRUE
 ExclusiveBind = TRUE
INVARIANTS C16_NoOverlap C16_RefusedRecordsNothing C16_Undisturbed
CHECK_DEADLOCK FALSE
