CONSTANTS N = 2
CONSTANT Configs <- StopQuick
SPECIFICATION MCSpec
VIEW MCView
CONSTRAINT ExecBound
INVARIANTS Lead_C05_TermReaches
CHECK_DEADLOCK FALSE
