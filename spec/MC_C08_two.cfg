SPECIFICATION Spec
CONSTANTS Agents = {"a1","a2"}
 NSteps = 1
 AllowCrash = TRUE
 FixStatus = TRUE
 BindFailUnlinks = FALSE
 ExclusiveBind = TRUE
INVARIANTS C08_NoError
CHECK_DEADLOCK FALSE
