CONSTANTS Dags <- MCDags
  Horizon = 2
  Sched <- MCSched
  MaxFileOps = 3
  RescanOnWatch = TRUE
  ReleaseOnError = TRUE
SPECIFICATION Spec
CONSTRAINT Bound
INVARIANTS C09_OnlyScheduled C09_StopOnlyRunning C09_NoStartWhileRunning C09_WatcherCatchesUp
PROPERTY C09_TicksGoOn
CHECK_DEADLOCK FALSE
