SPECIFICATION Spec
CONSTANTS Agents = {"a1","a2","a3"}
 NSteps = 1
 AllowCrash = FALSE
 FixStatus = TRUE
 BindFailUnlinks = FALSE
 ExclusiveBind = TRUE
INVARIANTS C16_NoOverlap C16_RefusedRecordsNothing C16_Undisturbed
CHECK_DEADLOCK FALSE
