---------------------------- MODULE StepSchedTrace ----------------------------
(* Strict trace specification: conformance of the real scheduler with the implementation-
   shaped model StepSched.  Every recorded segment <<thread, from-gate, to-gate, status
   writes>> must be a step of the corresponding StepSched action that ends at the same
   gate and leaves exactly the logged node statuses.  A rejected trace is DRIFT (the code no
   longer behaves like the model, so exhaustive results do not transfer), never a violation. *)
EXTENDS StepSched, Json

CONSTANT TraceFile
Trace == ndJsonDeserialize(TraceFile)

VARIABLES l, ok, nruns, bad
tvars == <<vars, l, ok, nruns, bad>>

Rng(seq) == {seq[i] : i \in DOMAIN seq}
E == Trace[l]

RECURSIVE ApplyW(_, _)
ApplyW(st, w) == IF w = <<>> THEN st ELSE ApplyW([st EXCEPT ![Head(w)[1]] = Head(w)[2]], Tail(w))

CfgOf(e) == [deps |-> [s \in 1..e.n |-> Rng(e.deps[s])], contF |-> e.contF, contS |-> e.contS, rlimit |-> e.rlimit,
             pcond |-> e.pcond, repeat |-> e.repeat, obeys |-> e.obeys, maxActive |-> e.maxActive,
             handlers |-> Rng(e.handlers), hfail |-> Rng(e.hfail), stop |-> e.stop, kill |-> e.kill,
             timeout |-> e.timeout, doneChan |-> e.doneChan, dry |-> e.dry]

TInit == /\ cfg = [none |-> TRUE] /\ InitRest /\ l = 1 /\ ok = TRUE /\ nruns = 0 /\ bad = 0

\* a new run: only runs with exactly N steps are checked strictly (the others are skipped: ok = FALSE)
TReset ==
  /\ E.ev = "Reset"
  /\ nruns' = nruns + 1
  /\ IF E.n = N /\ "init" \notin DOMAIN E
       THEN /\ ok' = TRUE
            /\ cfg' = CfgOf(E)
            /\ status' = [s \in Steps |-> NS] /\ retry' = [s \in Steps |-> 0] /\ doneCnt' = [s \in Steps |-> 0]
            /\ wpc' = [s \in Steps |-> "idle"] /\ tails' = [s \in Steps |-> 0]
            /\ cmd' = [s \in Steps |-> FALSE] /\ alive' = [s \in Steps |-> FALSE]
            /\ sigd' = [s \in Steps |-> "none"] /\ res' = [s \in Steps |-> "none"]
            /\ lpc' = "start" /\ li' = 1 /\ wg' = 0
            /\ hq' = <<>> /\ hlog' = <<>> /\ hstat' = [h \in HTypes |-> NS] /\ hselRun' = "none"
            /\ canceled' = FALSE /\ lastErr' = FALSE /\ timedOut' = FALSE
            /\ spc' = "idle" /\ si' = 1 /\ sround' = "term"
            /\ sreq' = [s \in Steps |-> FALSE] /\ prevented' = [s \in Steps |-> FALSE]
            /\ execs' = [s \in Steps |-> 0] /\ early' = FALSE /\ lateStart' = FALSE /\ lateFresh' = FALSE
            /\ created' = [s \in Steps |-> FALSE] /\ pastCreate' = [s \in Steps |-> FALSE]
            /\ hwm' = 0 /\ rwait' = [s \in Steps |-> FALSE] /\ lastOK' = [s \in Steps |-> FALSE]
            /\ stopDone' = FALSE
       ELSE ok' = FALSE /\ UNCHANGED vars
  /\ UNCHANGED bad

\* gate the worker of s is parked at, in the vocabulary of the trace
WAt(s) == wpc[s]

LoopSeg ==
  /\ E.th = "L" /\ lpc = E.from
  /\ Loop
  /\ lpc' = E.to
  /\ (E.to \in {"loop.visit", "loop.launch"}) => li' = E.ts
  /\ (E.from = "h.proc") => (hstat'[Head(hq)] = FIN) = E.o

WorkerSeg ==
  /\ E.th = "W"
  /\ LET s == E.s IN
     \* the new goroutine reaches its first gate concurrently with the rest of the launching segment of
     \* the loop, so its arrival may be logged before that segment: no model step, no check here
     IF E.from = "spawn" THEN E.to = "worker.begin" /\ UNCHANGED vars
     ELSE /\ wpc[s] = E.from
          /\ IF E.from = "proc" THEN WExit(s) /\ (res'[s] = "ok") = E.o ELSE WorkerCtl(s)
          /\ IF E.to = "worker.tail" THEN wpc'[s] = "idle" /\ tails'[s] = tails[s] + 1
                                     ELSE wpc'[s] = E.to /\ tails'[s] = tails[s]

TailSeg == /\ E.th = "T" /\ E.to = "exit" /\ WTail(E.s)

StopSeg ==
  /\ E.th = "S"
  /\ IF E.from = "call" THEN (SCall \/ SKillCall) /\ spc' = "signal.flagged"
     ELSE /\ spc = E.from /\ (E.from = "signal.node" => si = E.fs)
          /\ (SFlagged \/ SNode)
          /\ IF E.to = "sigreturn" THEN spc' \in {"between", "done"} ELSE spc' = E.to /\ si' = E.ts

Seg ==
  /\ E.ev = "Seg" /\ ok
  /\ \/ LoopSeg \/ WorkerSeg \/ TailSeg \/ StopSeg
  /\ status' = ApplyW(status, E.w)
  /\ hstat' = ApplyW(hstat, E.hw)
  /\ UNCHANGED <<ok, nruns, bad>>

Timeout == /\ E.ev = "Timeout" /\ ok /\ TFire /\ UNCHANGED <<ok, nruns, bad>>

\* end of a run: the model must be at "returned" with the same final node table
TReturned ==
  /\ E.ev = "Returned" /\ ok
  /\ lpc = "returned"
  /\ \A s \in Steps : /\ E.final[s].st = status[s]
                      /\ E.final[s].retry = retry[s]
                      /\ E.final[s].done = doneCnt[s]
  /\ E.status = RunNow
  /\ UNCHANGED <<vars, ok, nruns, bad>>

Skip == /\ \/ ~ok /\ E.ev # "Reset"
           \/ ok /\ E.ev \notin {"Reset", "Seg", "Timeout", "Returned"}
        /\ UNCHANGED <<vars, ok, nruns, bad>>

\* a segment the model cannot follow: remember it, give up on this run (drift), carry on with the next
Diverge ==
  /\ ok /\ E.ev \in {"Seg", "Timeout", "Returned"}
  /\ ~ENABLED (Seg \/ Timeout \/ TReturned)
  /\ ok' = FALSE /\ bad' = bad + 1
  /\ PrintT("DRIFT " \o ToJson([run |-> E.run, line |-> l, ev |-> E]))
  /\ UNCHANGED <<vars, nruns>>

TNext == /\ l <= Len(Trace) /\ l' = l + 1
         /\ (TReset \/ Seg \/ Timeout \/ TReturned \/ Skip \/ Diverge)
TSpec == TInit /\ [][TNext]_tvars

Emit == (l = Len(Trace) + 1) => PrintT("CONSUMED " \o ToString(Len(Trace)) \o " runs " \o ToString(nruns) \o " drift " \o ToString(bad))
\* the property invariants of StepSched are also evaluated on the model states the real runs visit
=============================================================================
