CONSTANTS Names = {"a", "b", "c"}
  Steps = {"s0", "s1", "s2"}
  Reqs = {"r1", "r2", "r3", "r4"}
  MaxOps = 14
SPECIFICATION Spec
INVARIANT EmitBehaviour
CHECK_DEADLOCK FALSE
