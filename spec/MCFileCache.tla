---------------------------- MODULE MCFileCache ----------------------------
(* FileCache with a history of the steps taken (schedules for replay on the real filecache + jsondb through the
   gates of the verif build) and a deterministic last step for the simulator.                                   *)
EXTENDS FileCache, Json
CONSTANT MaxSteps
VARIABLES steps, done
mvars == <<cvars, steps, done>>
View == <<cvars, done>>
S(a, r) == steps' = Append(steps, [a |-> a, r |-> r])
MInit == CInit /\ steps = <<>> /\ done = FALSE
\* a schedule ends with every query finished and the update complete (the rig joins all goroutines)
Drained == upc = "idle" /\ \A r \in Readers : pc[r] = "idle"
Finish == ~done /\ Drained /\ (Len(steps) >= MaxSteps \/ panicked) /\ done' = TRUE /\ UNCHANGED <<cvars, steps>>
MStep == /\ ~done /\ UNCHANGED done
         /\ (Len(steps) < MaxSteps \/ ~Drained)
         /\ \/ \E r \in Readers : \/ (Len(steps) < MaxSteps /\ Check(r) /\ S("check", r))
                                  \/ (Load(r) /\ S("load", r)) \/ (Store(r) /\ S("store", r)) \/ (Hit(r) /\ S("hit", r))
            \/ (Len(steps) < MaxSteps /\ AppendLine /\ S("append", ""))
            \/ (Len(steps) < MaxSteps /\ UWrite /\ S("uwrite", ""))
            \/ (UInval /\ S("uinval", ""))
MNext == Finish \/ MStep
MSpec == MInit /\ [][MNext]_mvars
EmitBehaviour == done => PrintT("BEHAVIOUR " \o ToJson([steps |-> steps, recording |-> recording, panicked |-> panicked]))
=============================================================================
