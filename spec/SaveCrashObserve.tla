---------------------------- MODULE SaveCrashObserve ----------------------------
(* C18: records of a save killed at every system call (and torn writes): the definition holds the complete
   old or the complete new text; when the save was not interrupted it holds the new one; and a further save by
   another process stores exactly its text, whatever the killed save left behind. *)
EXTENDS Integers, Sequences, TLC, Json
CONSTANT TraceFile
Trace == ndJsonDeserialize(TraceFile)
VARIABLES l, bad
R == Trace[l]
Clauses(r) == (IF r.content \notin {r.old, r.new} THEN {"C18_SaveLeftPartialText"} ELSE {})
              \cup (IF ~r.killed /\ r.content # r.new THEN {"C18_SaveNotStored"} ELSE {})
              \cup (IF r.otherChanged THEN {"C18_OtherDagTouched"} ELSE {})
              \* the next save, by another process, on whatever the killed one left (DagStore.tla NextSave)
              \cup (IF r.contentAfterNext # r.next THEN {"C18_SaveAfterKilledSaveNotStored"} ELSE {})
Init == l = 1 /\ bad = 0
Next == /\ l <= Len(Trace) /\ l' = l + 1
        /\ LET c == Clauses(R) IN IF c = {} THEN UNCHANGED bad
           ELSE bad' = bad + 1 /\ PrintT("VERDICT " \o ToJson([line |-> l, viol |-> c, rec |-> R]))
Spec == Init /\ [][Next]_<<l, bad>>
Emit == (l = Len(Trace) + 1) => PrintT("CONSUMED " \o ToString(Len(Trace)) \o " bad " \o ToString(bad))
=============================================================================
