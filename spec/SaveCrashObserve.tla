---------------------------- MODULE SaveCrashObserve ----------------------------
(* C18: records of a save killed at every system call (and torn writes): the definition holds the complete
   old or the complete new text; when the save was not interrupted it holds the new one. *)
EXTENDS Integers, Sequences, TLC, Json
CONSTANT TraceFile
Trace == ndJsonDeserialize(TraceFile)
VARIABLES l, bad
R == Trace[l]
Clauses(r) == (IF r.content \notin {r.old, r.new} THEN {"C18_SaveLeftPartialText"} ELSE {})
              \cup (IF ~r.killed /\ r.content # r.new THEN {"C18_SaveNotStored"} ELSE {})
              \cup (IF r.otherChanged THEN {"C18_OtherDagTouched"} ELSE {})
Init == l = 1 /\ bad = 0
Next == /\ l <= Len(Trace) /\ l' = l + 1
        /\ LET c == Clauses(R) IN IF c = {} THEN UNCHANGED bad
           ELSE bad' = bad + 1 /\ PrintT("VERDICT " \o ToJson([line |-> l, viol |-> c, rec |-> R]))
Spec == Init /\ [][Next]_<<l, bad>>
Emit == (l = Len(Trace) + 1) => PrintT("CONSUMED " \o ToString(Len(Trace)) \o " bad " \o ToString(bad))
=============================================================================
