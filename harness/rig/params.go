package rig

// Parameter / output rig (C11): a real DAG file with probe steps is started through the real loader
// and the real agent (in-process), then its recorded run is retried the way cmd/retry.go does it
// (history lookup by request id, dag.Load with the recorded parameter string, agent with RetryTarget).
// Probe steps (the harness binary in `probe` mode) dump the parameter / output variables they see.
// spec/ParamsObserve.tla compares what every consumer saw with the structure the parameter string and the
// payload were generated from.

import (
	"bufio"
	"context"
	"encoding/json"
	"fmt"
	"io"
	"net"
	"net/http"
	"os"
	"path/filepath"
	"strings"
	"sync"
	"syscall"
	"time"

	"github.com/ErdemOzgen/blackdagger/internal/agent"
	"github.com/ErdemOzgen/blackdagger/internal/client"
	"github.com/ErdemOzgen/blackdagger/internal/dag"
	"github.com/ErdemOzgen/blackdagger/internal/dag/scheduler"
	dsclient "github.com/ErdemOzgen/blackdagger/internal/persistence/client"
	"github.com/ErdemOzgen/blackdagger/internal/persistence/model"
	"github.com/ErdemOzgen/blackdagger/internal/sock"
)

type ParamSpec struct {
	Name  string `json:"name"`  // "" = positional
	Class string `json:"class"` // value class
}

type ParamScenario struct {
	ID       int         `json:"id"`
	Params   []ParamSpec `json:"params"`
	AtStart  bool        `json:"atStart"` // given with the start (-p) instead of as the DAG's default
	Payload  string      `json:"payload"` // output payload class
	ErrNoise bool        `json:"errNoise"`
	// Stop: the producing step repeats (every iteration prints the payload and its own number); the run is asked to stop
	// while the second iteration is executing. A repeating step is not signalled: it finishes the iteration, and what
	// that iteration printed is the step's output - for the exit handler of the stopped run and for the retry.
	Stop bool `json:"stop"`
}

var ParamValues = map[string]string{
	"bare": "abc", "space": "a b  c", "quote": `say "hi" now`, "eq": "k=v", "empty": "", "utf8": "héllo wörld", "bslash": `a\b\\c`, "squote": "it's",
	"num": "42", "dash": "--flag", "comma": "x,y;z", "spaceeq": "level a=1", "quoteeq": `say "x=1" now`,
}
var ParamClassOrder = []string{"bare", "space", "quote", "eq", "empty", "utf8", "bslash", "squote", "num", "dash", "comma", "spaceeq", "quoteeq"}

var PayloadValues = map[string]string{
	"word": "hello", "spaces": "a b   c", "padded": "  \n padded value \t\n", "newline": "line1\nline2\n\nline4", "quotes": `he said "yes" and 'no'`,
	"eq": "mode=fast;level=3", "dollar": "$HOME and ${PATH} stay literal", "bslash": `C:\dir\n not a newline`, "utf8": "Größe ≥ 5 € ✓", "empty": "",
	"eqstart": "=leading equals", "long4096": strings.Repeat("x", 4096), "long70000": strings.Repeat("0123456789", 7000),
}

// payloads that survive word splitting on a command line unchanged
var argSafe = map[string]bool{"word": true, "eq": true, "eqstart": true, "long4096": true}

var PayloadOrder = []string{"word", "spaces", "padded", "newline", "quotes", "eq", "dollar", "bslash", "utf8", "empty", "eqstart", "long4096", "long70000"}

// RenderParams renders the structure in the documented syntax: bare words, "quoted values", NAME=value, NAME="quoted value".
func RenderParams(ps []ParamSpec) string {
	var parts []string
	for _, p := range ps {
		v := ParamValues[p.Class]
		needQuote := v == "" || strings.ContainsAny(v, " \t\"") || (p.Name == "" && strings.Contains(v, "="))
		if needQuote {
			v = `"` + strings.ReplaceAll(v, `"`, `\"`) + `"`
		}
		if p.Name != "" {
			parts = append(parts, p.Name+"="+v)
		} else {
			parts = append(parts, v)
		}
	}
	return strings.Join(parts, " ")
}

// ProbeChild dumps what a step sees.
func ProbeChild(dir, tag string, names []string, rest []string) int {
	run := 1
	if b, err := os.ReadFile(filepath.Join(dir, "run")); err == nil {
		fmt.Sscanf(string(b), "%d", &run)
	}
	env := map[string]any{}
	for _, k := range append([]string{"1", "2", "3", "OUTV"}, names...) {
		if v, ok := os.LookupEnv(k); ok {
			env[k] = v
		} else {
			env[k] = nil
		}
	}
	// what reached the step on its command line (the scheduler expands $OUTV there itself, from the process environment)
	env["ARG_OUTV"] = strings.Join(rest, " ")
	b, _ := json.Marshal(env)
	os.WriteFile(filepath.Join(dir, fmt.Sprintf("%s.%d.json", tag, run)), b, 0o644)
	return 0
}

func PayloadChild(class string, noise bool) int {
	if noise {
		fmt.Fprint(os.Stderr, "warning: this goes to stderr\n")
	}
	fmt.Fprint(os.Stdout, PayloadValues[class])
	return 0
}

func RunParams(self string, sc ParamScenario, base string) Ev {
	dir := filepath.Join(base, fmt.Sprintf("par%d", sc.ID))
	dagsDir := filepath.Join(dir, "dags")
	os.MkdirAll(dagsDir, 0o755)
	defer os.RemoveAll(dir)
	var names []string
	for _, p := range sc.Params {
		if p.Name != "" {
			names = append(names, p.Name)
		}
	}
	ps := RenderParams(sc.Params)
	probe := func(tag string) string {
		c := fmt.Sprintf("%s probe -dir %s -tag %s", self, dir, tag)
		if len(names) > 0 {
			c += " -names " + strings.Join(names, ",")
		}
		if argSafe[sc.Payload] {
			c += " -- $OUTV"
		}
		return c
	}
	noise := ""
	if sc.ErrNoise {
		noise = " -noise"
	}
	y := "logDir: " + filepath.Join(dir, "logs") + "\n"
	if !sc.AtStart && ps != "" {
		y += "params: " + yamlQuote(ps) + "\n"
	}
	y += "handlerOn:\n  exit:\n    command: " + probe("exit") + "\n"
	y += "steps:\n"
	counter := filepath.Join(dir, "counter")
	if sc.Stop {
		script := filepath.Join(dir, "prod.sh")
		os.WriteFile(script, []byte(fmt.Sprintf("n=$(cat %s 2>/dev/null || echo 0)\nn=$((n+1))\necho $n > %s.tmp && mv %s.tmp %s\nsleep 0.4\n%s payload -class %s%s\necho \"#$n\"\n",
			counter, counter, counter, counter, self, sc.Payload, noise)), 0o755)
		y += "  - name: prod\n    command: sh " + script + "\n    output: OUTV\n    repeatPolicy:\n      repeat: true\n      intervalSec: 0\n"
	} else {
		y += "  - name: prod\n    command: " + self + " payload -class " + sc.Payload + noise + "\n    output: OUTV\n"
	}
	y += "  - name: first\n    command: " + probe("first") + "\n    depends: [prod]\n"
	y += "  - name: gate\n    command: test -f " + filepath.Join(dir, "open") + "\n    depends: [first]\n"
	y += "  - name: after\n    command: " + probe("after") + "\n    depends: [gate]\n"
	file := filepath.Join(dagsDir, fmt.Sprintf("par%d.yaml", sc.ID))
	defer removeSockLock(file)
	os.WriteFile(file, []byte(y), 0o644)
	clearEnv := func() {
		for _, k := range append([]string{"1", "2", "3", "OUTV"}, names...) {
			os.Unsetenv(k)
		}
	}
	rec := Ev{"id": sc.ID, "sc": sc, "rendered": ps, "infra": ""}
	given := ""
	if sc.AtStart {
		given = ps
	}
	ds := dsclient.NewDataStores(dagsDir, filepath.Join(dir, "data"), filepath.Join(dir, "susp"), dsclient.DataStoreOptions{})
	cli := client.New(ds, "/bin/false", dir, quietLogger)
	// ---- run 1: start
	clearEnv()
	os.WriteFile(filepath.Join(dir, "run"), []byte("1"), 0o644)
	d, err := dag.Load("", file, given)
	if err != nil {
		rec["infra"] = "load: " + err.Error()
		return rec
	}
	req1 := fmt.Sprintf("par-req-%d-first", sc.ID)
	a := agent.New(req1, d, quietLogger, filepath.Join(dir, "logs"), filepath.Join(dir, "logs", "a1.log"), cli, ds, &agent.Options{})
	runErr := make(chan error, 1)
	go func() { runErr <- a.Run(context.Background()) }()
	if sc.Stop {
		rec["kind"] = "stop"
		deadline := time.Now().Add(20 * time.Second)
		for {
			b, _ := os.ReadFile(counter)
			if strings.TrimSpace(string(b)) == "2" {
				break
			}
			if time.Now().After(deadline) {
				rec["infra"] = "the second iteration does not start"
				return rec
			}
			time.Sleep(5 * time.Millisecond)
		}
		a.Signal(syscall.SIGTERM)
	}
	select {
	case <-runErr:
	case <-time.After(20 * time.Second):
		rec["infra"] = "run 1 does not end"
		return rec
	}
	iter := ""
	if sc.Stop {
		b, _ := os.ReadFile(counter)
		iter = strings.TrimSpace(string(b))
		rec["iterations"] = iter
	}
	// ---- what was recorded
	sf, err := ds.HistoryStore().FindByRequestID(file, req1)
	if err != nil {
		rec["infra"] = "history: " + err.Error()
		return rec
	}
	rec["recordedParams"] = sf.Status.Params
	// ---- run 2: retry, the way cmd/retry.go does it, in a "fresh process" (environment cleared)
	clearEnv()
	os.WriteFile(filepath.Join(dir, "open"), []byte("x"), 0o644)
	os.WriteFile(filepath.Join(dir, "run"), []byte("2"), 0o644)
	d2, err := dag.Load("", file, sf.Status.Params)
	if err != nil {
		rec["retryLoadError"] = err.Error()
	} else {
		a2 := agent.New(fmt.Sprintf("par-req-%d-retry", sc.ID), d2, quietLogger, filepath.Join(dir, "logs"), filepath.Join(dir, "logs", "a2.log"), cli, ds,
			&agent.Options{RetryTarget: sf.Status})
		go func() { runErr <- a2.Run(context.Background()) }()
		select {
		case <-runErr:
		case <-time.After(20 * time.Second):
			rec["infra"] = "retry does not end"
			return rec
		}
		hist := ds.HistoryStore().ReadStatusRecent(file, 10)
		rec["runsRecorded"] = len(hist)
		// ---- run 3: the retry is a recorded run of its own; retrying IT starts from the parameters the retry recorded.
		// Every step has succeeded by now, so only the exit handler runs: it is the consumer of run 3
		if !sc.Stop {
			clearEnv()
			os.WriteFile(filepath.Join(dir, "run"), []byte("3"), 0o644)
			sf2, err := ds.HistoryStore().FindByRequestID(file, fmt.Sprintf("par-req-%d-retry", sc.ID))
			if err != nil {
				rec["infra"] = "history of the retry: " + err.Error()
				return rec
			}
			rec["recordedParams2"] = sf2.Status.Params
			if d3, err := dag.Load("", file, sf2.Status.Params); err != nil {
				rec["retryLoadError"] = "second retry: " + err.Error()
			} else {
				a3 := agent.New(fmt.Sprintf("par-req-%d-retry2", sc.ID), d3, quietLogger, filepath.Join(dir, "logs"), filepath.Join(dir, "logs", "a3.log"), cli, ds,
					&agent.Options{RetryTarget: sf2.Status})
				go func() { runErr <- a3.Run(context.Background()) }()
				select {
				case <-runErr:
				case <-time.After(20 * time.Second):
					rec["infra"] = "retry of the retry does not end"
					return rec
				}
			}
		}
	}
	clearEnv()
	// ---- collect the probes
	want := Ev{}
	pos := 0
	for _, p := range sc.Params {
		if p.Name == "" {
			pos++
			want[fmt.Sprint(pos)] = ParamValues[p.Class]
		} else {
			want[p.Name] = ParamValues[p.Class]
			pos++ // a named parameter occupies a position as well ($n = NAME=value); only the named view is checked for it
		}
	}
	want["OUTV"] = strings.TrimSpace(PayloadValues[sc.Payload])
	tags := []string{"first.1", "exit.1", "after.2", "exit.2", "exit.3"}
	if sc.Stop {
		// the last iteration that ran printed payload + "#<its number>"
		want["OUTV"] = strings.TrimSpace(PayloadValues[sc.Payload] + "#" + iter)
		tags = []string{"exit.1", "first.2", "after.2", "exit.2"}
	}
	if argSafe[sc.Payload] {
		want["ARG_OUTV"] = want["OUTV"]
	}
	probes := Ev{}
	for _, tag := range tags {
		b, err := os.ReadFile(filepath.Join(dir, tag+".json"))
		if err != nil {
			probes[strings.ReplaceAll(tag, ".", "_")] = Ev{"missing": true, "bad": []string{}}
			continue
		}
		var seen map[string]any
		json.Unmarshal(b, &seen)
		bad := []string{}
		for k, w := range want {
			if s, ok := seen[k].(string); !ok || s != w.(string) {
				bad = append(bad, k)
			}
		}
		sortStrings(bad)
		detail := Ev{}
		for _, k := range bad {
			detail[k] = Ev{"want": trunc(fmt.Sprint(want[k]), 60), "got": trunc(fmt.Sprint(seen[k]), 60)}
		}
		probes[strings.ReplaceAll(tag, ".", "_")] = Ev{"missing": false, "bad": bad, "detail": detail}
	}
	rec["probes"] = probes
	return rec
}

func sortStrings(s []string) {
	for i := range s {
		for j := i + 1; j < len(s); j++ {
			if s[j] < s[i] {
				s[i], s[j] = s[j], s[i]
			}
		}
	}
}

func trunc(s string, n int) string {
	if len(s) > n {
		return s[:n] + "..."
	}
	return s
}

func yamlQuote(s string) string {
	return "'" + strings.ReplaceAll(s, "'", "''") + "'"
}

// ---- tokenizer conformance and round trips through the real parser ---------------------------------------

var classChar = map[byte]string{'a': "w", ' ': "s", '"': "q", '=': "e", '\\': "b"}
var charOfClass = map[string]byte{"w": 'a', "s": ' ', "q": '"', "e": '=', "b": '\\'}

func toClasses(s string) []string {
	out := []string{}
	for i := 0; i < len(s); i++ {
		out = append(out, classChar[s[i]])
	}
	return out
}

// realParse: the parameter string through the real loader (no evaluation); the loader returns the stringified pairs
func realParse(in string) ([]string, error) {
	y := "params: " + yamlQuote(in) + "\nsteps:\n  - name: a\n    command: \"true\"\n"
	d, err := dag.LoadYAML([]byte(y))
	if err != nil {
		return nil, err
	}
	return d.Params, nil
}

// TokSweep: every string over {a, blank, ", =, \} up to maxLen through the real parser
func TokSweep(maxLen int, emit func(Ev)) int {
	alphabet := []byte{'a', ' ', '"', '=', '\\'}
	n := 0
	var rec func(prefix []byte)
	rec = func(prefix []byte) {
		if len(prefix) > 0 {
			ps, err := realParse(string(prefix))
			out := [][]string{}
			for _, p := range ps {
				out = append(out, toClasses(p))
			}
			emit(Ev{"kind": "tok", "in": toClasses(string(prefix)), "out": out, "err": err != nil})
			n++
		}
		if len(prefix) == maxLen {
			return
		}
		for _, c := range alphabet {
			rec(append(append([]byte{}, prefix...), c))
		}
	}
	rec(nil)
	return n
}

// RunParamsCLI drives the same question through the command layer of the REAL binary: the run is started the way the
// web API does it (client.Start -> `blackdagger start -p "<params>" file`), restarted while it is running
// (`blackdagger restart file`: stop, then a new run with the parameters of the previous one) and the canceled first
// run is retried (`blackdagger retry --req id file`). Probe steps dump what they see in each of the three runs.
func RunParamsCLI(self, bin string, sc ParamScenario, base string) Ev {
	dir := filepath.Join(base, fmt.Sprintf("cli%d", sc.ID))
	dagsDir := filepath.Join(dir, "dags")
	os.MkdirAll(dagsDir, 0o755)
	if os.Getenv("VH_KEEP") == "" {
		defer os.RemoveAll(dir)
	}
	var names []string
	for _, p := range sc.Params {
		if p.Name != "" {
			names = append(names, p.Name)
		}
	}
	ps := RenderParams(sc.Params)
	probe := func(tag string) string {
		c := fmt.Sprintf("%s probe -dir %s -tag %s", self, dir, tag)
		if len(names) > 0 {
			c += " -names " + strings.Join(names, ",")
		}
		if argSafe[sc.Payload] {
			c += " -- $OUTV"
		}
		return c
	}
	y := "logDir: " + filepath.Join(dir, "logs") + "\nmaxCleanUpTimeSec: 3\n"
	if !sc.AtStart && ps != "" {
		y += "params: " + yamlQuote(ps) + "\n"
	}
	y += "steps:\n"
	y += "  - name: prod\n    command: " + self + " payload -class " + sc.Payload + "\n    output: OUTV\n"
	y += "  - name: first\n    command: " + probe("first") + "\n    depends: [prod]\n"
	// the hold step sleeps in run 1 only; it says so (marker file) AFTER it has decided, so that the rig can wait for the
	// decision instead of guessing how long the step takes to start on a loaded machine
	y += "  - name: hold\n    command: sh -c \"test $(cat " + filepath.Join(dir, "run") + ") != 1 || { touch " + filepath.Join(dir, "holding") + "; sleep 30; }\"\n    depends: [first]\n"
	y += "  - name: after\n    command: " + probe("after") + "\n    depends: [hold]\n"
	file := filepath.Join(dagsDir, fmt.Sprintf("cli%d.yaml", sc.ID))
	defer removeSockLock(file)
	os.WriteFile(file, []byte(y), 0o644)
	for k, v := range map[string]string{"HOME": dir, "BLACKDAGGER_HOME": dir, "BLACKDAGGER_DAGS_DIR": dagsDir, "BLACKDAGGER_DATA_DIR": filepath.Join(dir, "data"),
		"BLACKDAGGER_LOG_DIR": filepath.Join(dir, "logs"), "BLACKDAGGER_SUSPEND_FLAGS_DIR": filepath.Join(dir, "susp"), "BLACKDAGGER_WORK_DIR": dir} {
		os.Setenv(k, v)
	}
	for _, k := range append([]string{"1", "2", "3", "OUTV"}, names...) {
		os.Unsetenv(k)
	}
	rec := Ev{"kind": "cli", "id": sc.ID, "sc": sc, "rendered": ps, "infra": "", "run1": "?", "run2": "?", "runsRecorded": 0}
	given := ""
	if sc.AtStart {
		given = ps
	}
	ds := dsclient.NewDataStores(dagsDir, filepath.Join(dir, "data"), filepath.Join(dir, "susp"), dsclient.DataStoreOptions{})
	cli := client.New(ds, bin, dir, quietLogger)
	d, err := dag.LoadMetadata(file)
	if err != nil {
		rec["infra"] = "load: " + err.Error()
		return rec
	}
	defer os.Remove(d.SockAddr())
	setRun := func(n int) { os.WriteFile(filepath.Join(dir, "run"), []byte(fmt.Sprint(n)), 0o644) }
	// ---- run 1: start through the client (as the API does)
	setRun(1)
	r1 := make(chan error, 1)
	go func() { r1 <- cli.Start(d, client.StartOptions{Params: given, Quiet: true}) }()
	dl := time.Now().Add(20 * time.Second)
	for {
		if _, err := os.Stat(filepath.Join(dir, "first.1.json")); err == nil {
			break
		}
		if time.Now().After(dl) {
			rec["infra"] = "run 1 never reached its first probe"
			return rec
		}
		time.Sleep(10 * time.Millisecond)
	}
	for {
		if _, err := os.Stat(filepath.Join(dir, "holding")); err == nil {
			break // the hold step of run 1 has decided to sleep
		}
		if time.Now().After(dl) {
			rec["infra"] = "run 1 never reached its hold step"
			return rec
		}
		time.Sleep(10 * time.Millisecond)
	}
	// ---- run 2: restart while run 1 is running
	setRun(2)
	r2 := make(chan error, 1)
	go func() { r2 <- cli.Restart(d, client.RestartOptions{Quiet: os.Getenv("VH_CLI_VERBOSE") == ""}) }()
	for i, ch := range []chan error{r2, r1} {
		select {
		case <-ch:
		case <-time.After(40 * time.Second):
			rec["infra"] = fmt.Sprintf("phase %d of the restart does not end", i)
			return rec
		}
	}
	hist := ds.HistoryStore().ReadStatusRecent(file, 10)
	rec["runsRecorded"] = len(hist)
	req1 := ""
	if len(hist) == 2 {
		rec["run2"] = hist[0].Status.Status.String()
		rec["run1"] = hist[1].Status.Status.String()
		rec["recordedParams"] = hist[1].Status.Params
		rec["restartParams"] = hist[0].Status.Params
		req1 = hist[1].Status.RequestID
	}
	// ---- run 3: retry of the canceled first run
	if req1 != "" {
		setRun(3)
		r3 := make(chan error, 1)
		go func() { r3 <- cli.Retry(d, req1) }()
		select {
		case <-r3:
		case <-time.After(40 * time.Second):
			rec["infra"] = "the retry does not end"
			return rec
		}
	}
	want := Ev{}
	pos := 0
	for _, p := range sc.Params {
		pos++
		if p.Name == "" {
			want[fmt.Sprint(pos)] = ParamValues[p.Class]
		} else {
			want[p.Name] = ParamValues[p.Class]
		}
	}
	want["OUTV"] = strings.TrimSpace(PayloadValues[sc.Payload])
	if argSafe[sc.Payload] {
		want["ARG_OUTV"] = want["OUTV"]
	}
	probes := Ev{}
	for _, tag := range []string{"first.1", "first.2", "after.2", "after.3"} {
		b, err := os.ReadFile(filepath.Join(dir, tag+".json"))
		if err != nil {
			probes[strings.ReplaceAll(tag, ".", "_")] = Ev{"missing": true, "bad": []string{}}
			continue
		}
		var seen map[string]any
		json.Unmarshal(b, &seen)
		bad := []string{}
		for k, w := range want {
			if s, ok := seen[k].(string); !ok || s != w.(string) {
				bad = append(bad, k)
			}
		}
		sortStrings(bad)
		detail := Ev{}
		for _, k := range bad {
			detail[k] = Ev{"want": trunc(fmt.Sprint(want[k]), 60), "got": trunc(fmt.Sprint(seen[k]), 60)}
		}
		probes[strings.ReplaceAll(tag, ".", "_")] = Ev{"missing": false, "bad": bad, "detail": detail}
	}
	rec["probes"] = probes
	return rec
}

// RunRestartDyingAgent (C11, command layer): `blackdagger restart` of a DAG whose run ends while restart is talking to
// it. The "agent" is a raw listener at the DAG's socket address that speaks with the bytes of the REAL status server
// (captured from internal/sock answering the same requests): the first status query gets the complete answer
// ("running"), the stop request is acknowledged, and the next status query gets an answer that is cut off in the middle -
// the process has exited while writing it - after which the socket is gone. Restart must go on and start the new run with
// the parameters of the previous one.
func RunRestartDyingAgent(self, bin string, id int, cut float64, base string) Ev {
	dir := filepath.Join(base, fmt.Sprintf("dying%d", id))
	dagsDir := filepath.Join(dir, "dags")
	os.MkdirAll(dagsDir, 0o755)
	defer os.RemoveAll(dir)
	rec := Ev{"kind": "dying", "id": id, "cut": cut, "infra": "", "restartOk": false, "runsRecorded": 0, "run2": "?", "probeOk": false, "sawCut": false}
	probeCmd := fmt.Sprintf("%s probe -dir %s -tag first -names X", self, dir)
	y := "logDir: " + filepath.Join(dir, "logs") + "\nparams: \"p0 X=default\"\nsteps:\n  - name: first\n    command: " + probeCmd + "\n"
	file := filepath.Join(dagsDir, fmt.Sprintf("dying%d.yaml", id))
	os.WriteFile(file, []byte(y), 0o644)
	defer removeSockLock(file)
	for k, v := range map[string]string{"HOME": dir, "BLACKDAGGER_HOME": dir, "BLACKDAGGER_DAGS_DIR": dagsDir, "BLACKDAGGER_DATA_DIR": filepath.Join(dir, "data"),
		"BLACKDAGGER_LOG_DIR": filepath.Join(dir, "logs"), "BLACKDAGGER_SUSPEND_FLAGS_DIR": filepath.Join(dir, "susp"), "BLACKDAGGER_WORK_DIR": dir} {
		os.Setenv(k, v)
	}
	for _, k := range []string{"1", "2", "X"} {
		os.Unsetenv(k)
	}
	d, err := dag.LoadMetadata(file)
	if err != nil {
		rec["infra"] = "load: " + err.Error()
		return rec
	}
	ds := dsclient.NewDataStores(dagsDir, filepath.Join(dir, "data"), filepath.Join(dir, "susp"), dsclient.DataStoreOptions{})
	cli := client.New(ds, bin, dir, quietLogger)
	// the run that is "in progress": recorded as running, started with parameters of its own; a large captured output makes
	// its status long, as in the runs where the defect was first seen
	prev := `given "two words" X=9`
	st := model.NewStatus(d, nil, scheduler.StatusRunning, 1234, nil, nil)
	st.RequestID = "dying-req-1"
	st.Params = prev
	st.Log = strings.Repeat("x", 70000)
	hs := ds.HistoryStore()
	if err := hs.Open(file, time.Now().Add(-time.Minute), st.RequestID); err != nil {
		rec["infra"] = "history: " + err.Error()
		return rec
	}
	hs.Write(st)
	// ---- the bytes of the real server for the two requests
	capture := func(method, path string, h func(w http.ResponseWriter, r *http.Request)) ([]byte, error) {
		addr := filepath.Join(dir, "cap.sock")
		os.Remove(addr)
		srv, err := sock.NewServer(addr, h, quietLogger)
		if err != nil {
			return nil, err
		}
		lerr := make(chan error, 1)
		go srv.Serve(lerr)
		if err := <-lerr; err != nil {
			return nil, err
		}
		defer srv.Shutdown()
		c, err := net.DialTimeout("unix", addr, 3*time.Second)
		if err != nil {
			return nil, err
		}
		defer c.Close()
		fmt.Fprintf(c, "%s %s HTTP/1.1\r\nHost: x\r\n\r\n", method, path)
		c.SetReadDeadline(time.Now().Add(5 * time.Second))
		return io.ReadAll(c)
	}
	body, _ := st.ToJSON()
	rStatus, err := capture("GET", "/status", func(w http.ResponseWriter, r *http.Request) {
		w.Header().Set("content-type", "application/json")
		w.WriteHeader(http.StatusOK)
		w.Write(body)
	})
	if err != nil || len(rStatus) < len(body) {
		rec["infra"] = fmt.Sprintf("capture status: %v (%d bytes)", err, len(rStatus))
		return rec
	}
	rOK, err := capture("POST", "/stop", func(w http.ResponseWriter, r *http.Request) {
		w.WriteHeader(http.StatusOK)
		w.Write([]byte("OK"))
	})
	if err != nil {
		rec["infra"] = "capture stop: " + err.Error()
		return rec
	}
	// ---- the dying agent
	os.Remove(d.SockAddr())
	ln, err := net.Listen("unix", d.SockAddr())
	if err != nil {
		rec["infra"] = "listen: " + err.Error()
		return rec
	}
	var mu sync.Mutex
	stopped, sawCut := false, false
	gone := make(chan struct{})
	go func() {
		defer close(gone)
		for {
			c, err := ln.Accept()
			if err != nil {
				return
			}
			br := bufio.NewReader(c)
			line, _ := br.ReadString('\n')
			mu.Lock()
			switch {
			case strings.HasPrefix(line, "POST"):
				stopped = true
				c.Write(rOK)
				c.Close()
				mu.Unlock()
			case !stopped:
				c.Write(rStatus)
				c.Close()
				mu.Unlock()
			default:
				// the run has ended: the answer is cut off, the process is gone, its run is recorded as canceled
				c.Write(rStatus[:int(float64(len(rStatus))*cut)])
				c.Close()
				sawCut = true
				mu.Unlock()
				st.Status = scheduler.StatusCancel
				st.StatusText = scheduler.StatusCancel.String()
				hs.Write(st)
				hs.Close()
				ln.Close()
				os.Remove(d.SockAddr())
				return
			}
		}
	}()
	os.WriteFile(filepath.Join(dir, "run"), []byte("2"), 0o644)
	done := make(chan error, 1)
	go func() { done <- cli.Restart(d, client.RestartOptions{Quiet: true}) }()
	select {
	case err := <-done:
		rec["restartOk"] = err == nil
	case <-time.After(40 * time.Second):
		rec["infra"] = "restart does not end"
	}
	ln.Close()
	select {
	case <-gone:
	case <-time.After(2 * time.Second):
	}
	mu.Lock()
	rec["sawCut"] = sawCut
	mu.Unlock()
	if !sawCut {
		// restart never asked again after the stop: nothing to judge (and the history writer is still open)
		hs.Close()
	}
	hist := ds.HistoryStore().ReadStatusRecent(file, 10)
	rec["runsRecorded"] = len(hist)
	if len(hist) >= 1 {
		rec["run2"] = hist[0].Status.Status.String()
		rec["run2Params"] = hist[0].Status.Params
	}
	if b, err := os.ReadFile(filepath.Join(dir, "first.2.json")); err == nil {
		var seen map[string]any
		json.Unmarshal(b, &seen)
		rec["probeOk"] = seen["1"] == "given" && seen["2"] == "two words" && seen["X"] == "9"
		rec["probe"] = Ev{"1": seen["1"], "2": seen["2"], "X": seen["X"]}
	}
	return rec
}
