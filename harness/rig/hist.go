package rig

// History rig (C06): executes operation sequences (TLC behaviours of MCHistory or seeded random ones)
// on the real jsondb store and, after every operation, asks all three queries for every DAG and every
// request id. spec/HistoryTrace.tla replays the operations on the model History.tla and compares.

import (
	"fmt"
	"math/rand"
	"os"
	"path/filepath"
	"strings"
	"time"

	"github.com/ErdemOzgen/blackdagger/internal/dag/scheduler"
	"github.com/ErdemOzgen/blackdagger/internal/persistence/jsondb"
	"github.com/ErdemOzgen/blackdagger/internal/persistence/model"
)

type HistOp struct {
	Op   string `json:"op"`
	D    string `json:"d,omitempty"`
	To   string `json:"to,omitempty"`
	R    string `json:"r,omitempty"`
	Ts   int    `json:"ts,omitempty"`
	St   string `json:"st,omitempty"`
	Days int    `json:"days"`
	Age  int    `json:"age,omitempty"`
}

type HistScenario struct {
	Scen      int      `json:"scen"`
	Names     string   `json:"names"`
	TodayOnly bool     `json:"todayOnly"`
	Src       string   `json:"src"`
	Ops       []HistOp `json:"ops"`
}

// name tables: model identity d1,d2,d3 -> DAG file name
var HistNames = map[string][3]string{
	"plain":   {"job", "job2", "other"},
	"spaces":  {"a b", "a", "a b c"},
	"suffix":  {"x_c", "x", "x_c_c"},
	"dots":    {"dots.v1", "dots", "dots.v1.2"},
	"short":   {"a", "d", "dat"},
	"glob":    {"glob[1]", "glob*", "glob?"},
	"bslash":  {"back\\slash", "back", "back\\\\"},
	"stamped": {"t20240101.10:00:00x", "t2024", "20240101"},
	"ext":     {"load.data", "load", "x.dat"}, // names containing the store's own file extension
	"extdir":  {"job", "job2", "other"},       // plain names below a data directory whose name contains ".dat"
}
var HistNameOrder = []string{"plain", "spaces", "suffix", "dots", "short", "glob", "bslash", "stamped", "ext", "extdir"}

// start stamps: index 1..9 -> offset from today's midnight (UTC); 1..3 fall on the day before
var histStampOff = []time.Duration{0, -900 * time.Millisecond, -100 * time.Millisecond, -50 * time.Millisecond,
	50 * time.Millisecond, 700 * time.Millisecond, 30 * time.Second, 30*time.Second + time.Millisecond, 70 * time.Second, 3 * time.Hour,
	// 10..24: one run every minute from 04:00 (long histories: the directory listing is sorted with an unstable sort
	// from 13 entries on, so which of two files with the same stamp comes first changes with the size of the history)
	4*time.Hour + 0*time.Minute, 4*time.Hour + 1*time.Minute, 4*time.Hour + 2*time.Minute, 4*time.Hour + 3*time.Minute, 4*time.Hour + 4*time.Minute,
	4*time.Hour + 5*time.Minute, 4*time.Hour + 6*time.Minute, 4*time.Hour + 7*time.Minute, 4*time.Hour + 8*time.Minute, 4*time.Hour + 9*time.Minute,
	4*time.Hour + 10*time.Minute, 4*time.Hour + 11*time.Minute, 4*time.Hour + 12*time.Minute, 4*time.Hour + 13*time.Minute, 4*time.Hour + 14*time.Minute}
var HistSec = []int{1, 1, 1, 2, 2, 3, 3, 4, 5, 6, 7, 8, 9, 10, 11, 12, 13, 14, 15, 16, 17, 18, 19, 20}

func fullReq(r string) string { return r + "-0123456789abcdef" }

func histStatus(d, r, st string) *model.Status {
	return &model.Status{RequestID: fullReq(r), Name: d, Status: scheduler.StatusRunning, Params: st}
}

func RunHist(sc HistScenario, base string, emit func(Ev)) error {
	dir := filepath.Join(base, fmt.Sprintf("hist%d", sc.Scen))
	if sc.Names == "extdir" {
		dir = filepath.Join(base, fmt.Sprintf("hist%d.data", sc.Scen), "history")
	}
	os.MkdirAll(dir, 0o755)
	if sc.Names == "extdir" {
		defer os.RemoveAll(filepath.Dir(dir))
	}
	defer os.RemoveAll(dir)
	names := HistNames[sc.Names]
	file := func(d string) string {
		i := int(d[1] - '1')
		return filepath.Join("/dags", names[i]+".yaml")
	}
	dags := []string{"d1", "d2", "d3"}
	db := jsondb.New(dir, sc.TodayOnly)
	day0 := time.Now().UTC()
	midnight := time.Date(day0.Year(), day0.Month(), day0.Day(), 0, 0, 0, 0, time.UTC)
	emit(Ev{"ev": "Reset", "scen": sc.Scen, "names": sc.Names, "todayOnly": sc.TodayOnly, "sec": HistSec, "src": sc.Src})
	reqs := map[string]bool{"r0": true}
	fileOf := func(r string) string {
		var found string
		filepath.Walk(dir, func(p string, info os.FileInfo, err error) error {
			if err == nil && !info.IsDir() && strings.Contains(filepath.Base(p), "."+fullReq(r)[:8]) {
				found = p
			}
			return nil
		})
		return found
	}
	for _, op := range sc.Ops {
		var err error
		e := Ev{"ev": "Op", "op": op.Op}
		switch op.Op {
		case "Open":
			reqs[op.R] = true
			e["d"], e["r"], e["ts"] = op.D, op.R, op.Ts
			err = db.Open(file(op.D), midnight.Add(histStampOff[op.Ts]), fullReq(op.R))
		case "Write":
			e["st"] = op.St
			// the run the writer is attached to is known to the model; the payload only carries the status id
			err = db.Write(&model.Status{RequestID: curReq(sc.Ops, op), Name: "x", Status: scheduler.StatusRunning, Params: op.St})
		case "Close":
			err = db.Close()
		case "Update":
			reqs[op.R] = true
			e["d"], e["r"], e["st"] = op.D, op.R, op.St
			err = db.Update(file(op.D), fullReq(op.R), histStatus(op.D, op.R, op.St))
		case "Rename":
			e["d"], e["to"] = op.D, op.To
			err = db.Rename(file(op.D), file(op.To))
		case "RemoveOld":
			e["d"], e["days"] = op.D, op.Days
			err = db.RemoveOld(file(op.D), op.Days)
		case "RemoveAll":
			e["d"] = op.D
			err = db.RemoveAll(file(op.D))
		case "SetAge":
			e["r"], e["age"] = op.R, op.Age
			if f := fileOf(op.R); f != "" {
				t := time.Now().Add(-time.Duration(op.Age)*24*time.Hour - time.Hour)
				err = os.Chtimes(f, t, t)
			}
		}
		e["err"] = err != nil
		if err != nil {
			e["errText"] = err.Error()
		}
		ans := Ev{}
		for _, d := range dags {
			a := Ev{}
			find := Ev{}
			for r := range reqs {
				sf, ferr := db.FindByRequestID(file(d), fullReq(r))
				if ferr != nil || sf == nil || sf.Status == nil {
					find[r] = "notfound"
				} else {
					find[r] = sf.Status.Params
				}
			}
			a["find"] = find
			st, lerr := db.ReadStatusToday(file(d))
			switch {
			case lerr != nil && st == nil && (strings.Contains(lerr.Error(), "no status data")):
				a["latest"] = "nodata"
			case lerr != nil:
				a["latest"] = "error:" + lerr.Error()
			default:
				a["latest"] = st.Params
			}
			for _, n := range []int{1, 2, 9} {
				lst := []string{}
				for _, sf := range db.ReadStatusRecent(file(d), n) {
					lst = append(lst, sf.Status.Params)
				}
				a[fmt.Sprintf("recent%d", n)] = lst
			}
			ans[d] = a
		}
		e["ans"] = ans
		emit(e)
	}
	_ = db.Close()
	emit(Ev{"ev": "End", "scen": sc.Scen, "dayChanged": time.Now().UTC().Day() != day0.Day()})
	return nil
}

// request id of the run the writer is attached to at op (the last Open before it)
func curReq(ops []HistOp, at HistOp) string {
	cur := ""
	for i := range ops {
		if &ops[i] == &at {
			break
		}
		if ops[i].Op == "Open" {
			cur = ops[i].R
		}
		if ops[i].Op == "Write" && ops[i].St == at.St {
			break
		}
	}
	return fullReq(cur)
}

// GenHist draws a random operation sequence with the same guards as MCHistory!MNext.
func GenHist(id int, rng *rand.Rand) HistScenario {
	sc := HistScenario{Scen: id, Names: HistNameOrder[rng.Intn(len(HistNameOrder))], TodayOnly: rng.Intn(2) == 0, Src: "random"}
	type run struct {
		dag  string
		nst  int
		aged bool
	}
	runs := map[string]*run{}
	open := ""
	usedTs := map[int]bool{}
	nreq := 0
	dags := []string{"d1", "d2", "d3"}
	n := 6 + rng.Intn(14)
	for len(sc.Ops) < n {
		switch rng.Intn(9) {
		case 0, 1:
			if nreq >= 7 || len(usedTs) >= 9 {
				continue
			}
			ts := 1 + rng.Intn(9)
			if usedTs[ts] {
				continue
			}
			usedTs[ts] = true
			nreq++
			r := fmt.Sprintf("r%d", nreq)
			d := dags[rng.Intn(3)]
			runs[r] = &run{dag: d}
			open = r
			sc.Ops = append(sc.Ops, HistOp{Op: "Open", D: d, R: r, Ts: ts})
		case 2, 3, 4:
			if open == "" {
				continue
			}
			runs[open].nst++
			sc.Ops = append(sc.Ops, HistOp{Op: "Write", St: fmt.Sprintf("%s.%d", open, runs[open].nst)})
		case 5:
			if open == "" {
				continue
			}
			open = ""
			sc.Ops = append(sc.Ops, HistOp{Op: "Close"})
		case 6:
			if len(runs) == 0 {
				continue
			}
			r := fmt.Sprintf("r%d", 1+rng.Intn(nreq+1))
			if r == open {
				continue
			}
			d := dags[rng.Intn(3)]
			st := r + ".9"
			if ru, ok := runs[r]; ok {
				if rng.Intn(4) > 0 {
					d = ru.dag
				}
				if d == ru.dag && ru.nst > 0 {
					ru.nst++
					st = fmt.Sprintf("%s.%d", r, ru.nst)
				}
			}
			sc.Ops = append(sc.Ops, HistOp{Op: "Update", D: d, R: r, St: st})
		case 7:
			d, d2 := dags[rng.Intn(3)], dags[rng.Intn(3)]
			if (d == d2 && rng.Intn(4) > 0) || (open != "" && runs[open].dag == d) {
				continue // (a rename onto the same name is issued now and then: it must change nothing)
			}
			for _, ru := range runs {
				if ru.dag == d {
					ru.dag = d2
				}
			}
			sc.Ops = append(sc.Ops, HistOp{Op: "Rename", D: d, To: d2})
		case 8:
			d := dags[rng.Intn(3)]
			if open != "" && runs[open].dag == d {
				continue
			}
			switch rng.Intn(3) {
			case 0:
				var cands []string
				for r := range runs {
					if r != open {
						cands = append(cands, r)
					}
				}
				if len(cands) == 0 {
					continue
				}
				// deterministic choice independent of map order
				best := cands[0]
				for _, c := range cands {
					if c < best {
						best = c
					}
				}
				sc.Ops = append(sc.Ops, HistOp{Op: "SetAge", R: best, Age: 30})
			case 1:
				// retention periods around the age the driver gives to old runs (30 days) and very long ones ("keep for ever")
				sc.Ops = append(sc.Ops, HistOp{Op: "RemoveOld", D: d, Days: []int{7, 7, 29, 31, 365, 36500, 106751, 106752, 150000, 999999}[rng.Intn(10)]})
				for r, ru := range runs {
					_ = r
					_ = ru
				}
			case 2:
				if rng.Intn(3) == 0 {
					sc.Ops = append(sc.Ops, HistOp{Op: "RemoveAll", D: d})
					for r, ru := range runs {
						if ru.dag == d {
							delete(runs, r)
						}
					}
				}
			}
		}
	}
	return sc
}
