package rig

// Step-scheduler rig: runs the real scheduler.Schedule / Scheduler.Signal under a
// gate controller (the verif hooks park every goroutine at named gates) with a
// scripted executor, and records the trace that SchedObserve.tla (property
// monitors) and StepSchedTrace.tla (conformance with the implementation-shaped
// model StepSched.tla) validate.

import (
	"context"
	"errors"
	"fmt"
	"io"
	"log"
	"math/rand"
	"os"
	"path/filepath"
	"strings"
	"sync"
	"syscall"
	"time"

	"github.com/ErdemOzgen/blackdagger/internal/dag"
	"github.com/ErdemOzgen/blackdagger/internal/dag/executor"
	"github.com/ErdemOzgen/blackdagger/internal/dag/scheduler"
	"github.com/ErdemOzgen/blackdagger/internal/logger"
)

// Scenario is one run configuration. Indices are 1-based in the JSON form that
// the TLA+ side sees (steps are 1..N in file order).
type Scenario struct {
	ID        int        `json:"id"`
	N         int        `json:"n"`
	Deps      [][]int    `json:"deps"`      // Deps[i] = 1-based indices step i+1 depends on (ascending)
	ContF     []bool     `json:"contF"`     // continueOn.failure
	ContS     []bool     `json:"contS"`     // continueOn.skipped
	RLimit    []int      `json:"rlimit"`    // retryPolicy.limit
	PCond     []string   `json:"pcond"`     // none | met | unmet
	Repeat    []bool     `json:"repeat"`    // repeatPolicy.repeat
	Obeys     []bool     `json:"obeys"`     // process exits when signalled with the stop signal
	SigOnStop []string   `json:"sigOnStop"` // signalOnStop ("" = none)
	FailK     []int      `json:"failK"`     // script: fail the first k attempts (99 = always)
	MaxActive int        `json:"maxActive"`
	Handlers  []string   `json:"handlers"` // subset of success failure cancel exit
	HFail     []string   `json:"hfail"`    // handlers scripted to fail
	DoneChan  bool       `json:"doneChan"`
	Dry       bool       `json:"dry"`
	Stop      bool       `json:"stop"`
	Kill      bool       `json:"kill"`
	Timeout   bool       `json:"timeout"`
	Seed      int64      `json:"seed"`             // schedule seed (random driver)
	StopAt    int        `json:"stopAt"`           // move index at which the stop request is issued
	Moves     []string   `json:"moves"`            // model-driven schedule (optional): thread names to release
	Weights   [5]float64 `json:"weights"`          // bias per thread class L W T S P
	Init      []string   `json:"init,omitempty"`   // retry of a recorded run: recorded status per step
	SnapAt    int        `json:"snapAt,omitempty"` // first run of a retry pair: take the "killed here" status snapshot at this move
}

// RunInfo is what a retry scenario needs to know about the run it retries.
type RunInfo struct {
	Final []string // statuses when Schedule returned
	Snap  []string // statuses at move SnapAt (as a SIGKILL at that instant would have left them on disk), or nil
}

const timeoutDur = 400 * time.Millisecond

var hTypes = []string{"success", "failure", "cancel", "exit"}

func stepName(i int) string { return fmt.Sprintf("s%d", i) }
func stepIndex(name string) int {
	var i int
	if _, err := fmt.Sscanf(name, "s%d", &i); err != nil {
		return 0
	}
	return i
}
func isHandlerName(n string) bool { return strings.HasPrefix(n, "h_") }

// ---------------------------------------------------------------------------
// controller

type parked struct {
	thread  string // L | W:<i> | T:<i> | S
	point   string // gate name (model pc)
	step    string
	ch      chan string // release value: "" or the outcome for a parked process
	arrived int
}

type segState struct {
	from    string
	fstep   int
	writes  [][2]any // step status writes
	hwrites [][2]any // handler status writes
	o       any      // outcome of the process whose exit starts this segment (bool) or nil
}

type schedRun struct {
	sc  Scenario
	tr  *Tracer
	rng *rand.Rand

	mu          sync.Mutex
	cond        *sync.Cond
	parked      []*parked
	running     int
	liveWorkers int
	cur         string // thread currently released
	segs        map[string]*segState
	hung        bool
	nArr        int

	// scripted executor state
	attempts map[string]int    // ExecBegin count per step name
	sigd     map[string]string // strongest signal delivered to the live process
	aliveP   map[string]bool
	ctxFired bool

	stopIssued, stopFlagged, killIssued bool
	termRoundDone                       bool
	returned                            bool
	retErr                              error
	start                               time.Time
	sched                               *scheduler.Scheduler
	graph                               *scheduler.ExecutionGraph
	snap                                []string
	stuck                               bool
	free                                bool // free-running mode: gates only log
	lastCtx                             context.Context
	ctxUpper                            time.Time // the run context (deadline) was created before this instant
	dirty                               bool      // something other than the loop moved since the loop was last at loop.top
	lStale                              bool      // the loop would only repeat an identical iteration
	lWrote                              bool      // the loop changed a status during its current iteration
}

var (
	curRunMu sync.Mutex
	curRun   *schedRun
)

func threadOf(point, step string) string {
	switch {
	case strings.HasPrefix(point, "loop.") || point == "handler":
		return "L"
	case strings.HasPrefix(point, "signal."):
		return "S"
	case point == "worker.tail" || point == "worker.exit":
		return fmt.Sprintf("T:%d", stepIndex(step))
	default:
		if isHandlerName(step) {
			return "L"
		}
		return fmt.Sprintf("W:%d", stepIndex(step))
	}
}

// model pc name for a gate
func pcOf(point, step string) string {
	if isHandlerName(step) {
		switch point {
		case "node.created":
			return "h.created"
		case "proc":
			return "h.proc"
		}
	}
	return point
}

func hIndex(step string) string { return strings.TrimPrefix(step, "h_") }

func (r *schedRun) emit(e Ev) {
	e["run"] = r.sc.ID
	r.tr.Emit(e)
}

// hook is installed as scheduler.VerifHook.
func (r *schedRun) hook(point, step string) {
	switch point {
	case "worker.loopchk":
		if r.free {
			// free-running mode: the worker reads the stop flag right after this point, concurrently with a stop request.
			// Logging "Checked" only after the read (at worker.exec) can put it behind a Stop that came after the read;
			// logged here, "Checked before Stop" + a later ExecBegin implies the read preceded the stop (window start).
			r.emit(Ev{"ev": "Checked", "s": stepIndex(step)})
		}
		return
	case "node.teardown":
		if !isHandlerName(step) {
			r.emit(Ev{"ev": "Teardown", "s": stepIndex(step)})
		}
		return
	case "worker.retrywait":
		r.emit(Ev{"ev": "RetryWait", "s": stepIndex(step)})
		return
	case "worker.exit":
		r.mu.Lock()
		th := threadOf(point, step)
		r.endSeg(th, "exit", 0)
		r.running--
		r.liveWorkers--
		r.cond.Broadcast()
		r.mu.Unlock()
		return
	}
	if point == "worker.retrywake" {
		r.emit(Ev{"ev": "RetryWake", "s": stepIndex(step)})
	}
	if point == "worker.exec" {
		// the worker has just passed its own cancel check (loop condition)
		r.emit(Ev{"ev": "Checked", "s": stepIndex(step)})
	}
	if r.free && point == "worker.post" && !isHandlerName(step) && r.sc.Repeat[stepIndex(step)-1] {
		// a repeating step reads the flag again before its next iteration without passing worker.loopchk
		r.emit(Ev{"ev": "Checked", "s": stepIndex(step)})
	}
	if r.free {
		if point == "signal.flagged" {
			r.emit(Ev{"ev": "Stop"})
		}
		return
	}
	r.park(point, step, nil)
}

// endSeg emits the segment record of thread th that ends by arriving at gate `to`. r.mu held.
func (r *schedRun) endSeg(th, to string, tstep int) {
	sg := r.segs[th]
	from, fstep := "spawn", 0
	var w, hw [][2]any
	var o any
	if sg != nil {
		from, fstep, w, hw, o = sg.from, sg.fstep, sg.writes, sg.hwrites, sg.o
	} else if th == "L" {
		from = "start"
	} else if th == "S" {
		from = "call"
	}
	if w == nil {
		w = [][2]any{}
	}
	if hw == nil {
		hw = [][2]any{}
	}
	delete(r.segs, th)
	e := Ev{"ev": "Seg", "th": th[:1], "from": from, "fs": fstep, "to": to, "ts": tstep, "w": w, "hw": hw}
	if o != nil {
		e["o"] = o
	}
	if len(th) > 2 {
		var i int
		fmt.Sscanf(th[2:], "%d", &i)
		e["s"] = i
	} else {
		e["s"] = 0
	}
	r.emit(e)
}

// park blocks the calling goroutine at a gate until the driver releases it.
func (r *schedRun) park(point, step string, onArrive func()) string {
	th := threadOf(point, step)
	pc := pcOf(point, step)
	p := &parked{thread: th, point: pc, step: step, ch: make(chan string, 1)}
	r.mu.Lock()
	ts := stepIndex(step)
	if point == "worker.tail" {
		// the goroutine of step i turns into an anonymous old goroutine
		w := fmt.Sprintf("W:%d", ts)
		if sg := r.segs[w]; sg != nil {
			r.segs[th] = sg
			delete(r.segs, w)
		}
		r.endSegAs(th, w, pc, ts)
	} else {
		r.endSeg(th, pc, ts)
	}
	if th == "L" && r.ctxUpper.IsZero() {
		r.ctxUpper = time.Now()
	}
	if point == "signal.flagged" && !r.stopFlagged {
		r.stopFlagged = true
		r.emit(Ev{"ev": "Stop"})
	}
	if th == "L" && pc == "loop.top" {
		r.lStale = !r.dirty && r.nArr > 0 && !r.lWrote
		r.lWrote = false
	}
	if onArrive != nil {
		onArrive()
	}
	r.nArr++
	p.arrived = r.nArr
	r.parked = append(r.parked, p)
	r.running--
	r.cond.Broadcast()
	r.mu.Unlock()
	v := <-p.ch
	return v
}

// endSegAs: like endSeg but reports the segment under thread name `as` (worker -> tail hand-over)
func (r *schedRun) endSegAs(th, as, to string, tstep int) {
	sg := r.segs[th]
	from, fstep := "spawn", 0
	var w [][2]any
	var o any
	if sg != nil {
		from, fstep, w, o = sg.from, sg.fstep, sg.writes, sg.o
	}
	if w == nil {
		w = [][2]any{}
	}
	delete(r.segs, th)
	var i int
	fmt.Sscanf(as[2:], "%d", &i)
	e := Ev{"ev": "Seg", "th": "W", "s": i, "from": from, "fs": fstep, "to": to, "ts": tstep, "w": w, "hw": [][2]any{}}
	if o != nil {
		e["o"] = o
	}
	r.emit(e)
}

// traceHook is installed as scheduler.VerifTrace; it is called under n.mu.
func (r *schedRun) traceHook(point, step, status string) {
	if point != "status" {
		return
	}
	if isHandlerName(step) {
		r.emit(Ev{"ev": "HStatus", "h": hIndex(step), "st": status})
	} else {
		r.emit(Ev{"ev": "Status", "s": stepIndex(step), "st": status})
	}
	if r.free {
		return
	}
	r.mu.Lock()
	if sg := r.segs[r.cur]; sg != nil {
		if isHandlerName(step) {
			sg.hwrites = append(sg.hwrites, [2]any{hIndex(step), status})
		} else {
			sg.writes = append(sg.writes, [2]any{stepIndex(step), status})
		}
	}
	if r.cur == "L" {
		r.lWrote = true
	}
	if r.cur == "L" && status == "running" && !isHandlerName(step) {
		// the loop is about to spawn the worker goroutine of this step
		r.running++
		r.liveWorkers++
	}
	r.mu.Unlock()
}

// waitQuiescent blocks until every live goroutine of the run is parked (or gone).
func (r *schedRun) waitQuiescent() error {
	deadline := time.AfterFunc(20*time.Second, func() {
		r.mu.Lock()
		r.hung = true
		r.cond.Broadcast()
		r.mu.Unlock()
	})
	defer deadline.Stop()
	r.mu.Lock()
	defer r.mu.Unlock()
	for r.running > 0 && !r.hung {
		r.cond.Wait()
	}
	if r.hung {
		var ps []string
		for _, p := range r.parked {
			ps = append(ps, p.thread+"@"+p.point)
		}
		return fmt.Errorf("not quiescent after 20s: running=%d parked=%v", r.running, ps)
	}
	return nil
}

func (r *schedRun) release(p *parked, val string) {
	r.releaseO(p, val, nil)
}

func (r *schedRun) releaseO(p *parked, val string, o any) {
	r.mu.Lock()
	for i, q := range r.parked {
		if q == p {
			r.parked = append(r.parked[:i], r.parked[i+1:]...)
			break
		}
	}
	r.cur = p.thread
	r.segs[p.thread] = &segState{from: p.point, fstep: stepIndex(p.step), o: o}
	r.running++
	if p.thread == "L" {
		if p.point == "loop.top" {
			r.dirty = false
		}
	} else {
		r.dirty = true
		r.lStale = false
	}
	r.mu.Unlock()
	p.ch <- val
}

// ---------------------------------------------------------------------------
// scripted executor

type scriptedExec struct {
	r    *schedRun
	name string
	ctx  context.Context
	// like the command executor: a stop request that reaches the executor before its process was started
	// (Kill or PreventStart) makes Run start nothing
	started, prevented bool
}

func (s *scriptedExec) PreventStart() {
	s.r.mu.Lock()
	if !s.started {
		s.prevented = true
	}
	s.r.mu.Unlock()
}

func (s *scriptedExec) SetStdout(io.Writer) {}
func (s *scriptedExec) SetStderr(io.Writer) {}

func sigName(sig os.Signal) string {
	switch sig {
	case syscall.SIGTERM:
		return "term"
	case syscall.SIGKILL:
		return "kill"
	case syscall.SIGINT:
		return "int"
	case syscall.SIGUSR1:
		return "usr1"
	}
	return fmt.Sprint(sig)
}

func (s *scriptedExec) Kill(sig os.Signal) error {
	r := s.r
	r.mu.Lock()
	alive := r.aliveP[s.name]
	sn := sigName(sig)
	if alive {
		if sn == "kill" || r.sigd[s.name] == "" || r.sigd[s.name] == "none" {
			r.sigd[s.name] = sn
		}
	} else if !s.started {
		s.prevented = true
	}
	r.mu.Unlock()
	if !isHandlerName(s.name) {
		r.emit(Ev{"ev": "Kill", "s": stepIndex(s.name), "sig": sn, "alive": alive})
	}
	return nil
}

var errScripted = errors.New("exit status 1")

func (s *scriptedExec) Run() error {
	r := s.r
	// the decision to start (context not expired, no stop request seen by the executor) and the ExecBegin record are made
	// under r.mu, the lock under which the driver declares the deadline passed: "Timeout" can then not slip in between
	// a start that was decided before the deadline and its record
	r.mu.Lock()
	expired := s.ctx.Err() != nil
	if !expired && r.ctxFired {
		// "Timeout" has been declared on a sibling context (the deadline has fired there); the cancellation reaches the
		// children of the run's context one after the other, so this one may be a few hundred nanoseconds behind. If it
		// carries the run's deadline and the clock is past it, it is expired for every purpose (exec.CommandContext would
		// kill the process at once). A context WITHOUT that deadline - not derived from the run's - goes on and is judged.
		if dl, ok := s.ctx.Deadline(); ok && !time.Now().Before(dl) {
			expired = true
		}
	}
	if expired {
		// like exec.CommandContext: an expired context refuses to start the process
		if !r.ctxFired {
			r.ctxFired = true
			r.emit(Ev{"ev": "Timeout"})
		}
		r.mu.Unlock()
		if isHandlerName(s.name) {
			r.emit(Ev{"ev": "HRefused", "h": hIndex(s.name)})
		} else {
			r.emit(Ev{"ev": "ExecRefused", "s": stepIndex(s.name)})
		}
		if err := s.ctx.Err(); err != nil {
			return err
		}
		return context.DeadlineExceeded
	}
	if s.prevented {
		r.mu.Unlock()
		if isHandlerName(s.name) {
			r.emit(Ev{"ev": "HRefused", "h": hIndex(s.name)})
		} else {
			r.emit(Ev{"ev": "ExecRefused", "s": stepIndex(s.name)})
		}
		return errors.New("not started: the run is being stopped")
	}
	s.started = true
	r.attempts[s.name]++
	att := r.attempts[s.name]
	r.aliveP[s.name] = true
	r.sigd[s.name] = "none"
	if isHandlerName(s.name) {
		r.emit(Ev{"ev": "HBegin", "h": hIndex(s.name)})
	} else {
		r.emit(Ev{"ev": "ExecBegin", "s": stepIndex(s.name), "att": att})
	}
	r.mu.Unlock()
	var out string
	if r.free {
		out = r.freeOutcome(s, att)
		why := "script"
		if out == "ctx" {
			why = "ctx"
		} else if out != "ok" && out != "fail" {
			why = "signal"
		}
		if isHandlerName(s.name) {
			r.emit(Ev{"ev": "HEnd", "h": hIndex(s.name), "ok": out == "ok"})
		} else {
			r.emit(Ev{"ev": "ExecEnd", "s": stepIndex(s.name), "ok": out == "ok", "why": why})
		}
	} else {
		out = r.park("proc", s.name, nil)
	}
	r.mu.Lock()
	r.aliveP[s.name] = false
	r.mu.Unlock()
	if out == "ok" {
		return nil
	}
	if out == "ctx" {
		return errors.New("signal: killed")
	}
	if out == "term" || out == "kill" {
		return errors.New("signal: " + out)
	}
	return errScripted
}

// outcome the script prescribes for attempt att of step name (ignoring signals)
func (r *schedRun) scripted(name string, att int) string {
	if isHandlerName(name) {
		for _, h := range r.sc.HFail {
			if h == hIndex(name) {
				return "fail"
			}
		}
		return "ok"
	}
	i := stepIndex(name)
	if att <= r.sc.FailK[i-1] {
		return "fail"
	}
	return "ok"
}

func (r *schedRun) freeOutcome(s *scriptedExec, att int) string {
	// free-running mode: the "process" runs for a short random time, polling for signals
	r.mu.Lock()
	d := time.Duration(r.rng.Intn(3000)) * time.Microsecond
	r.mu.Unlock()
	end := time.Now().Add(d)
	for time.Now().Before(end) {
		if s.ctx.Err() != nil {
			return "ctx"
		}
		r.mu.Lock()
		sg := r.sigd[s.name]
		r.mu.Unlock()
		if sg == "kill" || (sg != "none" && sg != "" && r.obeys(s.name)) {
			return sg
		}
		time.Sleep(50 * time.Microsecond)
	}
	return r.scripted(s.name, att)
}

func (r *schedRun) obeys(name string) bool {
	if isHandlerName(name) {
		return true
	}
	return r.sc.Obeys[stepIndex(name)-1]
}

func init() {
	executor.Register("verif", func(ctx context.Context, step dag.Step) (executor.Executor, error) {
		curRunMu.Lock()
		r := curRun
		curRunMu.Unlock()
		if r == nil {
			return nil, errors.New("verif executor without a run")
		}
		if isHandlerName(step.Name) {
			r.emit(Ev{"ev": "HCreate", "h": hIndex(step.Name)})
		} else {
			r.emit(Ev{"ev": "ExecCreate", "s": stepIndex(step.Name)})
		}
		r.mu.Lock()
		r.lastCtx = ctx // a child of the run's context: lets the driver see the moment the deadline has really fired
		r.mu.Unlock()
		return &scriptedExec{r: r, name: step.Name, ctx: ctx}, nil
	})
}

// ---------------------------------------------------------------------------
// building and running one scenario

func (sc *Scenario) steps(runTag string) []dag.Step {
	var steps []dag.Step
	for i := 1; i <= sc.N; i++ {
		st := dag.Step{
			Name:           stepName(i),
			ExecutorConfig: dag.ExecutorConfig{Type: "verif"},
			ContinueOn:     dag.ContinueOn{Failure: sc.ContF[i-1], Skipped: sc.ContS[i-1]},
			RepeatPolicy:   dag.RepeatPolicy{Repeat: sc.Repeat[i-1]},
			SignalOnStop:   sc.SigOnStop[i-1],
		}
		for _, d := range sc.Deps[i-1] {
			st.Depends = append(st.Depends, stepName(d))
		}
		if sc.RLimit[i-1] > 0 {
			st.RetryPolicy = &dag.RetryPolicy{Limit: sc.RLimit[i-1]}
		}
		if sc.PCond[i-1] != "none" {
			// "met": every condition of the list holds; "unmet": exactly one of them does not. The list has one or two
			// entries and the unmet one comes first or last (chosen from the scenario seed and the step index)
			key := fmt.Sprintf("VERIF_PC_%s_%d", runTag, i)
			os.Setenv(key, "1")
			os.Setenv(key+"_N", "0")
			yes := dag.Condition{Condition: "$" + key, Expected: "1"}
			no := dag.Condition{Condition: "$" + key + "_N", Expected: "1"}
			shape := int((uint64(sc.Seed)>>7)+uint64(i)*2654435761) % 3
			switch {
			case sc.PCond[i-1] == "met" && shape == 0:
				st.Preconditions = []dag.Condition{yes}
			case sc.PCond[i-1] == "met":
				st.Preconditions = []dag.Condition{yes, yes}
			case shape == 0:
				st.Preconditions = []dag.Condition{no}
			case shape == 1:
				st.Preconditions = []dag.Condition{no, yes}
			default:
				st.Preconditions = []dag.Condition{yes, no}
			}
		}
		steps = append(steps, st)
	}
	return steps
}

func (sc *Scenario) handler(t string) *dag.Step {
	for _, h := range sc.Handlers {
		if h == t {
			return &dag.Step{Name: "h_" + t, ExecutorConfig: dag.ExecutorConfig{Type: "verif"}}
		}
	}
	return nil
}

func (sc *Scenario) resetEvent() Ev {
	deps := make([][]int, sc.N)
	for i := range deps {
		deps[i] = append([]int{}, sc.Deps[i]...)
	}
	hs := append([]string{}, sc.Handlers...)
	hf := append([]string{}, sc.HFail...)
	e := Ev{"ev": "Reset", "n": sc.N, "deps": deps, "contF": sc.ContF, "contS": sc.ContS,
		"rlimit": sc.RLimit, "pcond": sc.PCond, "repeat": sc.Repeat, "obeys": sc.Obeys,
		"sigOnStop": sc.SigOnStop, "failK": sc.FailK, "maxActive": sc.MaxActive,
		"handlers": hs, "hfail": hf, "doneChan": sc.DoneChan, "dry": sc.Dry,
		"stop": sc.Stop, "kill": sc.Kill, "timeout": sc.Timeout, "seed": sc.Seed}
	if len(sc.Moves) > 0 {
		e["model"] = true
	}
	return e
}

var quietLogger = logger.NewLogger(logger.NewLoggerArgs{Quiet: true})

// RunSched executes one scenario on the real scheduler and appends its trace to tr.
// The returned error is an infrastructure error (hang of the rig), never a verdict.
func RunSched(sc Scenario, tr *Tracer, logDir string, free bool) error {
	_, err := RunSchedInfo(sc, tr, logDir, free)
	return err
}

func RunSchedInfo(sc Scenario, tr *Tracer, logDir string, free bool) (*RunInfo, error) {
	log.SetOutput(io.Discard)
	r := &schedRun{sc: sc, tr: tr, rng: rand.New(rand.NewSource(sc.Seed)), segs: map[string]*segState{},
		attempts: map[string]int{}, sigd: map[string]string{}, aliveP: map[string]bool{}, free: free}
	r.cond = sync.NewCond(&r.mu)
	curRunMu.Lock()
	curRun = r
	curRunMu.Unlock()
	scheduler.VerifHook = r.hook
	scheduler.VerifTrace = r.traceHook
	defer func() {
		scheduler.VerifHook = nil
		scheduler.VerifTrace = nil
	}()

	runTag := fmt.Sprintf("%d", sc.ID)
	var g *scheduler.ExecutionGraph
	var err error
	var startSt []string
	if len(sc.Init) > 0 {
		steps := sc.steps(runTag)
		nodes := make([]*scheduler.Node, len(steps))
		for i := range steps {
			nodes[i] = scheduler.NewNode(steps[i], scheduler.NodeState{Status: statusByName(sc.Init[i])})
		}
		g, err = scheduler.NewExecutionGraphForRetry(quietLogger, nodes...)
		if err == nil {
			for _, n := range g.Nodes() {
				startSt = append(startSt, n.State().Status.String())
			}
		}
	} else {
		g, err = scheduler.NewExecutionGraph(quietLogger, sc.steps(runTag)...)
	}
	if err != nil {
		return nil, fmt.Errorf("graph: %w", err)
	}
	dir := filepath.Join(logDir, runTag)
	cfg := &scheduler.Config{LogDir: dir, Logger: quietLogger, MaxActiveRuns: sc.MaxActive, Dry: sc.Dry,
		OnExit: sc.handler("exit"), OnSuccess: sc.handler("success"), OnFailure: sc.handler("failure"),
		OnCancel: sc.handler("cancel"), ReqID: "verif" + runTag}
	if sc.Timeout {
		cfg.Timeout = timeoutDur
	}
	s := scheduler.New(cfg)
	s.VerifSetPause(time.Microsecond)
	r.sched, r.graph = s, g
	re := sc.resetEvent()
	if len(sc.Init) > 0 {
		re["init"] = sc.Init
		re["start"] = startSt
	}
	r.emit(re)

	var done chan *scheduler.Node
	var doneWG sync.WaitGroup
	if sc.DoneChan {
		done = make(chan *scheduler.Node)
		doneWG.Add(1)
		go func() {
			defer doneWG.Done()
			lrng := rand.New(rand.NewSource(sc.Seed ^ 0x5bd1))
			for range done {
				if free {
					// a listener that is slow now and then (the agent's listener writes the status file and may send
					// mail before it takes the next node): senders block in `done <- node` meanwhile
					if lrng.Intn(3) > 0 {
						time.Sleep(time.Duration(lrng.Intn(2500)) * time.Microsecond)
					}
				}
			}
		}()
	}
	r.start = time.Now()
	r.mu.Lock()
	r.running = 1
	r.cur = "L"
	r.mu.Unlock()
	go func() {
		ctx := dag.NewContext(context.Background(), nil, nil, "verif"+runTag, "")
		err := s.Schedule(ctx, g, done)
		r.mu.Lock()
		r.endSeg("L", "returned", 0)
		r.returned = true
		r.retErr = err
		r.running--
		r.cond.Broadcast()
		r.mu.Unlock()
	}()

	var derr error
	if free {
		derr = r.driveFree()
	} else if len(sc.Moves) > 0 {
		derr = r.driveMoves()
	} else {
		derr = r.driveRandom()
	}
	if done != nil {
		close(done)
		doneWG.Wait()
	}
	if derr != nil {
		r.emit(Ev{"ev": "Infra", "msg": derr.Error()})
		// unblock whatever is still parked so that goroutines do not leak into the next run
		r.mu.Lock()
		ps := r.parked
		r.parked = nil
		r.mu.Unlock()
		for _, p := range ps {
			p.ch <- "fail"
		}
		return nil, derr
	}
	// final observation
	final := make([]Ev, 0, sc.N)
	for _, n := range g.Nodes() {
		st := n.State()
		final = append(final, Ev{"st": st.Status.String(), "retry": st.RetryCount, "done": st.DoneCount,
			"err": st.Error != nil})
	}
	hfinal := Ev{}
	for _, t := range hTypes {
		if hn := s.HandlerNode(dag.HandlerType(hName(t))); hn != nil {
			hfinal[t] = hn.State().Status.String()
		} else {
			hfinal[t] = "absent"
		}
	}
	r.emit(Ev{"ev": "Returned", "status": s.Status(g).String(), "err": r.retErr != nil, "final": final,
		"hfinal": hfinal})
	os.RemoveAll(dir)
	info := &RunInfo{Snap: r.snap}
	for _, n := range g.Nodes() {
		info.Final = append(info.Final, n.State().Status.String())
	}
	return info, nil
}

func hName(t string) string {
	switch t {
	case "success":
		return string(dag.HandlerOnSuccess)
	case "failure":
		return string(dag.HandlerOnFailure)
	case "cancel":
		return string(dag.HandlerOnCancel)
	}
	return string(dag.HandlerOnExit)
}

// ---------------------------------------------------------------------------
// drivers

func classOf(p *parked) int {
	switch {
	case p.point == "proc" || p.point == "h.proc":
		return 4
	case p.thread == "L":
		return 0
	case p.thread[0] == 'W':
		return 1
	case p.thread[0] == 'T':
		return 2
	}
	return 3
}

// outcomeFor decides how a parked process ends when it is released now.
func (r *schedRun) outcomeFor(p *parked) (string, string) {
	r.mu.Lock()
	sg := r.sigd[p.step]
	att := r.attempts[p.step]
	fired := r.ctxFired
	r.mu.Unlock()
	if fired {
		return "ctx", "ctx"
	}
	if sg == "kill" {
		return "kill", "kill"
	}
	if sg != "" && sg != "none" && r.obeys(p.step) {
		return sg, "signal"
	}
	return r.scripted(p.step, att), "script"
}

// checkTimeout declares the deadline passed only when it certainly has: the real deadline lies in
// [start+T, ctxUpper+T]; while the clock is inside that window the driver waits it out.
func (r *schedRun) checkTimeout() {
	if !r.sc.Timeout {
		return
	}
	r.mu.Lock()
	up := r.ctxUpper
	fired := r.ctxFired
	r.mu.Unlock()
	if fired || up.IsZero() {
		return
	}
	now := time.Now()
	if now.Before(r.start.Add(timeoutDur - time.Millisecond)) {
		return
	}
	time.Sleep(time.Until(up.Add(timeoutDur + 2*time.Millisecond)))
	// the context's deadline is a timer: on a busy machine it may fire late. "Timeout" is only declared once a context
	// derived from the run's context is seen expired (or, if no executor was ever created, after a generous margin)
	r.mu.Lock()
	lc := r.lastCtx
	r.mu.Unlock()
	if lc != nil {
		for i := 0; i < 20000 && lc.Err() == nil; i++ {
			time.Sleep(100 * time.Microsecond)
		}
	} else {
		time.Sleep(30 * time.Millisecond)
	}
	r.mu.Lock()
	if !r.ctxFired {
		r.ctxFired = true
		r.dirty = true
		r.lStale = false
		r.emit(Ev{"ev": "Timeout"})
	}
	r.mu.Unlock()
}

func (r *schedRun) passDeadline() {
	time.Sleep(time.Until(r.start.Add(timeoutDur)))
	r.checkTimeout()
}

func (r *schedRun) issueStop(sig syscall.Signal) {
	r.mu.Lock()
	r.dirty = true
	r.lStale = false
	r.running++
	r.cur = "S"
	r.mu.Unlock()
	if sig == syscall.SIGKILL {
		r.emit(Ev{"ev": "KillRound"})
	}
	go func() {
		// the agent passes allowOverride=true for the stop request and false for the escalation
		r.sched.Signal(r.graph, sig, nil, sig == syscall.SIGTERM)
		round := "kill"
		if sig == syscall.SIGTERM {
			round = "term"
		}
		r.emit(Ev{"ev": "SignalReturn", "round": round})
		r.mu.Lock()
		r.endSeg("S", "sigreturn", 0)
		if sig == syscall.SIGTERM {
			r.termRoundDone = true
		}
		r.running--
		r.cond.Broadcast()
		r.mu.Unlock()
	}()
}

func (r *schedRun) doRelease(p *parked) { r.doReleaseF(p, "") }

// doReleaseF: forced (if not empty) overrides the scripted outcome of a process (model-driven replay)
func (r *schedRun) doReleaseF(p *parked, forced string) {
	if p.point == "proc" || p.point == "h.proc" {
		out, why := r.outcomeFor(p)
		if why == "script" && forced != "" {
			out = forced
		}
		if isHandlerName(p.step) {
			r.emit(Ev{"ev": "HEnd", "h": hIndex(p.step), "ok": out == "ok"})
		} else {
			r.emit(Ev{"ev": "ExecEnd", "s": stepIndex(p.step), "ok": out == "ok", "why": why})
		}
		r.releaseO(p, out, out == "ok")
		return
	}
	r.release(p, "")
}

func (r *schedRun) enabled() []*parked { return r.enabledM(false) }

// enabledM: in model-driven mode an idle loop iteration is a legal move (the model has it too)
func (r *schedRun) enabledM(model bool) []*parked {
	r.mu.Lock()
	defer r.mu.Unlock()
	var out []*parked
	for _, p := range r.parked {
		if p.thread == "L" && p.point == "loop.wgwait" && r.liveWorkers > 0 {
			continue
		}
		if p.thread == "L" && p.point == "loop.top" && r.lStale && !model {
			continue // releasing the loop now would repeat an identical iteration (pure stuttering)
		}
		out = append(out, p)
	}
	return out
}

func (r *schedRun) repeatExhausted() bool {
	r.mu.Lock()
	defer r.mu.Unlock()
	for i := 1; i <= r.sc.N; i++ {
		if r.sc.Repeat[i-1] && r.attempts[stepName(i)] >= 3 {
			return true
		}
	}
	return false
}

func (r *schedRun) driveRandom() error {
	w := r.sc.Weights
	if w == [5]float64{} {
		w = [5]float64{1, 1, 1, 1, 1}
	}
	move := 0
	killAt := -1
	for {
		if err := r.waitQuiescent(); err != nil {
			return err
		}
		r.checkTimeout()
		r.mu.Lock()
		ret := r.returned
		r.mu.Unlock()
		en := r.enabled()
		if ret && len(en) == 0 {
			return nil
		}
		// environment moves
		if r.sc.Stop && !r.stopIssued && !ret && (move >= r.sc.StopAt || r.repeatExhausted()) {
			r.stopIssued = true
			r.issueStop(syscall.SIGTERM)
			killAt = move + 1 + r.rng.Intn(12)
			move++
			continue
		}
		r.mu.Lock()
		trd := r.termRoundDone
		r.mu.Unlock()
		if r.sc.Kill && trd && !r.killIssued && !ret && move >= killAt {
			r.killIssued = true
			r.issueStop(syscall.SIGKILL)
			move++
			continue
		}
		if len(en) == 0 {
			if r.sc.Timeout && !r.ctxFired {
				r.passDeadline()
				continue
			}
			if r.sc.Stop && !r.stopIssued && !ret {
				// the scripted stop has not been made yet: make it now (a run with repeating steps only ends this way)
				r.stopIssued = true
				r.issueStop(syscall.SIGTERM)
				killAt = move + 1 + r.rng.Intn(12)
				move++
				continue
			}
			if !r.stuck && !ret {
				// the run can make no progress any more (nothing is executing, the loop would repeat the same idle
				// iteration for ever): record it, then end the run by cancelling it
				r.stuck = true
				r.emit(Ev{"ev": "Stuck"})
				r.mu.Lock()
				r.lStale = false
				r.dirty = true
				r.mu.Unlock()
				r.sched.Cancel(r.graph)
				continue
			}
			return fmt.Errorf("deadlock: nothing enabled, returned=%v", ret)
		}
		if r.sc.SnapAt > 0 && move == r.sc.SnapAt && r.snap == nil {
			for _, n := range r.graph.Nodes() {
				r.snap = append(r.snap, n.State().Status.String())
			}
		}
		if r.sc.Timeout && !r.ctxFired && r.rng.Intn(25) == 0 {
			// let the deadline pass while everything is parked
			r.passDeadline()
		}
		// weighted choice
		tot := 0.0
		for _, p := range en {
			tot += w[classOf(p)]
		}
		x := r.rng.Float64() * tot
		var pick *parked
		for _, p := range en {
			x -= w[classOf(p)]
			if x <= 0 {
				pick = p
				break
			}
		}
		if pick == nil {
			pick = en[len(en)-1]
		}
		r.doRelease(pick)
		move++
		if move > 5000 {
			return fmt.Errorf("run does not end after 5000 moves")
		}
	}
}

// driveMoves replays a model behaviour: each move names the thread to release
// ("L", "W:2", "T:2", "S", "P:2", "PH") or an environment action ("stop", "kill", "timeout").
func (r *schedRun) driveMoves() error {
	for _, m := range r.sc.Moves {
		if err := r.waitQuiescent(); err != nil {
			return err
		}
		r.checkTimeout()
		switch m {
		case "stop":
			r.stopIssued = true
			r.issueStop(syscall.SIGTERM)
			continue
		case "kill":
			r.killIssued = true
			r.issueStop(syscall.SIGKILL)
			continue
		case "timeout":
			r.passDeadline()
			continue
		case "end":
			continue
		}
		forced := ""
		if strings.HasPrefix(m, "P:") && strings.Count(m, ":") == 2 {
			k := strings.LastIndex(m, ":")
			forced, m = m[k+1:], m[:k]
		}
		var pick *parked
		for _, p := range r.enabledM(true) {
			isP := p.point == "proc" || p.point == "h.proc"
			name := p.thread
			if isP {
				if p.thread == "L" {
					name = "PH"
				} else {
					name = "P" + p.thread[1:]
				}
			}
			if name == m {
				pick = p
				break
			}
		}
		if pick == nil {
			r.emit(Ev{"ev": "Diverged", "move": m})
			break
		}
		r.doReleaseF(pick, forced)
	}
	// finish the run with the random driver (the model behaviour may be a prefix)
	return r.driveRandom()
}

// driveFree: free-running mode, nothing is parked; optionally issue the stop after a random delay.
func (r *schedRun) driveFree() error {
	if r.sc.Stop {
		d := time.Duration(r.rng.Intn(4000)) * time.Microsecond
		time.Sleep(d)
		r.mu.Lock()
		ret := r.returned
		r.mu.Unlock()
		if !ret {
			r.stopIssued = true
			r.sched.Signal(r.graph, syscall.SIGTERM, nil, true)
			r.emit(Ev{"ev": "SignalReturn", "round": "term"})
			if r.sc.Kill {
				time.Sleep(time.Duration(r.rng.Intn(2000)) * time.Microsecond)
				r.emit(Ev{"ev": "KillRound"})
				r.sched.Signal(r.graph, syscall.SIGKILL, nil, false)
				r.emit(Ev{"ev": "SignalReturn", "round": "kill"})
			}
		}
	}
	deadline := time.Now().Add(8 * time.Second)
	for {
		r.mu.Lock()
		ret := r.returned
		r.mu.Unlock()
		if ret {
			return nil
		}
		if time.Now().After(deadline) {
			if r.stuck {
				return fmt.Errorf("free run does not end within 20s, not even after being cancelled")
			}
			// a run of scripted processes that live a few milliseconds each does not end: record it, cancel the run
			r.stuck = true
			r.emit(Ev{"ev": "Stuck"})
			r.sched.Cancel(r.graph)
			deadline = time.Now().Add(10 * time.Second)
		}
		time.Sleep(200 * time.Microsecond)
	}
}
