package rig

// Cron daemon rig (C09): the real scheduler.New (real entryReaderImpl with its fsnotify watcher, real
// Scheduler.run through the verif wrapper VerifRunTick, real jobImpl guards, real cron parsing through
// dag.LoadMetadata) over a recording fake of client.Client that plays the history. One record per tick
// says which jobs were invoked, what each was told about the latest run and what it then called.
// spec/CronObserve.tla judges the records with its own CronMatch on the structure the expressions were
// generated from.

import (
	"fmt"
	"io"
	"log"
	"math/rand"
	"os"
	"path/filepath"
	"runtime"
	"sort"
	"strings"
	"sync"
	"sync/atomic"
	"time"

	"github.com/ErdemOzgen/blackdagger/internal/client"
	"github.com/ErdemOzgen/blackdagger/internal/config"
	"github.com/ErdemOzgen/blackdagger/internal/dag"
	dagsched "github.com/ErdemOzgen/blackdagger/internal/dag/scheduler"
	"github.com/ErdemOzgen/blackdagger/internal/persistence/model"
	"github.com/ErdemOzgen/blackdagger/internal/scheduler"
	"github.com/ErdemOzgen/blackdagger/internal/util"
)

// pollFallbackWriter notices the daemon's watcher falling back to polling (no inotify instance left on the machine):
// file events then arrive up to a minute late, which says nothing about the daemon.
type pollFallbackWriter struct{ hit *int32 }

func (w pollFallbackWriter) Write(p []byte) (int, error) {
	if strings.Contains(string(p), "fallback to PollingWatcher") {
		atomic.StoreInt32(w.hit, 1)
	}
	return len(p), nil
}

type CronTerm struct {
	Kind string `json:"k"` // star, single, range
	A    int    `json:"a"`
	B    int    `json:"b"`
	Step int    `json:"s"` // 0 = none
}

type CronExpr struct {
	Text   string       `json:"text"`
	Fields [][]CronTerm `json:"f"`
}

type CronDag struct {
	Name      string     `json:"name"`
	Form      string     `json:"form"` // string | list | map | none | invalid
	Start     []CronExpr `json:"start"`
	Stop      []CronExpr `json:"stop"`
	Restart   []CronExpr `json:"restart"`
	Suspended bool       `json:"suspended"`
	Hist      string     `json:"hist"` // none | old | running | sameminute
	Dur       int        `json:"dur"`  // ticks a started run stays running
}

type CronEvent struct {
	At   int    `json:"at"`   // before this tick index
	Kind string `json:"kind"` // add | edit | break | remove | suspend | resume | restart | restart-add (a file added during start-up)
	Dag  int    `json:"dag"`
}

type CronScenario struct {
	Scen    int         `json:"scen"`
	Dags    []CronDag   `json:"dags"`
	Extra   []CronDag   `json:"extra"` // definitions used by add / edit events
	T0      int64       `json:"t0"`    // unix seconds of the first tick (minute aligned, UTC)
	NTicks  int         `json:"nticks"`
	Lag     []int       `json:"lag"`     // per tick: seconds the tick runs late (wall = tick + lag)
	Delayed bool        `json:"delayed"` // a start becomes visible to the guard only after the tick's jobs are done
	Events  []CronEvent `json:"events"`
}

var cronLo = []int{0, 0, 1, 1, 0}
var cronHi = []int{59, 23, 31, 12, 6}
var cronMon = []string{"", "JAN", "FEB", "MAR", "APR", "MAY", "JUN", "JUL", "AUG", "SEP", "OCT", "NOV", "DEC"}
var cronDow = []string{"SUN", "MON", "TUE", "WED", "THU", "FRI", "SAT"}

func cronVal(r *rand.Rand, f, v int) string {
	if f == 3 && r.Intn(3) == 0 {
		n := cronMon[v]
		if r.Intn(2) == 0 {
			n = strings.ToLower(n)
		}
		return n
	}
	if f == 4 && r.Intn(3) == 0 {
		return cronDow[v]
	}
	return fmt.Sprint(v)
}

// GenCronExpr generates an expression from structure; dense: biased to match often (minute/hour mostly *)
func GenCronExpr(r *rand.Rand, dense bool) CronExpr {
	var fields [][]CronTerm
	var parts []string
	for f := 0; f < 5; f++ {
		n := 1
		if r.Intn(4) == 0 {
			n = 1 + r.Intn(3)
		}
		var ts []CronTerm
		var ss []string
		for i := 0; i < n; i++ {
			t := CronTerm{}
			k := r.Intn(6)
			if dense && (f == 0 || f == 1 || f == 3) && r.Intn(4) > 0 {
				k = 0
			}
			if dense && (f == 2 || f == 4) && r.Intn(2) == 0 {
				k = 0
			}
			switch {
			case k <= 1:
				t.Kind = "star"
				if r.Intn(2) == 0 {
					t.Step = 1 + r.Intn(7)
				}
			case k <= 3:
				t.Kind = "single"
				t.A = cronLo[f] + r.Intn(cronHi[f]-cronLo[f]+1)
				if r.Intn(4) == 0 {
					t.Step = 1 + r.Intn(5)
				}
			default:
				t.Kind = "range"
				t.A = cronLo[f] + r.Intn(cronHi[f]-cronLo[f]+1)
				t.B = t.A + r.Intn(cronHi[f]-t.A+1)
				if r.Intn(3) == 0 {
					t.Step = 1 + r.Intn(5)
				}
			}
			var s string
			switch t.Kind {
			case "star":
				s = "*"
				if r.Intn(8) == 0 && t.Step == 0 && (f == 2 || f == 4) {
					s = "?"
				}
			case "single":
				s = cronVal(r, f, t.A)
			case "range":
				s = cronVal(r, f, t.A) + "-" + cronVal(r, f, t.B)
			}
			if t.Step > 0 {
				s += fmt.Sprintf("/%d", t.Step)
			}
			ts = append(ts, t)
			ss = append(ss, s)
		}
		fields = append(fields, ts)
		parts = append(parts, strings.Join(ss, ","))
	}
	ex := CronExpr{Text: strings.Join(parts, " "), Fields: fields}
	if r.Intn(12) == 0 {
		// a date that never comes (31 February, 30 February, 31 April ...): the expression never matches
		mon := []int{2, 2, 4, 6, 9, 11}[r.Intn(6)]
		dom := 31
		if mon == 2 && r.Intn(2) == 0 {
			dom = 30
		}
		ex.Fields[2] = []CronTerm{{Kind: "single", A: dom}}
		ex.Fields[3] = []CronTerm{{Kind: "single", A: mon}}
		ex.Fields[4] = []CronTerm{{Kind: "star"}}
		parts[2], parts[3], parts[4] = fmt.Sprint(dom), cronVal(r, 3, mon), "*"
		ex.Text = strings.Join(parts, " ")
	}
	return ex
}

func cronYAML(d CronDag) string {
	q := func(es []CronExpr) string {
		if len(es) == 1 {
			return fmt.Sprintf("%q", es[0].Text)
		}
		var s []string
		for _, e := range es {
			s = append(s, fmt.Sprintf("%q", e.Text))
		}
		return "[" + strings.Join(s, ", ") + "]"
	}
	steps := "steps:\n  - name: a\n    command: \"true\"\n"
	switch d.Form {
	case "invalid":
		return "schedule: \"not a cron\"\nsteps: [[[\n"
	case "badcron":
		return "schedule: \"61 * * * *\"\n" + steps
	case "none":
		return steps
	case "string":
		return "schedule: " + q(d.Start[:1]) + "\n" + steps
	case "list":
		y := "schedule:\n"
		for _, e := range d.Start {
			y += fmt.Sprintf("  - %q\n", e.Text)
		}
		return y + steps
	default: // map
		y := "schedule:\n"
		if len(d.Start) > 0 {
			y += "  start: " + q(d.Start) + "\n"
		}
		if len(d.Stop) > 0 {
			y += "  stop: " + q(d.Stop) + "\n"
		}
		if len(d.Restart) > 0 {
			y += "  restart: " + q(d.Restart) + "\n"
		}
		return y + steps
	}
}

// ---- recording fake client -----------------------------------------------------------------------

type cronRun struct {
	start   time.Time
	running bool
	endTick int
}

type cronJobRec struct {
	Running   bool  `json:"running"`
	LastStart int64 `json:"lastStart"` // minute index (unix/60) of the latest run's start, -1 = none
}

type cronFake struct {
	client.Client // every method the daemon does not use panics (nil interface)
	mu            sync.Mutex
	runs          map[string][]*cronRun
	pending       map[string][]*cronRun // started, not yet visible
	susp          map[string]bool
	wall          time.Time
	delayed       bool
	startAns      map[string][]cronJobRec
	stopAns       map[string][]cronJobRec
	starts        map[string]int
	stops         map[string]int
	restarts      map[string]int
	dur           map[string]int
	tick          int
}

func (c *cronFake) caller() string {
	pcs := make([]uintptr, 8)
	n := runtime.Callers(3, pcs)
	fr := runtime.CallersFrames(pcs[:n])
	for {
		f, more := fr.Next()
		if strings.Contains(f.Function, "jobImpl).Start") {
			return "Start"
		}
		if strings.Contains(f.Function, "jobImpl).Stop") {
			return "Stop"
		}
		if !more {
			return "?"
		}
	}
}

func (c *cronFake) GetLatestStatus(d *dag.DAG) (*model.Status, error) {
	who := c.caller()
	c.mu.Lock()
	defer c.mu.Unlock()
	st := model.NewStatusDefault(d)
	rec := cronJobRec{LastStart: -1}
	if rs := c.runs[d.Name]; len(rs) > 0 {
		last := rs[len(rs)-1]
		st.StartedAt = util.FormatTime(last.start)
		rec.LastStart = last.start.Unix() / 60
		if last.running {
			st.Status = dagsched.StatusRunning
			rec.Running = true
		} else {
			st.Status = dagsched.StatusSuccess
		}
	}
	if who == "Start" {
		c.startAns[d.Name] = append(c.startAns[d.Name], rec)
	} else if who == "Stop" {
		c.stopAns[d.Name] = append(c.stopAns[d.Name], rec)
	}
	return st, nil
}

func (c *cronFake) Start(d *dag.DAG, _ client.StartOptions) error {
	c.mu.Lock()
	defer c.mu.Unlock()
	c.starts[d.Name]++
	r := &cronRun{start: c.wall, running: true, endTick: c.tick + c.dur[d.Name]}
	if c.delayed {
		c.pending[d.Name] = append(c.pending[d.Name], r)
	} else {
		c.runs[d.Name] = append(c.runs[d.Name], r)
	}
	return nil
}

func (c *cronFake) Stop(d *dag.DAG) error {
	c.mu.Lock()
	defer c.mu.Unlock()
	c.stops[d.Name]++
	if rs := c.runs[d.Name]; len(rs) > 0 {
		rs[len(rs)-1].running = false
	}
	return nil
}

func (c *cronFake) Restart(d *dag.DAG, _ client.RestartOptions) error {
	c.mu.Lock()
	defer c.mu.Unlock()
	c.restarts[d.Name]++
	return nil
}

func (c *cronFake) IsSuspended(id string) bool {
	c.mu.Lock()
	defer c.mu.Unlock()
	return c.susp[id]
}

// ---- driver --------------------------------------------------------------------------------------

func RunCron(sc CronScenario, base string, emit func(Ev)) error {
	dir := filepath.Join(base, fmt.Sprintf("cron%d", sc.Scen))
	dagsDir := filepath.Join(dir, "dags")
	os.MkdirAll(dagsDir, 0o755)
	defer os.RemoveAll(dir)
	fake := &cronFake{runs: map[string][]*cronRun{}, pending: map[string][]*cronRun{}, susp: map[string]bool{}, delayed: sc.Delayed,
		dur: map[string]int{}}
	t0 := time.Unix(sc.T0, 0).UTC()
	defs := map[string]CronDag{} // current definition per file (what the daemon should have loaded)
	disk := map[string]CronDag{} // what the file holds now
	// definitions are put in place atomically (write aside, rename): a watcher that reads a file between the truncation
	// and the write of a plain overwrite would load an empty - valid - definition, which is about the editor, not the daemon
	write := func(d CronDag) {
		tmp := filepath.Join(dir, "incoming-"+d.Name)
		os.WriteFile(tmp, []byte(cronYAML(d)), 0o644)
		os.Rename(tmp, filepath.Join(dagsDir, d.Name+".yaml"))
	}
	// what the daemon holds for a DAG whose file was overwritten with a malformed text is not specified (the property only
	// says the OTHER DAGs keep being scheduled): such a DAG is not judged any more
	unspec := map[string]bool{}
	wantSched := func(d CronDag) []string {
		out := []string{}
		st := d.Start
		if d.Form == "string" && len(st) > 1 {
			st = st[:1]
		}
		for _, x := range st {
			out = append(out, "start:"+x.Text)
		}
		if d.Form == "map" {
			for _, x := range d.Stop {
				out = append(out, "stop:"+x.Text)
			}
			for _, x := range d.Restart {
				out = append(out, "restart:"+x.Text)
			}
		}
		return out
	}
	for _, d := range sc.Dags {
		write(d)
		defs[d.Name] = d
		disk[d.Name] = d
		fake.susp[d.Name] = d.Suspended
		fake.dur[d.Name] = d.Dur
		switch d.Hist {
		case "old":
			fake.runs[d.Name] = []*cronRun{{start: t0.Add(-3 * time.Hour), running: false}}
		case "running":
			fake.runs[d.Name] = []*cronRun{{start: t0.Add(-10 * time.Minute), running: true, endTick: 2}}
		case "sameminute":
			fake.runs[d.Name] = []*cronRun{{start: t0.Add(500 * time.Millisecond), running: false}}
		}
	}
	var counts sync.Map
	var wg sync.WaitGroup
	scheduler.VerifInvoke = func(phase, op, workflow string, next time.Time) {
		if phase == "begin" {
			wg.Add(1)
			k := workflow + "|" + op
			v, _ := counts.LoadOrStore(k, new(int))
			fake.mu.Lock()
			*(v.(*int))++
			fake.mu.Unlock()
		} else {
			wg.Done()
		}
	}
	defer func() { scheduler.VerifInvoke = nil }()
	var pollFallback int32
	log.SetOutput(pollFallbackWriter{&pollFallback})
	defer log.SetOutput(io.Discard)
	// between: what happens in the directory after the daemon object exists (it has read the directory) and before its
	// watcher is started - in the real daemon that is the rest of its start-up
	var between func()
	mk := func() (*scheduler.Scheduler, chan any) {
		s := scheduler.New(&config.Config{DAGs: dagsDir, WorkDir: dir, LogDir: filepath.Join(dir, "logs"), Executable: "/bin/false"}, quietLogger, fake)
		done := make(chan any)
		if between != nil {
			between()
			between = nil
		}
		s.VerifStartWatcher(done)
		time.Sleep(30 * time.Millisecond) // let the watcher goroutine register the directory
		return s, done
	}
	s, done := mk()
	defer func() { close(done) }()
	expectLoaded := func() []string {
		l := []string{}
		for n, d := range defs {
			if d.Form != "invalid" && d.Form != "badcron" && d.Form != "gone" {
				l = append(l, n+".yaml")
			}
		}
		sort.Strings(l)
		return l
	}
	waitLoaded := func(check func([]string) bool) {
		dl := time.Now().Add(20 * time.Second)
		for time.Now().Before(dl) {
			got := make(chan []string, 1)
			go func() { got <- s.VerifLoaded() }()
			select {
			case l := <-got:
				if check(l) {
					return
				}
			case <-time.After(6 * time.Second):
				return // the reader does not answer: the next tick will report it
			}
			time.Sleep(5 * time.Millisecond)
		}
	}
	emit(Ev{"ev": "Reset", "scen": sc.Scen, "delayed": sc.Delayed})
	for i := 0; i < sc.NTicks; i++ {
		// environment events before tick i
		for _, e := range sc.Events {
			if e.At != i {
				continue
			}
			switch e.Kind {
			case "add", "edit":
				d := sc.Extra[e.Dag]
				prev, had := defs[d.Name]
				write(d)
				disk[d.Name] = d
				if d.Form == "invalid" || d.Form == "badcron" {
					if !had {
						defs[d.Name] = d
					} else {
						unspec[d.Name] = true
					}
					_ = prev
					time.Sleep(150 * time.Millisecond)
				} else {
					defs[d.Name] = d
					delete(unspec, d.Name)
					fake.dur[d.Name] = d.Dur
					// wait until the daemon holds the new text (bounded: a daemon that never picks it up is judged at the tick)
					want := strings.Join(wantSched(d), "|")
					waitLoaded(func(l []string) bool {
						return contains(l, d.Name+".yaml") && strings.Join(s.VerifLoadedSchedules(d.Name+".yaml"), "|") == want
					})
				}
			case "remove":
				d := sc.Dags[e.Dag]
				delete(unspec, d.Name)
				os.Remove(filepath.Join(dagsDir, d.Name+".yaml"))
				delete(disk, d.Name)
				dd := defs[d.Name]
				dd.Form = "gone"
				defs[d.Name] = dd
				waitLoaded(func(l []string) bool { return !contains(l, d.Name+".yaml") })
			case "suspend", "resume":
				fake.mu.Lock()
				fake.susp[sc.Dags[e.Dag].Name] = e.Kind == "suspend"
				fake.mu.Unlock()
			case "restart", "restart-add":
				close(done)
				var added *CronDag
				if e.Kind == "restart-add" {
					// a definition is added while the daemon starts up: after it has read the directory, before it watches it
					d := sc.Extra[e.Dag]
					added = &d
					between = func() {
						write(d)
						disk[d.Name] = d
						fake.dur[d.Name] = d.Dur
					}
				}
				s, done = mk()
				// after a restart only what is on disk counts
				unspec = map[string]bool{}
				defs = map[string]CronDag{}
				for n, d := range disk {
					defs[n] = d
				}
				if added != nil {
					want := strings.Join(wantSched(*added), "|")
					name := added.Name
					waitLoaded(func(l []string) bool {
						return contains(l, name+".yaml") && strings.Join(s.VerifLoadedSchedules(name+".yaml"), "|") == want
					})
				}
			}
		}
		tick := t0.Add(time.Duration(i) * time.Minute)
		wall := tick.Add(time.Duration(sc.Lag[i])*time.Second + 50*time.Millisecond)
		fake.mu.Lock()
		fake.wall, fake.tick = wall, i
		fake.startAns, fake.stopAns = map[string][]cronJobRec{}, map[string][]cronJobRec{}
		fake.starts, fake.stops, fake.restarts = map[string]int{}, map[string]int{}, map[string]int{}
		fake.mu.Unlock()
		counts = sync.Map{}
		// a daemon that no longer answers (e.g. a lock left held by the watcher) must not hang the rig: it is a record
		var loaded []string
		tickDone := make(chan struct{})
		go func() {
			loaded = s.VerifLoaded()
			s.VerifRunTick(tick)
			wg.Wait()
			close(tickDone)
		}()
		select {
		case <-tickDone:
		case <-time.After(6 * time.Second):
			emit(Ev{"ev": "Hung", "scen": sc.Scen, "i": i, "m": tick.Unix() / 60})
			emit(Ev{"ev": "End", "scen": sc.Scen, "pollFallback": atomic.LoadInt32(&pollFallback) == 1})
			return nil
		}
		fake.mu.Lock()
		per := Ev{}
		names := map[string]bool{}
		for n := range defs {
			names[n] = true
		}
		for _, d := range sc.Dags {
			names[d.Name] = true
		}
		for n := range names {
			inv := func(op string) int {
				if v, ok := counts.Load(n + "|" + op); ok {
					return *(v.(*int))
				}
				return 0
			}
			sa, so := fake.startAns[n], fake.stopAns[n]
			if sa == nil {
				sa = []cronJobRec{}
			}
			if so == nil {
				so = []cronJobRec{}
			}
			d, ok := defs[n]
			def := Ev{"form": "gone", "start": []CronExpr{}, "stop": []CronExpr{}, "restart": []CronExpr{}}
			if ok {
				def = Ev{"form": d.Form, "start": nz(d.Start), "stop": nz(d.Stop), "restart": nz(d.Restart)}
			}
			per[n] = Ev{"def": def, "unspec": unspec[n], "susp": fake.susp[n], "invStart": inv("Start"), "invStop": inv("Stop"), "invRestart": inv("Restart"),
				"startAns": sa, "stopAns": so, "starts": fake.starts[n], "stops": fake.stops[n], "restarts": fake.restarts[n]}
		}
		// starts become visible, runs end
		for n, ps := range fake.pending {
			fake.runs[n] = append(fake.runs[n], ps...)
			delete(fake.pending, n)
		}
		for _, rs := range fake.runs {
			for _, r := range rs {
				if r.running && r.endTick <= i {
					r.running = false
				}
			}
		}
		fake.mu.Unlock()
		if loaded == nil {
			loaded = []string{}
		}
		emit(Ev{"ev": "Tick", "scen": sc.Scen, "i": i, "m": tick.Unix() / 60, "wallMin": wall.Unix() / 60,
			"bd":     Ev{"min": tick.Minute(), "hour": tick.Hour(), "dom": tick.Day(), "mon": int(tick.Month()), "dow": int(tick.Weekday())},
			"loaded": loaded, "expectLoaded": expectLoaded(), "dags": per})
	}
	emit(Ev{"ev": "End", "scen": sc.Scen, "pollFallback": atomic.LoadInt32(&pollFallback) == 1})
	return nil
}

func nz(e []CronExpr) []CronExpr {
	if e == nil {
		return []CronExpr{}
	}
	return e
}

func contains(l []string, s string) bool {
	for _, x := range l {
		if x == s {
			return true
		}
	}
	return false
}

// GenCron draws a scenario: a few DAG files in every schedule form, a calendar window, lateness, events.
func GenCron(id int, r *rand.Rand) CronScenario {
	sc := CronScenario{Scen: id, Delayed: r.Intn(3) == 0}
	mkDag := func(name string) CronDag {
		d := CronDag{Name: name, Dur: r.Intn(4), Hist: []string{"none", "none", "old", "running", "sameminute"}[r.Intn(5)]}
		dense := r.Intn(3) > 0
		switch r.Intn(10) {
		case 0:
			d.Form = "none"
		case 1:
			d.Form = []string{"invalid", "badcron"}[r.Intn(2)]
		case 2, 3, 4:
			d.Form = "string"
			d.Start = []CronExpr{GenCronExpr(r, dense)}
		case 5, 6:
			d.Form = "list"
			for i := 0; i < 1+r.Intn(3); i++ {
				d.Start = append(d.Start, GenCronExpr(r, dense))
			}
		default:
			d.Form = "map"
			for i := 0; i < r.Intn(3); i++ {
				d.Start = append(d.Start, GenCronExpr(r, dense))
			}
			for i := 0; i < r.Intn(2); i++ {
				d.Stop = append(d.Stop, GenCronExpr(r, dense))
			}
			for i := 0; i < r.Intn(2); i++ {
				d.Restart = append(d.Restart, GenCronExpr(r, dense))
			}
			if len(d.Start)+len(d.Stop)+len(d.Restart) == 0 {
				d.Start = []CronExpr{GenCronExpr(r, true)}
			}
		}
		d.Suspended = r.Intn(6) == 0
		return d
	}
	n := 2 + r.Intn(4)
	for i := 0; i < n; i++ {
		sc.Dags = append(sc.Dags, mkDag(fmt.Sprintf("dag%d", i)))
	}
	// calendar windows: month ends, leap day, year end, ordinary
	windows := []time.Time{
		time.Date(2024, 2, 28, 23, 50, 0, 0, time.UTC), time.Date(2024, 2, 29, 23, 55, 0, 0, time.UTC),
		time.Date(2025, 2, 28, 23, 55, 0, 0, time.UTC), time.Date(2026, 12, 31, 23, 50, 0, 0, time.UTC),
		time.Date(2027, 4, 30, 23, 57, 0, 0, time.UTC), time.Date(2026, 10, 3, 23, 58, 0, 0, time.UTC),
		time.Date(2026, time.Month(1+r.Intn(12)), 1+r.Intn(28), r.Intn(24), r.Intn(60), 0, 0, time.UTC),
		time.Date(2025, time.Month(1+r.Intn(12)), 1+r.Intn(28), r.Intn(24), 0, 0, 0, time.UTC),
	}
	sc.T0 = windows[r.Intn(len(windows))].Unix()
	sc.NTicks = 12 + r.Intn(20)
	lagMode := r.Intn(4)
	lag := 0
	for i := 0; i < sc.NTicks; i++ {
		switch lagMode {
		case 0:
			lag = 0
		case 1: // occasionally a burst of lateness that is caught up by bunched ticks
			if r.Intn(8) == 0 {
				lag = 60 * (1 + r.Intn(3))
			} else if lag >= 60 {
				lag -= 60
			}
		case 2:
			lag = r.Intn(50)
		case 3:
			if i%7 == 3 {
				lag = 125
			} else if lag >= 60 {
				lag -= 60
			} else {
				lag = 0
			}
		}
		sc.Lag = append(sc.Lag, lag)
	}
	// events
	ne := r.Intn(4)
	for e := 0; e < ne; e++ {
		at := 1 + r.Intn(sc.NTicks-1)
		switch r.Intn(6) {
		case 0:
			d := mkDag(fmt.Sprintf("new%d", e))
			if d.Form == "invalid" || d.Form == "badcron" || d.Form == "none" {
				d.Form = "string"
				d.Start = []CronExpr{GenCronExpr(r, true)}
			}
			sc.Extra = append(sc.Extra, d)
			sc.Events = append(sc.Events, CronEvent{At: at, Kind: "add", Dag: len(sc.Extra) - 1})
		case 1:
			d := mkDag(sc.Dags[r.Intn(n)].Name)
			sc.Extra = append(sc.Extra, d)
			sc.Events = append(sc.Events, CronEvent{At: at, Kind: "edit", Dag: len(sc.Extra) - 1})
		case 2:
			sc.Events = append(sc.Events, CronEvent{At: at, Kind: "remove", Dag: r.Intn(n)})
		case 3:
			sc.Events = append(sc.Events, CronEvent{At: at, Kind: []string{"suspend", "resume"}[r.Intn(2)], Dag: r.Intn(n)})
		case 4:
			d := mkDag(fmt.Sprintf("boot%d", e))
			if d.Form == "invalid" || d.Form == "badcron" || d.Form == "none" {
				d.Form = "string"
				d.Start = []CronExpr{GenCronExpr(r, true)}
			}
			sc.Extra = append(sc.Extra, d)
			sc.Events = append(sc.Events, CronEvent{At: at, Kind: "restart-add", Dag: len(sc.Extra) - 1})
		default:
			sc.Events = append(sc.Events, CronEvent{At: at, Kind: "restart"})
		}
	}
	return sc
}
