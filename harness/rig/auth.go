package rig

// Auth rig (C17): renders the abstract requests of spec/Auth.tla to concrete HTTP requests,
// sends them through the real middleware.Setup + SetupGlobalMiddleware chain with sentinel
// handlers and records what happened. spec/AuthObserve.tla judges the records.

import (
	"encoding/base64"
	"net/http"
	"net/http/httptest"
	"strings"

	"github.com/ErdemOzgen/blackdagger/internal/frontend/middleware"
)

const (
	authU = "admin"
	authP = "s3cret"
	authT = "tok-123456"
)

func b64(s string) string { return base64.StdEncoding.EncodeToString([]byte(s)) }

var authSchemes = map[string]string{"Basic": "Basic", "basic": "basic", "Bearer": "Bearer", "bearer": "bearer", "Other": "Token"}
var authSeps = map[string]string{"one": " ", "two": "  ", "none": "", "tab": "\t"}
var authPays = map[string]string{
	"b64_U_P": b64(authU + ":" + authP), "b64_U_wrong": b64(authU + ":nope"), "b64_wrong_P": b64("root:" + authP),
	"b64_U_empty": b64(authU + ":"), "b64_empty_P": b64(":" + authP), "b64_U_Pprefix": b64(authU + ":" + authP[:3]),
	"b64_U_Psuffix": b64(authU + ":" + authP + "x"), "b64_nocolon": b64(authU + authP), "b64_U_T": b64(authU + ":" + authT),
	"b64_U_P_pad":     strings.TrimRight(b64(authU+":"+authP), "=") + "=x",
	"b64_other_empty": b64("root:"), "b64_empty_empty": b64(":"), "b64_other_wrong": b64("root:nope"),
	"b64_Ucase_P": b64(strings.ToUpper(authU) + ":" + authP), "b64_Upre_P": b64(authU[:4] + ":" + authP),
	"badb64": "!!!notbase64", "T": authT, "Twrong": "tok-000000", "Tprefix": authT[:5], "Tsuffix": authT + "x",
	"Tcase": strings.ToUpper(authT), "P": authP, "empty": "",
	"T_sp_extra": authT + " !!!", "junk_sp_T": "!!! " + authT, "b64_U_P_sp_T": b64(authU+":"+authP) + " " + authT,
}
var authShapes = map[string]string{"api": "/api/v1/dags", "api_sub": "/api/v1/dags/x", "api_root": "/api", "apix": "/apix",
	"ui": "/dags", "root": "/", "upper": "/API/v1/dags", "dslash": "//api/v1/dags"}

// AuthSweep enumerates the whole abstract request space.
func AuthSweep(emit func(Ev)) {
	for _, basic := range []bool{false, true} {
		for _, token := range []bool{false, true} {
			for _, base := range []bool{false, true} {
				var reached, ui bool
				api := http.HandlerFunc(func(w http.ResponseWriter, r *http.Request) { reached = true; w.WriteHeader(200) })
				def := http.HandlerFunc(func(w http.ResponseWriter, r *http.Request) { ui = true; w.WriteHeader(200) })
				opts := &middleware.Options{Handler: def}
				if basic {
					opts.AuthBasic = &middleware.AuthBasic{Username: authU, Password: authP}
				}
				if token {
					opts.AuthToken = &middleware.AuthToken{Token: authT}
				}
				bp := ""
				if base {
					bp = "/base"
					opts.BasePath = bp
				}
				middleware.Setup(opts)
				h := middleware.SetupGlobalMiddleware(api)
				do := func(scheme, sep, pay string, hdr *string) {
					for shape, p := range authShapes {
						path := p
						if base && shape != "root" {
							path = bp + p
						}
						for _, m := range []string{"GET", "POST", "DELETE", "OPTIONS"} {
							reached, ui = false, false
							req := httptest.NewRequest(m, path, nil)
							hs := ""
							if hdr != nil {
								req.Header.Set("Authorization", *hdr)
								hs = *hdr
							}
							w := httptest.NewRecorder()
							h.ServeHTTP(w, req)
							emit(Ev{"basic": basic, "token": token, "base": base, "scheme": scheme, "sep": sep, "pay": pay,
								"shape": shape, "method": m, "header": hs, "path": path, "reached": reached, "ui": ui, "code": w.Code})
						}
					}
				}
				do("none", "none", "empty", nil)
				for sn, s := range authSchemes {
					for en, e := range authSeps {
						for pn, p := range authPays {
							hdr := s + e + p
							do(sn, en, pn, &hdr)
						}
					}
				}
			}
		}
	}
	middleware.Setup(&middleware.Options{})
}
