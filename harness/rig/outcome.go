package rig

// C04 on the real binary: `blackdagger start` on small DAGs of real shell steps with every handler subset and mail
// setting; what the run reports through each of its channels - persisted status, exit code of the start command,
// handlers that ran (marker file), mails sent (a minimal SMTP server in this process) - is recorded and judged by
// spec/AgentLifeObserve.tla (kind "outcome") with the same ExpectedHandlers operator as the model.

import (
	"bufio"
	"fmt"
	"net"
	"os"
	"os/exec"
	"sort"
	"strings"
	"sync"
	"time"

	"github.com/ErdemOzgen/blackdagger/internal/client"
	"github.com/ErdemOzgen/blackdagger/internal/dag"
	dsclient "github.com/ErdemOzgen/blackdagger/internal/persistence/client"
)

// fakeSMTP accepts mails and records their subject lines.
type fakeSMTP struct {
	ln       net.Listener
	mu       sync.Mutex
	subjects []string
}

func newFakeSMTP() (*fakeSMTP, error) {
	ln, err := net.Listen("tcp", "127.0.0.1:0")
	if err != nil {
		return nil, err
	}
	s := &fakeSMTP{ln: ln}
	go func() {
		for {
			c, err := ln.Accept()
			if err != nil {
				return
			}
			go s.serve(c)
		}
	}()
	return s, nil
}

func (s *fakeSMTP) port() string {
	_, p, _ := net.SplitHostPort(s.ln.Addr().String())
	return p
}

func (s *fakeSMTP) serve(c net.Conn) {
	defer c.Close()
	c.SetDeadline(time.Now().Add(10 * time.Second))
	r := bufio.NewReader(c)
	say := func(l string) { fmt.Fprintf(c, "%s\r\n", l) }
	say("220 verif ESMTP")
	for {
		line, err := r.ReadString('\n')
		if err != nil {
			return
		}
		cmd := strings.ToUpper(strings.TrimSpace(line))
		switch {
		case strings.HasPrefix(cmd, "EHLO"), strings.HasPrefix(cmd, "HELO"):
			say("250 verif")
		case strings.HasPrefix(cmd, "MAIL"), strings.HasPrefix(cmd, "RCPT"), strings.HasPrefix(cmd, "RSET"), strings.HasPrefix(cmd, "NOOP"):
			say("250 ok")
		case strings.HasPrefix(cmd, "DATA"):
			say("354 go ahead")
			subj := ""
			for {
				dl, err := r.ReadString('\n')
				if err != nil {
					return
				}
				if strings.HasPrefix(dl, "Subject: ") && subj == "" {
					subj = strings.TrimSpace(strings.TrimPrefix(dl, "Subject: "))
				}
				if dl == ".\r\n" {
					break
				}
			}
			s.mu.Lock()
			s.subjects = append(s.subjects, subj)
			s.mu.Unlock()
			say("250 queued")
		case strings.HasPrefix(cmd, "QUIT"):
			say("221 bye")
			return
		default:
			say("250 ok")
		}
	}
}

func (s *fakeSMTP) take() []string {
	s.mu.Lock()
	defer s.mu.Unlock()
	out := append([]string{}, s.subjects...)
	s.subjects = nil
	return out
}

type outcomeVariant struct {
	name     string
	steps    func(e *agentEnv) string
	pre      bool   // DAG-level precondition unmet
	stop     bool   // the run is stopped with the real stop command while s1 runs
	stepsOK  bool   // every step ends finished or skipped
	anyFail  bool   // some step ends failed
	mailStep int    // number of failed steps with mailOnError
	wantRun  string // expected run status ("" = nothing recorded)
}

var outcomeVariants = []outcomeVariant{
	{name: "all-succeed", steps: func(e *agentEnv) string {
		return fmt.Sprintf("  - name: s1\n    command: sh -c \"echo s1 >> %s\"\n  - name: s2\n    command: sh -c \"echo s2 >> %s\"\n    depends: [s1]\n", e.marker, e.marker)
	}, stepsOK: true, wantRun: "finished"},
	{name: "skip", steps: func(e *agentEnv) string {
		return fmt.Sprintf("  - name: s1\n    command: sh -c \"echo s1 >> %s\"\n  - name: s2\n    command: sh -c \"echo s2 >> %s\"\n    depends: [s1]\n    preconditions:\n      - condition: \"no\"\n        expected: \"yes\"\n", e.marker, e.marker)
	}, stepsOK: true, wantRun: "finished"},
	{name: "fail", steps: func(e *agentEnv) string {
		return fmt.Sprintf("  - name: s1\n    command: sh -c \"echo s1 >> %s; exit 1\"\n    mailOnError: true\n  - name: s2\n    command: sh -c \"echo s2 >> %s\"\n    depends: [s1]\n", e.marker, e.marker)
	}, anyFail: true, mailStep: 1, wantRun: "failed"},
	{name: "fail-continue", steps: func(e *agentEnv) string {
		return fmt.Sprintf("  - name: s1\n    command: sh -c \"echo s1 >> %s; exit 1\"\n    continueOn:\n      failure: true\n  - name: s2\n    command: sh -c \"echo s2 >> %s\"\n    depends: [s1]\n", e.marker, e.marker)
	}, anyFail: true, wantRun: "failed"},
	{name: "dag-precondition-unmet", steps: func(e *agentEnv) string {
		return fmt.Sprintf("  - name: s1\n    command: sh -c \"echo s1 >> %s\"\n", e.marker)
	}, pre: true, wantRun: ""},
	{name: "stopped", steps: func(e *agentEnv) string {
		return fmt.Sprintf("  - name: s1\n    command: sh -c \"echo s1 >> %s; sleep 20\"\n  - name: s2\n    command: sh -c \"echo s2 >> %s\"\n    depends: [s1]\n", e.marker, e.marker)
	}, stop: true, wantRun: "canceled"},
}

var outcomeHandlerSets = [][]string{{"success", "failure", "cancel", "exit"}, {}, {"exit"}, {"failure", "cancel"}, {"success"}}

// OutcomeRuns executes every variant x handler set x mail setting (x one failing-handler setting) on the real binary.
func OutcomeRuns(bin string, base string, emit func(Ev)) error {
	smtp, err := newFakeSMTP()
	if err != nil {
		return err
	}
	defer smtp.ln.Close()
	id := 5000
	for _, v := range outcomeVariants {
		for hi, hs := range outcomeHandlerSets {
			for _, mail := range []bool{true, false} {
				// a failing handler is tried once per variant (with all handlers configured)
				for _, hfail := range []string{"", "exit", "outcome"} {
					if hfail != "" && (hi != 0 || !mail) {
						continue
					}
					id++
					e := newAgentEnv(base, id, 0)
					var y strings.Builder
					fmt.Fprintf(&y, "logDir: %s\nmaxCleanUpTimeSec: 3\n", e.logs)
					if v.pre {
						y.WriteString("preconditions:\n  - condition: \"no\"\n    expected: \"yes\"\n")
					}
					fmt.Fprintf(&y, "smtp:\n  host: 127.0.0.1\n  port: \"%s\"\nerrorMail:\n  from: a@verif\n  to: b@verif\n  prefix: \"[ERR]\"\ninfoMail:\n  from: a@verif\n  to: b@verif\n  prefix: \"[INFO]\"\n", smtp.port())
					fmt.Fprintf(&y, "mailOn:\n  failure: %v\n  success: %v\n", mail, mail)
					if len(hs) > 0 {
						y.WriteString("handlerOn:\n")
						for _, h := range hs {
							ex := ""
							if hfail == "exit" && h == "exit" || hfail == "outcome" && h != "exit" {
								ex = "; exit 7"
							}
							fmt.Fprintf(&y, "  %s:\n    command: sh -c \"echo h_%s >> %s%s\"\n", h, h, e.marker, ex)
						}
					}
					y.WriteString("steps:\n" + v.steps(e))
					os.WriteFile(e.file, []byte(y.String()), 0o644)
					smtp.take()
					c := exec.Command(bin, "start", e.file)
					c.Env = e.env
					rec := Ev{"kind": "outcome", "variant": v.name, "handlers": hs, "mailOn": mail, "hfail": hfail, "stopped": v.stop, "dagPreUnmet": v.pre,
						"stepsOK": v.stepsOK, "anyFail": v.anyFail, "failedStepsWithMail": v.mailStep, "wantRun": v.wantRun, "infra": ""}
					if err := c.Start(); err != nil {
						e.cleanup()
						return err
					}
					waited := make(chan error, 1)
					go func() { waited <- c.Wait() }()
					if v.stop {
						dl := time.Now().Add(8 * time.Second)
						for time.Now().Before(dl) && len(e.markerLines()) == 0 {
							time.Sleep(10 * time.Millisecond)
						}
						time.Sleep(150 * time.Millisecond)
						sc := exec.Command(bin, "stop", e.file)
						sc.Env = e.env
						sc.Run()
					}
					var werr error
					select {
					case werr = <-waited:
					case <-time.After(30 * time.Second):
						c.Process.Kill()
						<-waited
						rec["infra"] = "the run did not end within 30 s"
					}
					rec["exit"] = exitCode(werr)
					time.Sleep(30 * time.Millisecond)
					ds := dsclient.NewDataStores(e.dags, e.data, e.susp, dsclient.DataStoreOptions{})
					cli := client.New(ds, "/bin/false", e.base, quietLogger)
					d, _ := dag.LoadMetadata(e.file)
					run := ""
					if len(e.histFiles()) > 0 {
						if st, err := cli.GetLatestStatus(d); err == nil && st != nil {
							run = st.Status.String()
						}
					}
					rec["run"] = run
					ran := []string{}
					steps := []string{}
					for _, l := range e.markerLines() {
						if strings.HasPrefix(l, "h_") {
							ran = append(ran, strings.TrimPrefix(l, "h_"))
						} else {
							steps = append(steps, l)
						}
					}
					sort.Strings(steps)
					rec["handlersRan"] = ran
					rec["stepsRan"] = steps
					mails := smtp.take()
					nerr, ninfo := 0, 0
					statusInSubject := true
					for _, m := range mails {
						if strings.HasPrefix(m, "[ERR]") {
							nerr++
						}
						if strings.HasPrefix(m, "[INFO]") {
							ninfo++
						}
					}
					if run != "" {
						// the final report mail carries the final status in its subject
						final := 0
						for _, m := range mails {
							if strings.HasSuffix(m, "("+run+")") {
								final++
							}
						}
						statusInSubject = final >= 1 || len(mails) == 0
					}
					rec["mails"] = mails
					rec["errMails"] = nerr
					rec["infoMails"] = ninfo
					rec["finalStatusInSubject"] = statusInSubject
					emit(rec)
					e.cleanup()
				}
			}
		}
	}
	return nil
}
