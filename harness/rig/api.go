package rig

// API rig (C20, C18): the real go-swagger operation handlers (frontend/dag.NewHandler(...).Configure)
// over the real client and the real stores in a scratch directory. "Running" is played by a real
// sock.Server at the DAG's socket address answering /status (and counting /stop); the executable the
// client spawns is a stub that records its argument vector. After every action the whole abstract state
// (definitions, histories, suspend flags, live runs) is read back; spec/ApiObserve.tla judges every
// <<pre, action, response, post, spawned, stops>> tuple and compares with the model ApiControl.tla.

import (
	"crypto/sha256"
	"fmt"
	"math/rand"
	"net/http"
	"net/http/httptest"
	"os"
	"path/filepath"
	"sort"
	"strings"
	"sync"
	"time"

	"github.com/ErdemOzgen/blackdagger/internal/client"
	"github.com/ErdemOzgen/blackdagger/internal/dag"
	"github.com/ErdemOzgen/blackdagger/internal/dag/scheduler"
	fdag "github.com/ErdemOzgen/blackdagger/internal/frontend/dag"
	"github.com/ErdemOzgen/blackdagger/internal/frontend/gen/restapi"
	"github.com/ErdemOzgen/blackdagger/internal/frontend/gen/restapi/operations"
	"github.com/ErdemOzgen/blackdagger/internal/frontend/gen/restapi/operations/dags"
	"github.com/ErdemOzgen/blackdagger/internal/persistence"
	dsclient "github.com/ErdemOzgen/blackdagger/internal/persistence/client"
	"github.com/ErdemOzgen/blackdagger/internal/persistence/jsondb"
	"github.com/ErdemOzgen/blackdagger/internal/persistence/model"
	"github.com/ErdemOzgen/blackdagger/internal/sock"
	"github.com/go-openapi/loads"
	"github.com/go-openapi/runtime"
)

type ApiAction struct {
	Op     string `json:"op"`
	D      string `json:"d"`
	Req    string `json:"req"`
	Step   string `json:"step"`
	Value  string `json:"value"`
	Params string `json:"params"`
	Status string `json:"status,omitempty"` // env-finish
}

type ApiScenario struct {
	Scen int         `json:"scen"`
	Src  string      `json:"src"`
	Ops  []ApiAction `json:"ops"`
}

var apiNames = []string{"a", "b", "c"}
var apiTexts = map[string]string{
	"A": "description: text A\nsteps:\n  - name: s1\n    command: echo 1\n  - name: s2\n    command: echo 2\n    depends: [s1]\n",
	"B": "description: text B\nsteps:\n  - name: s1\n    command: echo one\n  - name: s2\n    command: echo two\n    depends: [s1]\n",
	"T": "steps:\n  - name: step1\n    command: echo hello\n",
	// C puts a step in front of s1 and s2, D lists s2 before s1: the position of a step differs from the one in a run recorded under A or B
	"C": "description: text C\nsteps:\n  - name: s0\n    command: echo 0\n  - name: s1\n    command: echo 1\n  - name: s2\n    command: echo 2\n    depends: [s1]\n",
	"D": "description: text D\nsteps:\n  - name: s2\n    command: echo 2\n    depends: [s1]\n  - name: s1\n    command: echo 1\n",
}

const apiBadText = "steps:\n  - name: \n    command: [[[\n"

type apiRig struct {
	dir, dagsDir, argv string
	ds                 persistence.DataStores
	cli                client.Client
	api                *operations.BlackdaggerAPI
	mu                 sync.Mutex
	servers            map[string]*sock.Server
	liveReq            map[string]string
	stops              int
	full               map[string]string // request id -> full id used on disk
	liveDag            map[string]*dag.DAG
}

func fullApiReq(r string) string { return r + "-api-0123456789" }

func newApiRig(base string, id int) (*apiRig, error) {
	r := &apiRig{dir: filepath.Join(base, fmt.Sprintf("api%d", id)), servers: map[string]*sock.Server{}, liveReq: map[string]string{}, liveDag: map[string]*dag.DAG{}}
	r.dagsDir = filepath.Join(r.dir, "dags")
	os.MkdirAll(r.dagsDir, 0o755)
	r.argv = filepath.Join(r.dir, "argv.log")
	stub := filepath.Join(r.dir, "stub.sh")
	os.WriteFile(stub, []byte("#!/bin/sh\nl=''\nfor a in \"$@\"; do l=\"$l<$a>\"; done\necho \"$l\" >> "+r.argv+"\n"), 0o755)
	r.ds = dsclient.NewDataStores(r.dagsDir, filepath.Join(r.dir, "data"), filepath.Join(r.dir, "susp"), dsclient.DataStoreOptions{})
	r.cli = client.New(r.ds, stub, r.dir, quietLogger)
	spec, err := loads.Analyzed(restapi.SwaggerJSON, "")
	if err != nil {
		return nil, err
	}
	r.api = operations.NewBlackdaggerAPI(spec)
	fdag.NewHandler(&fdag.NewHandlerArgs{Client: r.cli}, nil, "/api/v1").Configure(r.api)
	for _, n := range []string{"a", "b"} {
		os.WriteFile(r.file(n), []byte(apiTexts["A"]), 0o644)
	}
	return r, nil
}

func (r *apiRig) file(n string) string { return filepath.Join(r.dagsDir, n+".yaml") }

func (r *apiRig) close() {
	for _, s := range r.servers {
		s.Shutdown()
	}
	for _, n := range []string{"a", "b", "c", "ghost"} {
		removeSockLock(r.file(n))
	}
	os.RemoveAll(r.dir)
}

func (r *apiRig) state() Ev {
	defs, runs, susp, live := Ev{}, Ev{}, Ev{}, Ev{}
	// a fresh store instance: what is on disk, not what a shared in-memory cache holds
	hs := jsondb.New(filepath.Join(r.dir, "data"), false)
	for _, n := range apiNames {
		b, err := os.ReadFile(r.file(n))
		id := "absent"
		if err == nil {
			id = "other:" + fmt.Sprintf("%x", sha256.Sum256(b))[:8]
			for k, t := range apiTexts {
				if string(b) == t {
					id = k
				}
			}
			if string(b) == apiBadText {
				id = "bad"
			}
			if len(b) == 0 {
				id = "E"
			}
		}
		defs[n] = id
		lst := []Ev{}
		recent := hs.ReadStatusRecent(r.file(n), 50)
		for i := len(recent) - 1; i >= 0; i-- {
			st := recent[i].Status
			nodes := Ev{}
			for _, nd := range st.Nodes {
				nodes[nd.Step.Name] = nd.Status.String()
			}
			for _, s := range []string{"s0", "s1", "s2"} {
				if _, ok := nodes[s]; !ok {
					nodes[s] = "absent"
				}
			}
			lst = append(lst, Ev{"req": strings.TrimSuffix(st.RequestID, "-api-0123456789"), "status": st.Status.String(), "nodes": nodes})
		}
		runs[n] = lst
		susp[n] = r.ds.FlagStore().IsSuspended(n)
		if q, ok := r.liveReq[n]; ok {
			live[n] = q
		} else {
			live[n] = "none"
		}
	}
	return Ev{"defs": defs, "runs": runs, "susp": susp, "live": live}
}

func (r *apiRig) mkStatus(d *dag.DAG, req string, st scheduler.Status, n1, n2 scheduler.NodeStatus) *model.Status {
	s := model.NewStatus(d, nil, st, os.Getpid(), nil, nil)
	s.RequestID = fullApiReq(req)
	s.StartedAt = time.Now().Format(time.RFC3339)
	for _, nd := range s.Nodes {
		// by name: s2 gets n2, every other step n1
		nd.Status, nd.StatusText = n1, n1.String()
		if nd.Step.Name == "s2" {
			nd.Status, nd.StatusText = n2, n2.String()
		}
	}
	return s
}

var apiStamp int64

func (r *apiRig) env(a ApiAction) error {
	f := r.file(a.D)
	switch a.Op {
	case "env-start":
		d, err := dag.LoadWithoutEval(f)
		if err != nil {
			return err
		}
		hs := r.ds.HistoryStore()
		apiStamp++
		if err := hs.Open(f, time.Now().Add(time.Duration(apiStamp)*time.Second), fullApiReq(a.Req)); err != nil {
			return err
		}
		st := r.mkStatus(d, a.Req, scheduler.StatusRunning, scheduler.NodeStatusSuccess, scheduler.NodeStatusRunning)
		hs.Write(st)
		hs.Close()
		srv, err := sock.NewServer(d.SockAddr(), func(w http.ResponseWriter, q *http.Request) {
			if q.URL.Path == "/stop" {
				r.mu.Lock()
				r.stops++
				r.mu.Unlock()
				w.WriteHeader(200)
				w.Write([]byte("OK"))
				return
			}
			b, _ := st.ToJSON()
			w.WriteHeader(200)
			w.Write(b)
		}, quietLogger)
		if err != nil {
			return err
		}
		lerr := make(chan error, 1)
		go srv.Serve(lerr)
		if err := <-lerr; err != nil {
			return err
		}
		r.servers[a.D] = srv
		r.liveReq[a.D] = a.Req
		r.liveDag[a.D] = d
	case "env-finish", "env-crash":
		if srv := r.servers[a.D]; srv != nil {
			srv.Shutdown()
			delete(r.servers, a.D)
		}
		req := r.liveReq[a.D]
		delete(r.liveReq, a.D)
		if a.Op == "env-finish" {
			// the run finishes with the definition it was started with
			d := r.liveDag[a.D]
			if d == nil {
				return fmt.Errorf("no live run")
			}
			var st *model.Status
			switch a.Status {
			case "finished":
				st = r.mkStatus(d, req, scheduler.StatusSuccess, scheduler.NodeStatusSuccess, scheduler.NodeStatusSuccess)
			case "canceled":
				st = r.mkStatus(d, req, scheduler.StatusCancel, scheduler.NodeStatusSuccess, scheduler.NodeStatusError)
			default:
				st = r.mkStatus(d, req, scheduler.StatusError, scheduler.NodeStatusSuccess, scheduler.NodeStatusError)
			}
			return r.ds.HistoryStore().Update(f, fullApiReq(req), st)
		}
	}
	return nil
}

func (r *apiRig) readArgv() []string {
	b, _ := os.ReadFile(r.argv)
	var out []string
	for _, l := range strings.Split(string(b), "\n") {
		if l != "" {
			out = append(out, l)
		}
	}
	return out
}

func parseArgvLine(l string) Ev {
	var parts []string
	for _, p := range strings.Split(strings.TrimPrefix(strings.TrimSuffix(l, ">"), "<"), "><") {
		parts = append(parts, p)
	}
	e := Ev{"cmd": "?", "d": "?", "arg": "", "raw": l}
	if len(parts) == 0 {
		return e
	}
	e["cmd"] = parts[0]
	e["d"] = strings.TrimSuffix(filepath.Base(parts[len(parts)-1]), ".yaml")
	for i, p := range parts {
		if p == "-p" && i+1 < len(parts) {
			v := parts[i+1]
			// what the CLI does with the value of -p: strip one pair of surrounding quotes
			if len(v) > 1 && v[0] == '"' && v[len(v)-1] == '"' {
				v = v[1 : len(v)-1]
			}
			e["arg"] = v
		}
		if strings.HasPrefix(p, "--req=") {
			e["arg"] = strings.TrimSuffix(strings.TrimPrefix(p, "--req="), "-api-0123456789")
		}
	}
	return e
}

func (r *apiRig) call(a ApiAction) (code int) {
	// the server wraps the handlers in a recoverer: a panicking handler answers 500
	defer func() {
		if rec := recover(); rec != nil {
			code = 500
		}
	}()
	w := httptest.NewRecorder()
	str := func(s string) *string { return &s }
	switch a.Op {
	case "create":
		body := dags.CreateDagBody{Action: str("new"), Value: str(a.D)}
		resp := r.api.DagsCreateDagHandler.Handle(dags.CreateDagParams{HTTPRequest: httptest.NewRequest("POST", "/api/v1/dags", nil), Body: body})
		resp.WriteResponse(w, runtime.JSONProducer())
	case "delete":
		resp := r.api.DagsDeleteDagHandler.Handle(dags.DeleteDagParams{HTTPRequest: httptest.NewRequest("DELETE", "/api/v1/dags/"+a.D, nil), DagID: a.D})
		resp.WriteResponse(w, runtime.JSONProducer())
	default:
		body := dags.PostDagActionBody{Step: a.Step, Params: a.Params, Value: a.Value}
		if a.Req != "" {
			body.RequestID = fullApiReq(a.Req)
		}
		if a.Op != "noaction" {
			body.Action = str(a.Op)
		}
		if a.Op == "save" {
			if t, ok := apiTexts[a.Value]; ok {
				body.Value = t
			} else if a.Value == "bad" {
				body.Value = apiBadText
			} else if a.Value == "E" {
				body.Value = ""
			}
		}
		resp := r.api.DagsPostDagActionHandler.Handle(dags.PostDagActionParams{HTTPRequest: httptest.NewRequest("POST", "/api/v1/dags/"+a.D, nil), DagID: a.D, Body: body})
		resp.WriteResponse(w, runtime.JSONProducer())
	}
	return w.Code
}

// RunApi executes one scenario.
func RunApi(sc ApiScenario, base string, emit func(Ev)) error {
	r, err := newApiRig(base, sc.Scen)
	if err != nil {
		return err
	}
	defer r.close()
	emit(Ev{"ev": "Reset", "scen": sc.Scen, "src": sc.Src})
	for i, a := range sc.Ops {
		if strings.HasPrefix(a.Op, "env-") {
			pre := r.state()
			if err := r.env(a); err != nil {
				emit(Ev{"ev": "EnvSkipped", "scen": sc.Scen, "i": i, "a": a, "err": err.Error()})
				continue
			}
			emit(Ev{"ev": "Env", "scen": sc.Scen, "i": i, "a": a, "pre": pre, "post": r.state()})
			continue
		}
		pre := r.state()
		n0 := len(r.readArgv())
		r.mu.Lock()
		s0 := r.stops
		r.mu.Unlock()
		// the handlers learn "running" by asking the live status socket with a 3 s time-out: on a machine so loaded that
		// this process cannot answer its own socket in time they would see "not running", which says nothing about them.
		// The rig asks first; a slow or failed answer makes the action a record that is not judged
		slow := false
		if _, live := r.liveReq[a.D]; live {
			if d, err := dag.LoadMetadata(r.file(a.D)); err == nil {
				t0 := time.Now()
				st, err := r.cli.GetCurrentStatus(d)
				if err != nil || st == nil || st.Status != scheduler.StatusRunning || time.Since(t0) > 1200*time.Millisecond {
					slow = true
				}
			}
		}
		code := r.call(a)
		// the start is spawned asynchronously: give the stub a moment when something may have been spawned
		if code < 400 && (a.Op == "start") {
			// (up to 30 s: on a loaded machine fork + exec of the stub has been seen to take more than 2 s; a record that
			// arrives after the rig has moved on would be counted for the NEXT action)
			dl := time.Now().Add(30 * time.Second)
			for time.Now().Before(dl) && len(r.readArgv()) == n0 {
				time.Sleep(2 * time.Millisecond)
			}
		} else if a.Op == "start" {
			time.Sleep(40 * time.Millisecond)
		}
		var spawn []Ev
		for _, l := range r.readArgv()[n0:] {
			spawn = append(spawn, parseArgvLine(l))
		}
		if spawn == nil {
			spawn = []Ev{}
		}
		r.mu.Lock()
		stops := r.stops - s0
		r.mu.Unlock()
		resp := "ok"
		if code >= 400 {
			resp = "refused"
		}
		emit(Ev{"ev": "Op", "scen": sc.Scen, "i": i, "a": a, "resp": resp, "code": code, "pre": pre, "post": r.state(), "spawn": spawn, "stops": stops,
			"slowProbe": slow})
	}
	emit(Ev{"ev": "End", "scen": sc.Scen})
	return nil
}

// GenApi draws an action sequence with sensible weights (env events so that every DAG state is visited).
func GenApi(id int, rng *rand.Rand) ApiScenario {
	sc := ApiScenario{Scen: id, Src: "random"}
	exists := map[string]bool{"a": true, "b": true}
	live := map[string]string{}
	reqs := map[string][]string{}
	nreq := 0
	pick := func(xs []string) string { return xs[rng.Intn(len(xs))] }
	n := 8 + rng.Intn(14)
	if rng.Intn(3) == 0 {
		// a run recorded under one text, the definition saved with other step positions, then edits of that run
		d := pick([]string{"a", "b"})
		nreq++
		q := fmt.Sprintf("r%d", nreq)
		reqs[d] = append(reqs[d], q)
		if rng.Intn(2) == 0 {
			sc.Ops = append(sc.Ops, ApiAction{Op: "save", D: d, Value: pick([]string{"C", "D", "B"})})
		}
		sc.Ops = append(sc.Ops, ApiAction{Op: "env-start", D: d, Req: q})
		if rng.Intn(4) == 0 {
			sc.Ops = append(sc.Ops, ApiAction{Op: "env-crash", D: d})
		} else {
			sc.Ops = append(sc.Ops, ApiAction{Op: "env-finish", D: d, Status: pick([]string{"finished", "failed", "canceled"})})
		}
		sc.Ops = append(sc.Ops, ApiAction{Op: "save", D: d, Value: pick([]string{"A", "C", "C", "D", "D", "E"})})
		for k := 0; k < 1+rng.Intn(3); k++ {
			sc.Ops = append(sc.Ops, ApiAction{Op: pick([]string{"mark-success", "mark-failed"}), D: d, Req: q, Step: pick([]string{"s0", "s1", "s2"})})
		}
		n += len(sc.Ops)
	}
	for len(sc.Ops) < n {
		d := pick([]string{"a", "a", "b", "b", "c", "ghost"})
		anyReq := func() string {
			rs := append([]string{}, reqs[d]...)
			rs = append(rs, "", "nope")
			for _, o := range apiNames {
				if o != d && len(reqs[o]) > 0 {
					rs = append(rs, reqs[o][0])
				}
			}
			if len(reqs[d]) > 0 && rng.Intn(2) == 0 {
				return pick(reqs[d])
			}
			return pick(rs)
		}
		switch rng.Intn(16) {
		case 0, 1:
			if !exists[d] || live[d] != "" || len(reqs[d]) >= 3 {
				continue
			}
			nreq++
			q := fmt.Sprintf("r%d", nreq)
			reqs[d] = append(reqs[d], q)
			live[d] = q
			sc.Ops = append(sc.Ops, ApiAction{Op: "env-start", D: d, Req: q})
		case 2:
			if live[d] == "" {
				continue
			}
			delete(live, d)
			sc.Ops = append(sc.Ops, ApiAction{Op: "env-finish", D: d, Status: pick([]string{"finished", "failed", "canceled"})})
		case 3:
			if live[d] == "" {
				continue
			}
			delete(live, d)
			sc.Ops = append(sc.Ops, ApiAction{Op: "env-crash", D: d})
		case 4, 5:
			sc.Ops = append(sc.Ops, ApiAction{Op: "start", D: d, Params: pick([]string{"", "p1 X=2", `a "b c" X=1`, "x=y z", `"q q"`, "$HOME `date`"})})
		case 6:
			sc.Ops = append(sc.Ops, ApiAction{Op: "stop", D: d})
		case 7, 8, 9:
			sc.Ops = append(sc.Ops, ApiAction{Op: pick([]string{"mark-success", "mark-failed"}), D: d, Req: anyReq(), Step: pick([]string{"s1", "s2", "s2", "s1", "s0", "", "zz"})})
		case 10:
			sc.Ops = append(sc.Ops, ApiAction{Op: "retry", D: d, Req: anyReq()})
		case 11:
			sc.Ops = append(sc.Ops, ApiAction{Op: "suspend", D: d, Value: pick([]string{"true", "", "false"})})
		case 12:
			if live[d] != "" {
				continue
			}
			sc.Ops = append(sc.Ops, ApiAction{Op: "save", D: d, Value: pick([]string{"A", "B", "C", "C", "D", "bad", "E"})})
		case 13:
			if live[d] != "" {
				continue
			}
			to := pick([]string{"a", "b", "c", "", "c"})
			if live[to] != "" {
				continue
			}
			sc.Ops = append(sc.Ops, ApiAction{Op: "rename", D: d, Value: to})
			if exists[d] && to != "" && to != d && !exists[to] {
				exists[to], exists[d] = true, false
				reqs[to], reqs[d] = reqs[d], nil
			}
		case 14:
			if rng.Intn(2) == 0 {
				sc.Ops = append(sc.Ops, ApiAction{Op: "create", D: pick([]string{"a", "c", "c"})})
				if last := sc.Ops[len(sc.Ops)-1]; !exists[last.D] {
					exists[last.D] = true
				}
			} else {
				if live[d] != "" {
					continue
				}
				sc.Ops = append(sc.Ops, ApiAction{Op: "delete", D: d})
				if exists[d] {
					exists[d] = false
					reqs[d] = nil
				}
			}
		case 15:
			sc.Ops = append(sc.Ops, ApiAction{Op: pick([]string{"explode", "noaction", "restart"}), D: d})
		}
	}
	_ = sort.Strings
	return sc
}
