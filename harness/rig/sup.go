package rig

// ptrace supervisor (engine E3): runs a command, follows all its threads and children, counts the
// "relevant" system calls (mutating file operations whose path lies under a prefix) in one global
// order and can SIGKILL the whole process group at the entry of the k-th one; a write can be torn
// (its length is cut to N bytes, the kill happens when the shortened write returns).

import (
	"fmt"
	"os"
	"os/exec"
	"runtime"
	"strings"
	"syscall"
)

var supNames = map[uint64]string{
	1: "write", 3: "close", 74: "fsync", 75: "fdatasync", 82: "rename", 87: "unlink", 83: "mkdir",
	257: "openat", 258: "mkdirat", 263: "unlinkat", 264: "renameat", 316: "renameat2", 2: "open",
	49: "bind", 42: "connect", 76: "truncate", 77: "ftruncate", 18: "pwrite64",
}

type SupCall struct {
	N    int    `json:"n"`
	Name string `json:"name"`
	Path string `json:"path"`
	Len  int    `json:"len,omitempty"`
	Pid  int    `json:"pid"`
}

type SupResult struct {
	Calls    []SupCall
	Killed   bool
	ExitCode int
}

func supReadStr(pid int, addr uintptr) string {
	var out []byte
	buf := make([]byte, 256)
	for len(out) < 4096 {
		n, err := syscall.PtracePeekData(pid, addr+uintptr(len(out)), buf)
		if err != nil || n == 0 {
			break
		}
		for i := 0; i < n; i++ {
			if buf[i] == 0 {
				return string(append(out, buf[:i]...))
			}
		}
		out = append(out, buf[:n]...)
	}
	return string(out)
}

type supThread struct {
	inSyscall bool
	nr        uint64
	path      string
	relevant  bool
	tearKill  bool
	fdArg     int
}

// Supervise runs argv under ptrace. killAt <= 0: only list. tear >= 0 and the killAt-th call is a write:
// the write is shortened to `tear` bytes and the process is killed when it returns.
// opens: count read-only opens as well (needed when the order of reads matters).
func Supervise(argv []string, env []string, prefix string, killAt int, tear int, stdout *os.File) (*SupResult, error) {
	return SupervisePark(argv, env, prefix, killAt, tear, stdout, 0, nil)
}

// SupervisePark: like Supervise; additionally the thread that makes the parkAt-th relevant call is held at the
// entry of that call while onPark runs (the other threads of the tracee keep running).
func SupervisePark(argv []string, env []string, prefix string, killAt int, tear int, stdout *os.File, parkAt int, onPark func()) (*SupResult, error) {
	runtime.LockOSThread()
	defer runtime.UnlockOSThread()
	cmd := exec.Command(argv[0], argv[1:]...)
	cmd.Env = env
	cmd.Stdout, cmd.Stderr = stdout, stdout
	cmd.SysProcAttr = &syscall.SysProcAttr{Ptrace: true, Setpgid: true}
	if err := cmd.Start(); err != nil {
		return nil, err
	}
	root := cmd.Process.Pid
	res := &SupResult{}
	var ws syscall.WaitStatus
	if _, err := syscall.Wait4(root, &ws, syscall.WALL, nil); err != nil {
		return nil, err
	}
	opts := syscall.PTRACE_O_TRACESYSGOOD | syscall.PTRACE_O_TRACECLONE | syscall.PTRACE_O_TRACEFORK |
		syscall.PTRACE_O_TRACEVFORK | syscall.PTRACE_O_TRACEEXEC | 0x100000 /* PTRACE_O_EXITKILL */
	if err := syscall.PtraceSetOptions(root, opts); err != nil {
		return nil, err
	}
	threads := map[int]*supThread{root: {}}
	fdpath := map[int]string{}
	count := 0
	kill := func() {
		res.Killed = true
		syscall.Kill(-root, syscall.SIGKILL)
	}
	syscall.PtraceSyscall(root, 0)
	for len(threads) > 0 {
		pid, err := syscall.Wait4(-1, &ws, syscall.WALL, nil)
		if err != nil {
			break
		}
		ts := threads[pid]
		if ts == nil {
			ts = &supThread{}
			threads[pid] = ts
		}
		if ws.Exited() || ws.Signaled() {
			delete(threads, pid)
			if pid == root && ws.Exited() {
				res.ExitCode = ws.ExitStatus()
			}
			continue
		}
		if !ws.Stopped() {
			continue
		}
		sig := ws.StopSignal()
		if sig == syscall.SIGTRAP|0x80 {
			var regs syscall.PtraceRegs
			if err := syscall.PtraceGetRegs(pid, &regs); err != nil {
				syscall.PtraceSyscall(pid, 0)
				continue
			}
			if !ts.inSyscall {
				ts.inSyscall = true
				ts.nr = regs.Orig_rax
				ts.path, ts.relevant = "", false
				if nm, ok := supNames[ts.nr]; ok {
					mutating := true
					switch nm {
					case "openat":
						ts.path = supReadStr(pid, uintptr(regs.Rsi))
						mutating = regs.Rdx&(syscall.O_CREAT|syscall.O_WRONLY|syscall.O_RDWR|syscall.O_TRUNC|syscall.O_APPEND) != 0
					case "mkdirat", "unlinkat":
						ts.path = supReadStr(pid, uintptr(regs.Rsi))
					case "renameat", "renameat2":
						ts.path = supReadStr(pid, uintptr(regs.Rsi)) + " -> " + supReadStr(pid, uintptr(regs.R10))
					case "open", "unlink", "mkdir", "truncate":
						ts.path = supReadStr(pid, uintptr(regs.Rdi))
					case "rename":
						ts.path = supReadStr(pid, uintptr(regs.Rdi)) + " -> " + supReadStr(pid, uintptr(regs.Rsi))
					case "bind", "connect":
						ts.path = supReadStr(pid, uintptr(regs.Rsi)+2)
					case "write", "pwrite64", "fsync", "fdatasync", "close", "ftruncate":
						ts.path = fdpath[int(regs.Rdi)]
						ts.fdArg = int(regs.Rdi)
						if nm == "close" || nm == "fsync" || nm == "fdatasync" {
							mutating = false // nothing on disk changes for a killed process; keep the fd map only
						}
					}
					if ts.path != "" && strings.Contains(ts.path, prefix) {
						ts.relevant = true
						if mutating {
							count++
							c := SupCall{N: count, Name: nm, Path: ts.path, Pid: pid}
							if nm == "write" || nm == "pwrite64" {
								c.Len = int(regs.Rdx)
							}
							res.Calls = append(res.Calls, c)
							if count == parkAt && onPark != nil {
								onPark()
							}
							if count == killAt {
								if (nm == "write" || nm == "pwrite64") && tear >= 0 && tear < int(regs.Rdx) {
									regs.Rdx = uint64(tear)
									if tear == 0 {
										kill()
									} else if err := syscall.PtraceSetRegs(pid, &regs); err == nil {
										ts.tearKill = true
									} else {
										kill()
									}
								} else {
									kill()
								}
							}
						}
					}
				}
			} else {
				ts.inSyscall = false
				nm := supNames[ts.nr]
				if (nm == "openat" || nm == "open") && int64(regs.Rax) >= 0 && ts.relevant {
					fdpath[int(regs.Rax)] = ts.path
				}
				if nm == "close" && ts.relevant {
					delete(fdpath, ts.fdArg)
				}
				if ts.tearKill {
					ts.tearKill = false
					kill()
				}
			}
			syscall.PtraceSyscall(pid, 0)
			continue
		}
		if sig == syscall.SIGTRAP && ws.TrapCause() > 0 {
			syscall.PtraceSyscall(pid, 0)
			continue
		}
		if sig == syscall.SIGSTOP && !ts.inSyscall && ts.nr == 0 {
			syscall.PtraceSyscall(pid, 0)
			continue
		}
		syscall.PtraceSyscall(pid, int(sig))
	}
	_ = cmd.Wait()
	if killAt > 0 && !res.Killed {
		return res, fmt.Errorf("kill point %d not reached (%d relevant calls)", killAt, count)
	}
	return res, nil
}
