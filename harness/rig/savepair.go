package rig

// C18, two saves of the same definition at the same moment (DagStoreConc.tla): every interleaving at the grain of the
// gate of the verif build (after the temporary file is written, before the rename) on the real DAG store, and a
// free-running pair of savers with a reader for the interleavings inside the write.

import (
	"fmt"
	"os"
	"path/filepath"
	"strings"
	"sync"
	"sync/atomic"
	"time"

	"github.com/ErdemOzgen/blackdagger/internal/persistence/local"
)

type SavePairScenario struct {
	Scen  int         `json:"scen"`
	Src   string      `json:"src"`
	Steps []CacheStep `json:"steps"` // a: write | rename, r: a | b
}

func RunSavePair(sc SavePairScenario, base string, emit func(Ev)) error {
	dir := filepath.Join(base, fmt.Sprintf("pair%d", sc.Scen))
	os.MkdirAll(dir, 0o755)
	defer os.RemoveAll(dir)
	texts := map[string]string{"old": apiTexts["A"], "a": apiTexts["B"], "b": apiTexts["C"]}
	file := filepath.Join(dir, "x.yaml")
	os.WriteFile(file, []byte(texts["old"]), 0o644)
	id := func() string {
		b, err := os.ReadFile(file)
		if err != nil {
			return "absent"
		}
		for k, t := range texts {
			if string(b) == t {
				return k
			}
		}
		if len(b) == 0 {
			return "empty"
		}
		return "partial"
	}
	var mu sync.Mutex
	arrive := map[int64]chan string{}
	release := map[int64]chan struct{}{}
	local.VerifHook = func(point, f string) {
		gid := goid()
		mu.Lock()
		a, r := arrive[gid], release[gid]
		mu.Unlock()
		if a == nil {
			return
		}
		a <- point
		<-r
	}
	defer func() { local.VerifHook = nil }()
	ds := local.NewDAGStore(&local.NewDAGStoreArgs{Dir: dir})
	type saver struct {
		arrive  chan string
		release chan struct{}
		done    chan error
	}
	savers := map[string]*saver{}
	emit(Ev{"ev": "Reset", "scen": sc.Scen, "src": sc.Src})
	infra := func(err error) error {
		emit(Ev{"ev": "Infra", "scen": sc.Scen, "err": err.Error()})
		return err
	}
	rename := func(name string) error {
		s := savers[name]
		if s == nil {
			return nil
		}
		s.release <- struct{}{}
		select {
		case err := <-s.done:
			delete(savers, name)
			emit(Ev{"ev": "Step", "scen": sc.Scen, "a": "rename", "r": name, "ok": err == nil, "content": id()})
			return nil
		case <-time.After(20 * time.Second):
			return fmt.Errorf("save does not return")
		}
	}
	started := map[string]bool{}
	for _, st := range sc.Steps {
		switch st.A {
		case "write":
			if started[st.R] {
				continue
			}
			started[st.R] = true
			s := &saver{arrive: make(chan string), release: make(chan struct{}), done: make(chan error, 1)}
			ready := make(chan struct{})
			name := st.R
			go func() {
				gid := goid()
				mu.Lock()
				arrive[gid], release[gid] = s.arrive, s.release
				mu.Unlock()
				close(ready)
				err := ds.UpdateSpec("x", []byte(texts[name]))
				mu.Lock()
				delete(arrive, gid)
				delete(release, gid)
				mu.Unlock()
				s.done <- err
			}()
			<-ready
			select {
			case <-s.arrive:
				savers[st.R] = s
				emit(Ev{"ev": "Step", "scen": sc.Scen, "a": "write", "r": st.R, "ok": true, "content": id()})
			case err := <-s.done:
				return infra(fmt.Errorf("save returned before its rename: %v", err))
			case <-time.After(20 * time.Second):
				return infra(fmt.Errorf("save did not reach its gate"))
			}
		case "rename":
			if err := rename(st.R); err != nil {
				return infra(err)
			}
		}
	}
	for _, n := range []string{"a", "b"} {
		if err := rename(n); err != nil {
			return infra(err)
		}
	}
	return nil
}

// SavePairStress: two savers and a reader, free-running, texts large enough for a write to take a while.
func SavePairStress(base string, d time.Duration, emit func(Ev)) {
	dir := filepath.Join(base, "pairstress")
	os.MkdirAll(dir, 0o755)
	defer os.RemoveAll(dir)
	local.VerifHook = nil
	big := func(tag string) string {
		return "description: \"text " + tag + strings.Repeat(tag, 4<<20) + "\"\nsteps:\n  - name: s1\n    command: echo " + tag + "\n"
	}
	A, B := big("a"), big("b")
	file := filepath.Join(dir, "x.yaml")
	os.WriteFile(file, []byte(A), 0o644)
	ds := local.NewDAGStore(&local.NewDAGStoreArgs{Dir: dir})
	var stop atomic.Bool
	var saves, refused atomic.Int64
	var wg sync.WaitGroup
	for _, txt := range []string{A, B} {
		txt := txt
		wg.Add(1)
		go func() {
			defer wg.Done()
			for !stop.Load() {
				saves.Add(1)
				if err := ds.UpdateSpec("x", []byte(txt)); err != nil {
					refused.Add(1)
				}
			}
		}()
	}
	reads, bad := 0, 0
	firstBad := ""
	dl := time.Now().Add(d)
	for time.Now().Before(dl) {
		b, err := os.ReadFile(file)
		reads++
		if err != nil || (string(b) != A && string(b) != B) {
			bad++
			if firstBad == "" {
				firstBad = fmt.Sprintf("err=%v len=%d of %d", err, len(b), len(A))
			}
		}
	}
	stop.Store(true)
	wg.Wait()
	emit(Ev{"ev": "Stress", "scen": 0, "saves": saves.Load(), "reads": reads, "badReads": bad, "refused": refused.Load(), "firstBad": firstBad})
}

// ---- C18: create / rename of the same target at the same moment (DagNames.tla) ---------------------------------------

type NamesScenario struct {
	Scen  int         `json:"scen"`
	Src   string      `json:"src"`
	Steps []CacheStep `json:"steps"` // a: check | act | save, r: c1 | c2 | r
}

func RunNames(sc NamesScenario, base string, emit func(Ev)) error {
	dir := filepath.Join(base, fmt.Sprintf("names%d", sc.Scen))
	os.MkdirAll(dir, 0o755)
	defer os.RemoveAll(dir)
	texts := map[string]string{"m-text": apiTexts["A"], "tpl:c1": apiTexts["B"], "tpl:c2": apiTexts["C"], "edited": apiTexts["D"]}
	os.WriteFile(filepath.Join(dir, "m.yaml"), []byte(texts["m-text"]), 0o644)
	id := func(name string) string {
		b, err := os.ReadFile(filepath.Join(dir, name+".yaml"))
		if err != nil {
			return "absent"
		}
		for k, t := range texts {
			if string(b) == t {
				return k
			}
		}
		if len(b) == 0 {
			return "empty"
		}
		return "partial"
	}
	var mu sync.Mutex
	arrive := map[int64]chan string{}
	release := map[int64]chan struct{}{}
	local.VerifHook = func(point, f string) {
		if point != "create.checked" && point != "rename.checked" {
			return
		}
		gid := goid()
		mu.Lock()
		a, r := arrive[gid], release[gid]
		mu.Unlock()
		if a == nil {
			return
		}
		a <- point
		<-r
	}
	defer func() { local.VerifHook = nil }()
	ds := local.NewDAGStore(&local.NewDAGStoreArgs{Dir: dir})
	type actor struct {
		arrive  chan string
		release chan struct{}
		done    chan error
	}
	parked := map[string]*actor{}
	started := map[string]bool{}
	emit(Ev{"ev": "Reset", "scen": sc.Scen, "src": sc.Src})
	infra := func(err error) error {
		emit(Ev{"ev": "Infra", "scen": sc.Scen, "err": err.Error()})
		return err
	}
	step := func(a, r, res string) {
		emit(Ev{"ev": "Step", "scen": sc.Scen, "a": a, "r": r, "res": res, "n": id("n"), "m": id("m")})
	}
	act := func(name string) error {
		a := parked[name]
		if a == nil {
			return nil
		}
		a.release <- struct{}{}
		select {
		case err := <-a.done:
			delete(parked, name)
			if err == nil {
				step("act", name, "ok")
			} else {
				step("act", name, "refused")
			}
			return nil
		case <-time.After(20 * time.Second):
			return fmt.Errorf("operation does not return")
		}
	}
	for _, st := range sc.Steps {
		switch st.A {
		case "check":
			if started[st.R] {
				continue
			}
			started[st.R] = true
			a := &actor{arrive: make(chan string), release: make(chan struct{}), done: make(chan error, 1)}
			ready := make(chan struct{})
			name := st.R
			go func() {
				gid := goid()
				mu.Lock()
				arrive[gid], release[gid] = a.arrive, a.release
				mu.Unlock()
				close(ready)
				var err error
				if name == "r" {
					err = ds.Rename("m", "n")
				} else {
					_, err = ds.Create("n", []byte(texts["tpl:"+name]))
				}
				mu.Lock()
				delete(arrive, gid)
				delete(release, gid)
				mu.Unlock()
				a.done <- err
			}()
			<-ready
			select {
			case <-a.arrive:
				parked[st.R] = a
				step("check", st.R, "checked")
			case err := <-a.done:
				if err == nil {
					return infra(fmt.Errorf("operation finished without passing its gate"))
				}
				step("check", st.R, "refused")
			case <-time.After(20 * time.Second):
				return infra(fmt.Errorf("operation did not reach its gate"))
			}
		case "act":
			if err := act(st.R); err != nil {
				return infra(err)
			}
		case "save":
			if err := ds.UpdateSpec("n", []byte(texts["edited"])); err == nil {
				step("save", "", "ok")
			}
		}
	}
	for _, n := range []string{"c1", "c2", "r"} {
		if err := act(n); err != nil {
			return infra(err)
		}
	}
	return nil
}
