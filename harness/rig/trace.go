// Package rig contains the conformance rigs that bind the TLA+ specifications
// under /verif/spec to the real blackdagger code.
package rig

import (
	"bufio"
	"encoding/json"
	"io"
	"os"
	"sync"

	"github.com/ErdemOzgen/blackdagger/internal/dag"
)

// removeSockLock removes what a run leaves in /tmp for a DAG file: the status socket of a killed run and the lock file
// next to it, which the program keeps (one per DAG path - harmless for a few hundred definitions, but the rigs create
// tens of thousands of temporary ones).
func removeSockLock(dagFile string) {
	d := &dag.DAG{Location: dagFile}
	os.Remove(d.SockAddr())
	os.Remove(d.SockAddr() + ".lock")
}

// Ev is one trace event. It is serialised as one JSON object per line; the
// trace specifications read the file with ndJsonDeserialize.
type Ev map[string]any

// Tracer collects events in a total order. Events are appended while the
// lock that protects the traced state is still held by the caller (status
// trace points) or while all other goroutines of the run are parked (gates),
// so the order is consistent with happens-before; wall-clock time is never
// used for ordering.
type Tracer struct {
	mu  sync.Mutex
	evs []Ev
}

func (t *Tracer) Emit(e Ev) {
	t.mu.Lock()
	t.evs = append(t.evs, e)
	t.mu.Unlock()
}

func (t *Tracer) Len() int {
	t.mu.Lock()
	defer t.mu.Unlock()
	return len(t.evs)
}

func (t *Tracer) Events() []Ev {
	t.mu.Lock()
	defer t.mu.Unlock()
	out := make([]Ev, len(t.evs))
	copy(out, t.evs)
	return out
}

// WriteND writes the events as newline-delimited JSON.
func WriteND(w io.Writer, evs []Ev) error {
	bw := bufio.NewWriter(w)
	enc := json.NewEncoder(bw)
	enc.SetEscapeHTML(false)
	for _, e := range evs {
		if err := enc.Encode(e); err != nil {
			return err
		}
	}
	return bw.Flush()
}
