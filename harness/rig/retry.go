package rig

// Retry rig (C10), graph part: the real scheduler.NewExecutionGraphForRetry on every DAG shape and
// every recorded status vector; records are judged by spec/RetryObserve.tla.

import (
	"github.com/ErdemOzgen/blackdagger/internal/dag"
	"github.com/ErdemOzgen/blackdagger/internal/dag/scheduler"
)

var statusNames = []string{"not started", "running", "failed", "canceled", "finished", "skipped"}

func statusByName(s string) scheduler.NodeStatus {
	for i, n := range statusNames {
		if n == s {
			return scheduler.NodeStatus(i)
		}
	}
	return scheduler.NodeStatusNone
}

func retryNodes(deps [][]int, contF, contS []bool, before []string, exec string) []*scheduler.Node {
	nodes := make([]*scheduler.Node, len(deps))
	for i := range deps {
		st := dag.Step{Name: stepName(i + 1), ContinueOn: dag.ContinueOn{Failure: contF[i], Skipped: contS[i]}}
		if exec != "" {
			st.ExecutorConfig = dag.ExecutorConfig{Type: exec}
		} else {
			st.Command = "true"
		}
		for _, d := range deps[i] {
			st.Depends = append(st.Depends, stepName(d))
		}
		nodes[i] = scheduler.NewNode(st, scheduler.NodeState{Status: statusByName(before[i])})
	}
	return nodes
}

// RetryGraphRecord: statuses of the retry graph for one recorded vector.
func RetryGraphRecord(deps [][]int, contF, contS []bool, before []string) Ev {
	g, err := scheduler.NewExecutionGraphForRetry(quietLogger, retryNodes(deps, contF, contS, before, "")...)
	e := Ev{"n": len(deps), "deps": deps, "contF": contF, "contS": contS, "before": before, "err": ""}
	after := make([]string, len(deps))
	if err != nil {
		e["err"] = err.Error()
		copy(after, before)
	} else {
		for i, n := range g.Nodes() {
			after[i] = n.State().Status.String()
		}
	}
	e["after"] = after
	return e
}

// RetrySweep enumerates every acyclic dependency relation on n steps (by mask) and every status vector.
func RetrySweep(n int, from, to int, emit func(Ev)) int {
	cnt := 0
	total := 1 << uint(n*n)
	if to <= 0 || to > total {
		to = total
	}
	nst := len(statusNames)
	nvec := 1
	for i := 0; i < n; i++ {
		nvec *= nst
	}
	flags := [][]bool{make([]bool, n), make([]bool, n)}
	for i := 0; i < n; i++ {
		flags[1][i] = true
	}
	for m := from; m < to; m++ {
		deps := DepsFromMask(n, uint64(m))
		if _, err := scheduler.NewExecutionGraph(quietLogger, admitSteps(deps, "")...); err != nil {
			continue
		}
		for v := 0; v < nvec; v++ {
			before := make([]string, n)
			x := v
			for i := 0; i < n; i++ {
				before[i] = statusNames[x%nst]
				x /= nst
			}
			for _, cf := range flags {
				for _, cs := range flags {
					emit(RetryGraphRecord(deps, cf, cs, before))
					cnt++
				}
			}
		}
	}
	return cnt
}
