package rig

// Admission rig (C14): runs the real scheduler.NewExecutionGraph (and, on a sample,
// the real agent.Run) on enumerated and random dependency graphs and records the
// verdict. The records are judged by spec/AdmissionObserve.tla against the
// declarative definition Admissible (no dangling name, transitive closure irreflexive).

import (
	"context"
	"fmt"
	"math/rand"
	"os"
	"path/filepath"
	"syscall"
	"time"

	"github.com/ErdemOzgen/blackdagger/internal/agent"
	"github.com/ErdemOzgen/blackdagger/internal/client"
	"github.com/ErdemOzgen/blackdagger/internal/dag"
	"github.com/ErdemOzgen/blackdagger/internal/dag/scheduler"
	dsclient "github.com/ErdemOzgen/blackdagger/internal/persistence/client"
)

// AdmitGraph: deps[i] lists the 1-based steps step i+1 depends on; 0 stands for a name that no step has.
func admitSteps(deps [][]int, exec string) []dag.Step {
	steps := make([]dag.Step, len(deps))
	for i := range deps {
		steps[i] = dag.Step{Name: stepName(i + 1)}
		if exec != "" {
			steps[i].ExecutorConfig = dag.ExecutorConfig{Type: exec}
		} else {
			steps[i].Command = "true"
		}
		for _, d := range deps[i] {
			if d == 0 {
				steps[i].Depends = append(steps[i].Depends, "no_such_step")
			} else {
				steps[i].Depends = append(steps[i].Depends, stepName(d))
			}
		}
	}
	return steps
}

var admitRetryHangs int

func AdmitRecord(deps [][]int) Ev {
	steps := admitSteps(deps, "")
	_, err := scheduler.NewExecutionGraph(quietLogger, steps...)
	e := Ev{"kind": "graph", "n": len(deps), "deps": deps, "accepted": err == nil, "err": "", "retry": "skipped"}
	if err != nil {
		e["err"] = err.Error()
	}
	// the same graph as the recorded steps of an earlier run (first step failed, the others canceled) handed to the
	// constructor a retry uses: a record is not admitted either unless its graph is well-formed. A wrongly admitted
	// cycle can make the constructor's own walk spin for ever: bounded wait, and no further calls after three hangs
	// (the abandoned goroutines keep a core busy each)
	// Only for small graphs: setupRetry visits a step once per path that leads to it, which is exponential in dense
	// graphs (a 26-step graph in which every step depends on all earlier ones takes minutes) - slow is not hung, and a
	// bounded wait could not tell the two apart on the large random graphs.
	if admitRetryHangs < 3 && len(steps) <= 8 {
		nodes := make([]*scheduler.Node, len(steps))
		for i, st := range steps {
			status := scheduler.NodeStatusCancel
			if i == 0 {
				status = scheduler.NodeStatusError
			}
			nodes[i] = scheduler.NewNode(st, scheduler.NodeState{Status: status})
		}
		done := make(chan error, 1)
		go func() {
			_, rerr := scheduler.NewExecutionGraphForRetry(quietLogger, nodes...)
			done <- rerr
		}()
		select {
		case rerr := <-done:
			if rerr == nil {
				e["retry"] = "accepted"
			} else {
				e["retry"] = "refused"
			}
		case <-time.After(3 * time.Second):
			admitRetryHangs++
			e["retry"] = "hung"
		}
	}
	return e
}

// DepsFromMask decodes an edge set over n steps: bit (i*n+j) set <=> step i+1 depends on step j+1.
func DepsFromMask(n int, mask uint64) [][]int {
	deps := make([][]int, n)
	for i := 0; i < n; i++ {
		deps[i] = []int{}
		for j := 0; j < n; j++ {
			if mask&(1<<uint(i*n+j)) != 0 {
				deps[i] = append(deps[i], j+1)
			}
		}
	}
	return deps
}

// DepsFromMaskNoLoops: like DepsFromMask over the n*(n-1) off-diagonal pairs.
func DepsFromMaskNoLoops(n int, mask uint64) [][]int {
	deps := make([][]int, n)
	k := uint(0)
	for i := 0; i < n; i++ {
		deps[i] = []int{}
		for j := 0; j < n; j++ {
			if i == j {
				continue
			}
			if mask&(1<<k) != 0 {
				deps[i] = append(deps[i], j+1)
			}
			k++
		}
	}
	return deps
}

// RandomDeps draws a graph of up to 40 steps: mostly acyclic (edges along a random order) with a few
// random back edges, optional dangling names and duplicate entries.
func RandomDeps(rng *rand.Rand) [][]int {
	n := 2 + rng.Intn(39)
	rank := rng.Perm(n)
	p := []float64{0.02, 0.05, 0.1, 0.3}[rng.Intn(4)]
	back := []int{0, 0, 1, 2}[rng.Intn(4)]
	deps := make([][]int, n)
	for i := range deps {
		deps[i] = []int{}
		for j := 0; j < n; j++ {
			if rank[j] < rank[i] && rng.Float64() < p {
				deps[i] = append(deps[i], j+1)
				if rng.Intn(15) == 0 {
					deps[i] = append(deps[i], j+1) // duplicate entry
				}
			}
		}
	}
	for b := 0; b < back; b++ {
		i, j := rng.Intn(n), rng.Intn(n)
		deps[i] = append(deps[i], j+1) // may close a cycle (or be a self-loop)
	}
	if rng.Intn(6) == 0 {
		i := rng.Intn(n)
		deps[i] = append(deps[i], 0)
	}
	return deps
}

// AdmitAgentRecord runs the real agent on a DAG with the given graph and records every side effect.
func AdmitAgentRecord(id int, deps [][]int, base string) Ev {
	dir := filepath.Join(base, fmt.Sprintf("adm%d", id))
	dags := filepath.Join(dir, "dags")
	os.MkdirAll(dags, 0o755)
	defer os.RemoveAll(dir)
	file := filepath.Join(dags, fmt.Sprintf("adm%d.yaml", id))
	defer removeSockLock(file)
	marker := filepath.Join(dir, "executed")
	y := "logDir: " + filepath.Join(dir, "logs") + "\nhandlerOn:\n  exit:\n    command: sh -c \"echo onExit >> " + marker +
		"\"\n  failure:\n    command: sh -c \"echo onFailure >> " + marker + "\"\nsteps:\n"
	for i := range deps {
		y += fmt.Sprintf("  - name: %s\n    command: sh -c \"echo %s >> %s\"\n", stepName(i+1), stepName(i+1), marker)
		if len(deps[i]) > 0 {
			y += "    depends:\n"
			for _, d := range deps[i] {
				if d == 0 {
					y += "      - no_such_step\n"
				} else {
					y += "      - " + stepName(d) + "\n"
				}
			}
		}
	}
	os.WriteFile(file, []byte(y), 0o644)
	d, lerr := dag.Load("", file, "")
	if lerr != nil {
		// refused by the loader already: nothing can have run
		hist, _ := filepath.Glob(filepath.Join(dir, "data", "*", "*.dat"))
		b, _ := os.ReadFile(marker)
		return Ev{"kind": "agent", "n": len(deps), "deps": deps, "accepted": false, "err": "load: " + lerr.Error(),
			"executed": len(b) > 0, "history": len(hist), "sockLeft": false, "hung": false}
	}
	ds := dsclient.NewDataStores(dags, filepath.Join(dir, "data"), filepath.Join(dir, "susp"), dsclient.DataStoreOptions{})
	cli := client.New(ds, "/bin/false", dir, quietLogger)
	req := fmt.Sprintf("adm-req-%d", id)
	a := agent.New(req, d, quietLogger, filepath.Join(dir, "logs"), filepath.Join(dir, "logs", req+".log"), cli, ds, &agent.Options{})
	// a wrongly admitted cyclic graph never finishes: give the run a deadline, then stop it
	errc := make(chan error, 1)
	go func() { errc <- a.Run(context.Background()) }()
	var err error
	hung := false
	select {
	case err = <-errc:
	case <-time.After(6 * time.Second):
		hung = true
		a.Signal(syscall.SIGTERM)
		select {
		case err = <-errc:
		case <-time.After(10 * time.Second):
		}
		err = nil
	}
	b, _ := os.ReadFile(marker)
	hist, _ := filepath.Glob(filepath.Join(dir, "data", "*", "*.dat"))
	_, sockErr := os.Stat(d.SockAddr())
	e := Ev{"kind": "agent", "n": len(deps), "deps": deps, "accepted": err == nil, "err": "", "executed": len(b) > 0,
		"history": len(hist), "sockLeft": sockErr == nil, "hung": hung}
	if err != nil {
		e["err"] = err.Error()
	}
	return e
}
