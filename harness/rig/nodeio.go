package rig

// Node IO rig (C12, and the output-capture clause of C11): the real scheduler.Schedule with the real
// command executor and real child processes (the harness binary itself in `emit` mode) printing counted
// patterns to stdout / stderr, for every combination of {stdout file, stderr file, output variable,
// script} x retries x streams x sizes around the buffer boundaries. After Schedule returned, the log
// named in the node status and the stdout / stderr files are compared byte for byte with what the child
// printed. Optionally the gate hooks force the "old goroutine's deferred teardown runs after the
// relaunched attempt was set up" schedule. spec/NodeIOObserve.tla judges the records.

import (
	"bytes"
	"context"
	"fmt"
	"io"
	"os"
	"path/filepath"
	"strings"
	"sync"
	"syscall"
	"time"

	"github.com/ErdemOzgen/blackdagger/internal/dag"
	"github.com/ErdemOzgen/blackdagger/internal/dag/executor"
	"github.com/ErdemOzgen/blackdagger/internal/dag/scheduler"
)

// EmitPattern is what the child prints on a stream in attempt att: n bytes, every line tagged.
// EmitPattern: what the child prints on a stream. The two streams use disjoint byte sets (stdout: lower case, digits,
// ':' and newline; stderr: upper case, ';' and '|'), so that a file holding both can be split again whatever the order
// in which the two pipes were drained.
func EmitPattern(stream string, att, n int) []byte {
	var b bytes.Buffer
	i := 0
	for b.Len() < n {
		fmt.Fprintf(&b, "o%d:%07d\n", att, i)
		i++
	}
	out := b.Bytes()[:n]
	if stream == "e" {
		for k, c := range out {
			switch {
			case c >= '0' && c <= '9':
				out[k] = 'A' + (c - '0')
			case c == 'o':
				out[k] = 'E'
			case c == ':':
				out[k] = ';'
			case c == '\n':
				out[k] = '|'
			}
		}
	}
	return out
}

func isErrByte(c byte) bool { return (c >= 'A' && c <= 'Z') || c == ';' || c == '|' }

// splitStreams separates a file that holds both streams
func splitStreams(b []byte) (o, e []byte) {
	for _, c := range b {
		if isErrByte(c) {
			e = append(e, c)
		} else {
			o = append(o, c)
		}
	}
	return
}

// EmitChild is the body of `vh emit`: attempt counter in a state file, prints, exits 1 while att <= failUntil.
func EmitChild(state string, nout, nerr, failUntil int, order string) int {
	return emitTo(os.Stdout, os.Stderr, state, nout, nerr, failUntil, order)
}

// fileLike: the two streams of an attempt (the child's own descriptors, or the writers a step's executor is handed)
type fileLike interface{ Write([]byte) (int, error) }

func emitTo(stdout, stderr fileLike, state string, nout, nerr, failUntil int, order string) int {
	att := 1
	if b, err := os.ReadFile(state); err == nil {
		fmt.Sscanf(string(b), "%d", &att)
		att++
	}
	os.WriteFile(state, []byte(fmt.Sprint(att)), 0o644)
	out, errb := EmitPattern("o", att, nout), EmitPattern("e", att, nerr)
	switch order {
	case "errfirst":
		stderr.Write(errb)
		stdout.Write(out)
	case "parallel": // both streams at the same time, in small pieces: the two pipes are drained concurrently
		var wg sync.WaitGroup
		for _, pr := range []struct {
			f fileLike
			b []byte
		}{{stdout, out}, {stderr, errb}} {
			wg.Add(1)
			go func(f fileLike, b []byte) {
				defer wg.Done()
				for len(b) > 0 {
					k := min(173, len(b))
					f.Write(b[:k])
					b = b[k:]
				}
			}(pr.f, pr.b)
		}
		wg.Wait()
	case "chunks": // alternate in chunks of 1000 bytes
		for len(out) > 0 || len(errb) > 0 {
			k := min(1000, len(out))
			stdout.Write(out[:k])
			out = out[k:]
			k = min(1000, len(errb))
			stderr.Write(errb[:k])
			errb = errb[k:]
		}
	default:
		stdout.Write(out)
		stderr.Write(errb)
	}
	if att <= failUntil {
		return 1
	}
	return 0
}

type IOScenario struct {
	ID        int    `json:"id"`
	StdoutF   bool   `json:"stdoutFile"`
	StderrF   bool   `json:"stderrFile"`
	Output    bool   `json:"output"`
	Script    bool   `json:"script"`
	Retries   int    `json:"retries"`   // retryPolicy.limit
	FailUntil int    `json:"failUntil"` // attempts that fail
	NOut      int    `json:"nout"`
	NErr      int    `json:"nerr"`
	Order     string `json:"order"`    // outfirst | errfirst | chunks
	DoneChan  bool   `json:"doneChan"` // Schedule with a done channel (the agent's way)
	TailLate  bool   `json:"tailLate"` // force: deferred teardown of a failed attempt runs after the next attempt was set up
	Writer    bool   `json:"writer"`   // the step's executor writes the bytes itself (Write calls on the writers it was handed, as the jq / http / mail / docker executors do) instead of running a child
	Repeat    int    `json:"repeat"`   // > 0: a repeating step with continueOn.failure, stopped once it has run this many iterations
}

func RunNodeIO(self string, sc IOScenario, base string) Ev {
	dir := filepath.Join(base, fmt.Sprintf("io%d", sc.ID))
	os.MkdirAll(dir, 0o755)
	defer os.RemoveAll(dir)
	state := filepath.Join(dir, "attempt")
	cmdline := fmt.Sprintf("%s emit -state %s -out %d -err %d -fail %d -order %s", self, state, sc.NOut, sc.NErr, sc.FailUntil, sc.Order)
	st := dag.Step{Name: "io", Dir: dir}
	if sc.Script {
		st.Command, st.CmdWithArgs, st.Script = "sh", "sh", cmdline+"\n"
	} else {
		st.CmdWithArgs = cmdline
		st.Command = self
	}
	if sc.Writer {
		registerWriteExecutor()
		st.Command, st.CmdWithArgs, st.Script = "emit", "emit", ""
		st.ExecutorConfig = dag.ExecutorConfig{Type: "verifwrite", Config: map[string]any{"state": state, "nout": sc.NOut, "nerr": sc.NErr, "fail": sc.FailUntil, "order": sc.Order}}
	}
	if sc.StdoutF {
		st.Stdout = filepath.Join(dir, "stdout.txt")
	}
	if sc.StderrF {
		st.Stderr = filepath.Join(dir, "stderr.txt")
	}
	if sc.Output {
		st.Output = fmt.Sprintf("VERIF_IO_OUT_%d", sc.ID)
	}
	if sc.Retries > 0 {
		st.RetryPolicy = &dag.RetryPolicy{Limit: sc.Retries, Interval: time.Millisecond}
	}
	if sc.Repeat > 0 {
		st.RepeatPolicy = dag.RepeatPolicy{Repeat: true, Interval: 5 * time.Millisecond}
		st.ContinueOn = dag.ContinueOn{Failure: true}
	}
	g, err := scheduler.NewExecutionGraph(quietLogger, st)
	if err != nil {
		return Ev{"id": sc.ID, "infra": err.Error()}
	}
	s := scheduler.New(&scheduler.Config{LogDir: filepath.Join(dir, "logs"), Logger: quietLogger, ReqID: fmt.Sprintf("io%d", sc.ID)})
	s.VerifSetPause(200 * time.Microsecond)
	var done chan *scheduler.Node
	var wg sync.WaitGroup
	if sc.DoneChan {
		done = make(chan *scheduler.Node)
		wg.Add(1)
		go func() {
			defer wg.Done()
			for range done {
			}
		}()
	}
	// gate: park the deferred part of a failed attempt's goroutine until the next attempt is being executed
	var mu sync.Mutex
	tails, execs := 0, 0
	release := make(chan struct{})
	var relOnce sync.Once
	launches, exits := 0, 0
	exited := sync.NewCond(&mu)
	_, _ = launches, exits
	_ = exited
	// (until the F-12b fix the benign order had to be forced here; now both orders are driven: the natural one
	// and, with tailLate, the one where the old goroutine's deferred part runs after the next attempt was set up)
	if sc.TailLate {
		scheduler.VerifHook = func(point, step string) {
			switch point {
			case "worker.tail":
				mu.Lock()
				tails++
				first := tails == 1 && execs == 1
				mu.Unlock()
				if first && sc.FailUntil >= 1 && sc.Retries >= 1 {
					select {
					case <-release:
					case <-time.After(3 * time.Second):
					}
				}
			case "node.created":
				mu.Lock()
				execs++
				second := execs == 2
				mu.Unlock()
				if second {
					relOnce.Do(func() { close(release) })
					time.Sleep(2 * time.Millisecond)
				}
			}
		}
		defer func() { scheduler.VerifHook = nil }()
	}
	finished := make(chan error, 1)
	go func() {
		ctx := dag.NewContext(context.Background(), nil, nil, fmt.Sprintf("io%d", sc.ID), "")
		finished <- s.Schedule(ctx, g, done)
	}()
	hung := false
	if sc.Repeat > 0 {
		// a repeating step only ends when the run is stopped: stop it once it has run the wanted number of iterations
		go func() {
			dl := time.Now().Add(6 * time.Second)
			for time.Now().Before(dl) {
				n := 0
				if b, err := os.ReadFile(state); err == nil {
					fmt.Sscanf(string(b), "%d", &n)
				}
				if n >= sc.Repeat {
					break
				}
				time.Sleep(2 * time.Millisecond)
			}
			s.Signal(g, syscall.SIGTERM, nil, true)
		}()
	}
	select {
	case <-finished:
	case <-time.After(8 * time.Second):
		hung = true
		s.Signal(g, os.Kill, nil, false)
		select {
		case <-finished:
		case <-time.After(5 * time.Second):
		}
	}
	if done != nil && !hung {
		close(done)
		wg.Wait()
	}
	node := g.Nodes()[0]
	ns := node.State()
	attempts := 0
	if b, err := os.ReadFile(state); err == nil {
		fmt.Sscanf(string(b), "%d", &attempts)
	}
	read := func(p string) ([]byte, bool) {
		b, err := os.ReadFile(p)
		return b, err == nil
	}
	logb, logOK := read(ns.Log)
	cmp := func(got, want []byte) Ev {
		first := -1
		for i := 0; i < len(got) && i < len(want); i++ {
			if got[i] != want[i] {
				first = i
				break
			}
		}
		if first < 0 && len(got) != len(want) {
			first = min(len(got), len(want))
		}
		return Ev{"got": len(got), "want": len(want), "equal": bytes.Equal(got, want), "firstDiff": first}
	}
	last := attempts
	// what the last attempt printed, in the order the child wrote it
	o, e := EmitPattern("o", last, sc.NOut), EmitPattern("e", last, sc.NErr)
	if sc.Repeat > 0 {
		// the iterations of a repeating step share one attempt: its log holds what every iteration printed
		o, e = nil, nil
		for a := 1; a <= attempts; a++ {
			o = append(o, EmitPattern("o", a, sc.NOut)...)
			e = append(e, EmitPattern("e", a, sc.NErr)...)
		}
	}
	lastAll := interleave(sc.Order, o, e)
	rec := Ev{"id": sc.ID, "sc": sc, "hung": hung, "crashed": false, "status": ns.Status.String(), "attempts": attempts, "retryCount": ns.RetryCount,
		"logExists": logOK, "err": fmt.Sprint(ns.Error)}
	if sc.StderrF {
		rec["log"] = cmp(logb, o)
		eb, _ := read(filepath.Join(dir, "stderr.txt"))
		var allErr []byte
		for a := 1; a <= attempts; a++ {
			allErr = append(allErr, EmitPattern("e", a, sc.NErr)...)
		}
		rec["stderrFile"] = Ev{"got": len(eb), "want": len(allErr), "equal": bytes.Equal(eb, allErr), "hasLast": bytes.HasSuffix(eb, e)}
	} else {
		// both streams reach the log; they may travel through separate pipes, so only the order within each stream is fixed
		lo, le := splitStreams(logb)
		c := cmp(logb, lastAll)
		c["equal"] = bytes.Equal(lo, o) && bytes.Equal(le, e)
		rec["log"] = c
		rec["stderrFile"] = Ev{"got": 0, "want": 0, "equal": true, "hasLast": true}
	}
	if sc.StdoutF {
		ob, _ := read(filepath.Join(dir, "stdout.txt"))
		var allOut []byte
		for a := 1; a <= attempts; a++ {
			allOut = append(allOut, EmitPattern("o", a, sc.NOut)...)
		}
		// the property demands every byte written to stdout; when stderr is not sent to its own file the code
		// routes it into the same writer chain, so the file then holds the attempt's whole output in write order
		var allErr []byte
		for a := 1; a <= attempts; a++ {
			allErr = append(allErr, EmitPattern("e", a, sc.NErr)...)
		}
		fo, fe := splitStreams(ob)
		eq := bytes.Equal(fo, allOut) && (len(fe) == 0 || (!sc.StderrF && bytes.Equal(fe, allErr)))
		rec["stdoutFile"] = Ev{"got": len(ob), "want": len(allOut), "equal": eq, "hasLast": bytes.HasSuffix(ob, o)}
	} else {
		rec["stdoutFile"] = Ev{"got": 0, "want": 0, "equal": true, "hasLast": true}
	}
	if sc.Output {
		v := os.Getenv(st.Output)
		want := strings.TrimSpace(string(o))
		rec["outputVar"] = Ev{"got": len(v), "want": len(want), "equal": v == want}
		os.Unsetenv(st.Output)
	} else {
		rec["outputVar"] = Ev{"got": 0, "want": 0, "equal": true}
	}
	return rec
}

// interleave: the bytes of one attempt in the order the child wrote them
func interleave(order string, o, e []byte) []byte {
	var all []byte
	switch order {
	case "errfirst":
		all = append(append([]byte{}, e...), o...)
	case "chunks":
		oo, ee := o, e
		for len(oo) > 0 || len(ee) > 0 {
			k := min(1000, len(oo))
			all = append(all, oo[:k]...)
			oo = oo[k:]
			k = min(1000, len(ee))
			all = append(all, ee[:k]...)
			ee = ee[k:]
		}
	default:
		all = append(append([]byte{}, o...), e...)
	}
	return all
}

// CrashedIORecord: the process that ran the step died (e.g. a panic in a goroutine copying the child's output)
func CrashedIORecord(sc IOScenario, why string) Ev {
	none := Ev{"got": 0, "want": 0, "equal": true, "hasLast": true, "firstDiff": -1}
	return Ev{"id": sc.ID, "sc": sc, "hung": false, "crashed": true, "crash": trunc(why, 200), "status": "?", "attempts": 0, "retryCount": 0,
		"logExists": false, "err": "", "log": none, "stdoutFile": none, "stderrFile": none, "outputVar": none}
}

// writeExec: an executor of the kind jq / http / mail / docker are: no child process, it calls Write on the writers the node
// handed it. (With a child the os/exec copy loop reaches the file through bufio.Writer.ReadFrom and bypasses the buffer; Write
// calls do not, so only this kind shows whether every buffered writer is flushed at teardown.)
type writeExec struct {
	stdout, stderr io.Writer
	cfg            map[string]any
}

func (e *writeExec) SetStdout(w io.Writer) { e.stdout = w }
func (e *writeExec) SetStderr(w io.Writer) { e.stderr = w }
func (e *writeExec) Kill(os.Signal) error  { return nil }
func (e *writeExec) Run() error {
	n := func(k string) int { v, _ := e.cfg[k].(int); return v }
	st, _ := e.cfg["state"].(string)
	or, _ := e.cfg["order"].(string)
	if emitTo(e.stdout, e.stderr, st, n("nout"), n("nerr"), n("fail"), or) != 0 {
		return fmt.Errorf("attempt failed")
	}
	return nil
}

var writeExecOnce sync.Once

func registerWriteExecutor() {
	writeExecOnce.Do(func() {
		executor.Register("verifwrite", func(ctx context.Context, step dag.Step) (executor.Executor, error) {
			return &writeExec{cfg: step.ExecutorConfig.Config}, nil
		})
	})
}
