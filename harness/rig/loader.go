package rig

// Loader rig (C13, C19): structural mutations of a rich valid DAG definition (every node deleted or
// replaced by one of a list of shapes; pairs of deviations in the thorough tier; byte-level mutations)
// are loaded through every loader entry point; accepted definitions are checked for the post-conditions
// the property lists. For C19 a command substitution / variable reference is planted in every
// string-valued leaf and every non-executing entry point is watched for the command running and for
// changes of the process environment. spec/LoaderObserve.tla judges the records.

import (
	"encoding/json"
	"fmt"
	"math"
	"math/rand"
	"os"
	"path/filepath"
	"runtime"
	"sort"
	"strings"
	"time"

	"github.com/ErdemOzgen/blackdagger/internal/client"
	"github.com/ErdemOzgen/blackdagger/internal/config"
	"github.com/ErdemOzgen/blackdagger/internal/dag"
	"github.com/ErdemOzgen/blackdagger/internal/dag/scheduler"
	dsclient "github.com/ErdemOzgen/blackdagger/internal/persistence/client"
	"github.com/ErdemOzgen/blackdagger/internal/persistence/model"
	daemon "github.com/ErdemOzgen/blackdagger/internal/scheduler"
	"golang.org/x/sys/unix"
	"gopkg.in/yaml.v2"
)

const LoaderBaseDoc = `
name: base
group: g
description: d
schedule:
  start: "0 1 * * *"
  stop: ["0 2 * * *"]
  restart: "0 3 * * *"
logDir: /tmp/verif-x
env:
  - A: "1"
  - B: "2"
params: "p1 X=2"
tags: "a,b"
timeoutSec: 5
delaySec: 1
restartWaitSec: 1
histRetentionDays: 3
maxActiveRuns: 1
maxCleanUpTimeSec: 2
preconditions:
  - condition: "x"
    expected: "x"
mailOn:
  failure: true
  success: false
smtp:
  host: h
  port: "25"
  username: u
  password: p
errorMail:
  from: a@b
  to: c@d
  prefix: "[E]"
  attachLogs: true
infoMail:
  from: a@b
  to: c@d
functions:
  - name: f
    params: "xa yb"
    command: "echo $xa $yb"
handlerOn:
  exit:
    command: GET http://localhost/exit
    executor:
      type: http
      config:
        timeout: 5
        headers:
          X: y
        query:
          - k: v
  success:
    command: echo ok
  failure:
    command: echo fail
  cancel:
    command: echo cancel
steps:
  - name: s1
    description: d
    dir: /tmp
    command: echo hi
    stdout: /tmp/verif-o
    stderr: /tmp/verif-e
    output: OUT
    script: |
      echo script
    signalOnStop: SIGINT
    mailOnError: true
    continueOn:
      failure: true
      skipped: false
    retryPolicy:
      limit: 1
      intervalSec: 1
    repeatPolicy:
      repeat: false
      intervalSec: 1
    preconditions:
      - condition: "y"
        expected: "re:^y$"
  - name: s2
    depends: [s1]
    executor:
      type: http
      config:
        timeout: 5
        headers:
          X: y
    command: GET http://localhost
  - name: s3
    call:
      function: f
      args:
        xa: 1
        yb: "two"
  - name: s4
    run: sub
    params: "a b"
  - name: s5
    command: [echo, 1, two]
`

type docPath []any

func docWalk(v any, p docPath, out *[]docPath) {
	*out = append(*out, append(docPath{}, p...))
	switch t := v.(type) {
	case map[any]any:
		keys := []string{}
		for k := range t {
			keys = append(keys, fmt.Sprint(k))
		}
		sort.Strings(keys)
		for _, k := range keys {
			docWalk(t[k], append(p, k), out)
		}
	case []any:
		for i, e := range t {
			docWalk(e, append(p, i), out)
		}
	}
}

func docCopy(v any) any {
	switch t := v.(type) {
	case map[any]any:
		m := map[any]any{}
		for k, e := range t {
			m[k] = docCopy(e)
		}
		return m
	case []any:
		s := make([]any, len(t))
		for i, e := range t {
			s[i] = docCopy(e)
		}
		return s
	}
	return v
}

func docSet(root any, p docPath, nv any, del bool) any {
	if len(p) == 0 {
		return nv
	}
	switch t := root.(type) {
	case map[any]any:
		if len(p) == 1 && del {
			delete(t, p[0])
			return t
		}
		t[p[0]] = docSet(t[p[0]], p[1:], nv, del)
		return t
	case []any:
		i, ok := p[0].(int)
		if !ok || i >= len(t) {
			return t
		}
		if len(p) == 1 && del {
			return append(t[:i], t[i+1:]...)
		}
		t[i] = docSet(t[i], p[1:], nv, del)
		return t
	}
	return root
}

func docGet(root any, p docPath) any {
	cur := root
	for _, k := range p {
		switch tt := cur.(type) {
		case map[any]any:
			cur = tt[k]
		case []any:
			i, ok := k.(int)
			if !ok || i >= len(tt) {
				return nil
			}
			cur = tt[i]
		default:
			return nil
		}
	}
	return cur
}

func pathStr(p docPath) string {
	var s []string
	for _, k := range p {
		s = append(s, fmt.Sprint(k))
	}
	return strings.Join(s, ".")
}

type shape struct {
	name string
	v    any
}

var loaderShapes = []shape{
	{"null", nil}, {"str", "str"}, {"int", 5}, {"bool", true}, {"float", 1.5}, {"emptylist", []any{}}, {"list_str", []any{"x"}},
	{"list_null", []any{nil}}, {"list_int", []any{5}}, {"list_map", []any{map[any]any{"a": "b"}}}, {"emptymap", map[any]any{}},
	{"map_unknown", map[any]any{"unknown": "x"}}, {"map_nested", map[any]any{"a": map[any]any{"b": "c"}}},
	{"map_intkey", map[any]any{5: "x"}}, {"badregex", "re:["}, {"cmdsub_false", "`false`"}, {"emptystr", ""},
	{"sig_lower", "sigterm"}, {"sig_bogus", "SIGBOGUS"}, {"cron_bad", "61 * * * *"}, {"neg", -3}, {"huge", 1 << 40},
	{"cron_tz_only", "TZ=UTC"}, {"cron_crontz_only", "CRON_TZ=Asia/Tokyo"}, {"cron_tz_ok", "TZ=UTC 0 1 * * *"}, {"cron_every", "@every 1h"},
	{"cron_every_bad", "@every"}, {"cron_six", "* * * * * *"}, {"cron_at_bogus", "@bogus"}, {"cron_range_bad", "5-1 * * * *"}, {"cron_step_zero", "*/0 * * * *"},
	{"float_nan", math.NaN()}, {"float_inf", math.Inf(1)}, {"list_nan", []any{math.NaN()}}, {"map_nan", map[any]any{"k": math.Inf(-1)}},
	{"list_listmap", []any{[]any{map[any]any{"a": 1}}}}, {"map_list_map", map[any]any{"k": []any{map[any]any{"a": 1}}}},
}

// panicSite finds the first frame inside the repository
func panicSite() string {
	pcs := make([]uintptr, 60)
	n := runtime.Callers(3, pcs)
	fr := runtime.CallersFrames(pcs[:n])
	for {
		f, more := fr.Next()
		if strings.Contains(f.File, "/internal/") && !strings.Contains(f.File, "verifharness") && !strings.Contains(f.File, "/verif/harness") {
			i := strings.Index(f.File, "/internal/")
			return fmt.Sprintf("%s:%d", f.File[i+1:], f.Line)
		}
		if !more {
			return "?"
		}
	}
}

func guarded(f func()) (site string) {
	defer func() {
		if r := recover(); r != nil {
			site = panicSite()
			if site == "?" {
				site = fmt.Sprint(r)
			}
		}
	}()
	f()
	return ""
}

type loaderEntry struct {
	name string
	f    func(b []byte, file string) (*dag.DAG, error)
}

var loaderEntries = []loaderEntry{
	{"LoadYAML", func(b []byte, _ string) (*dag.DAG, error) { return dag.LoadYAML(b) }},
	{"LoadMetadata", func(_ []byte, f string) (*dag.DAG, error) { return dag.LoadMetadata(f) }},
	{"LoadWithoutEval", func(_ []byte, f string) (*dag.DAG, error) { return dag.LoadWithoutEval(f) }},
	{"Load", func(_ []byte, f string) (*dag.DAG, error) { return dag.Load("", f, "") }},
}

// postConditions of an accepted definition (C13)
func postConditions(d *dag.DAG, full bool) Ev {
	post := Ev{"named": true, "exec": true, "sched": true, "signals": true, "serial": true, "precond": true, "graph": true, "site": ""}
	steps := append([]dag.Step{}, d.Steps...)
	for _, h := range []*dag.Step{d.HandlerOn.Exit, d.HandlerOn.Success, d.HandlerOn.Failure, d.HandlerOn.Cancel} {
		if h != nil {
			steps = append(steps, *h)
		}
	}
	if full {
		for _, s := range steps {
			if s.Name == "" {
				post["named"] = false
			}
			if s.Command == "" && s.CmdWithArgs == "" && s.ExecutorConfig.Type == "" && s.Script == "" && s.SubWorkflow == nil {
				post["exec"] = false
			}
			if s.SignalOnStop != "" && unix.SignalNum(s.SignalOnStop) == 0 {
				post["signals"] = false
			}
		}
	}
	for _, ss := range [][]dag.Schedule{d.Schedule, d.StopSchedule, d.RestartSchedule} {
		for _, s := range ss {
			if s.Parsed == nil {
				post["sched"] = false
			} else if site := guarded(func() { s.Parsed.Next(time.Unix(1_800_000_000, 0)) }); site != "" {
				post["sched"], post["site"] = false, site
			}
		}
	}
	if site := guarded(func() {
		st := model.NewStatus(d, nil, scheduler.StatusNone, 1, nil, nil)
		b, err := json.Marshal(st)
		if err != nil {
			post["serial"] = false
			return
		}
		if _, err := model.StatusFromJSON(string(b)); err != nil {
			post["serial"] = false
		}
	}); site != "" {
		post["serial"], post["site"] = false, site
	}
	if full {
		if site := guarded(func() {
			_ = dag.EvalConditions(d.Preconditions)
			for _, s := range d.Steps {
				_ = dag.EvalConditions(s.Preconditions)
			}
		}); site != "" {
			post["precond"], post["site"] = false, site
		}
		if site := guarded(func() { scheduler.NewExecutionGraph(quietLogger, d.Steps...) }); site != "" {
			post["graph"], post["site"] = false, site
		}
	}
	return post
}

// LoaderRecordsFor loads one document through every entry point.
func LoaderRecordsFor(id int, label, kind string, b []byte, dir string, emit func(Ev)) {
	file := filepath.Join(dir, fmt.Sprintf("m%d.yaml", id))
	os.WriteFile(file, b, 0o644)
	defer os.Remove(file)
	for _, e := range loaderEntries {
		var d *dag.DAG
		var err error
		site := guarded(func() { d, err = e.f(b, file) })
		rec := Ev{"kind": kind, "doc": id, "label": label, "entry": e.name, "outcome": "reject", "site": site, "post": Ev{}}
		switch {
		case site != "":
			rec["outcome"] = "panic"
		case err == nil && d != nil:
			rec["outcome"] = "accept"
			rec["post"] = postConditions(d, e.name != "LoadMetadata")
		case err == nil && d == nil:
			rec["outcome"] = "neither"
		}
		emit(rec)
	}
}

// LoaderSweep: single structural deviations (all), pairs (npairs sampled), byte mutations (nbytes sampled).
func LoaderSweep(seed int64, npairs, nbytes int, dir string, emit func(Ev)) (int, error) {
	var base any
	if err := yaml.Unmarshal([]byte(LoaderBaseDoc), &base); err != nil {
		return 0, err
	}
	var paths []docPath
	docWalk(base, nil, &paths)
	id := 0
	LoaderRecordsFor(id, "base", "base", []byte(LoaderBaseDoc), dir, emit)
	for _, p := range paths {
		if len(p) == 0 {
			continue
		}
		for ri := -1; ri < len(loaderShapes); ri++ {
			doc := docCopy(base)
			var lab string
			if ri < 0 {
				doc = docSet(doc, p, nil, true)
				lab = pathStr(p) + ":=<deleted>"
			} else {
				doc = docSet(doc, p, docCopy(loaderShapes[ri].v), false)
				lab = pathStr(p) + ":=" + loaderShapes[ri].name
			}
			b, err := yaml.Marshal(doc)
			if err != nil {
				continue
			}
			id++
			LoaderRecordsFor(id, lab, "single", b, dir, emit)
		}
	}
	rng := rand.New(rand.NewSource(seed))
	for i := 0; i < npairs; i++ {
		doc := docCopy(base)
		var labs []string
		for k := 0; k < 2; k++ {
			p := paths[1+rng.Intn(len(paths)-1)]
			if docGet(doc, p) == nil && rng.Intn(2) == 0 {
				continue
			}
			sh := loaderShapes[rng.Intn(len(loaderShapes))]
			doc = docSet(doc, p, docCopy(sh.v), false)
			labs = append(labs, pathStr(p)+":="+sh.name)
		}
		b, err := yaml.Marshal(doc)
		if err != nil {
			continue
		}
		id++
		LoaderRecordsFor(id, strings.Join(labs, " & "), "pair", b, dir, emit)
	}
	src := []byte(LoaderBaseDoc)
	for i := 0; i < nbytes; i++ {
		b := append([]byte{}, src...)
		switch rng.Intn(5) {
		case 0:
			b = b[:rng.Intn(len(b))]
		case 1:
			for k := 0; k < 1+rng.Intn(3); k++ {
				b[rng.Intn(len(b))] ^= 1 << uint(rng.Intn(8))
			}
		case 2:
			a := rng.Intn(len(b))
			e := a + rng.Intn(len(b)-a)
			b = append(b[:e:e], b[a:]...)
		case 3:
			a := rng.Intn(len(b))
			b = append(b[:a:a], append([]byte([]string{"- ", ": ", "\n  - ", "{", "[", "&a ", "*a ", "!!int ", "\t", "\x00", "|\n"}[rng.Intn(11)]), b[a:]...)...)
		case 4:
			a := rng.Intn(len(b))
			e := a + rng.Intn(min(40, len(b)-a))
			b = append(b[:a:a], b[e:]...)
		}
		id++
		LoaderRecordsFor(id, fmt.Sprintf("bytes#%d", i), "bytes", b, dir, emit)
	}
	return id + 1, nil
}

// ---- C19: canaries ------------------------------------------------------------------------------------

func envSnap() map[string]string {
	m := map[string]string{}
	for _, e := range os.Environ() {
		kv := strings.SplitN(e, "=", 2)
		m[kv[0]] = kv[1]
	}
	return m
}

func envDiff(a, b map[string]string) []string {
	d := []string{}
	for k, v := range b {
		if av, ok := a[k]; !ok || av != v {
			d = append(d, k)
		}
	}
	for k := range a {
		if _, ok := b[k]; !ok {
			d = append(d, "-"+k)
		}
	}
	sort.Strings(d)
	return d
}

// CanarySweep plants a command substitution and a variable reference in every string-valued leaf and
// watches every entry point.
func CanarySweep(dir string, emit func(Ev)) (int, error) {
	var base any
	if err := yaml.Unmarshal([]byte(LoaderBaseDoc), &base); err != nil {
		return 0, err
	}
	var paths []docPath
	docWalk(base, nil, &paths)
	dagsDir := filepath.Join(dir, "dags")
	os.MkdirAll(dagsDir, 0o755)
	ds := dsclient.NewDataStores(dagsDir, filepath.Join(dir, "data"), filepath.Join(dir, "susp"), dsclient.DataStoreOptions{})
	cli := client.New(ds, "/bin/false", dir, quietLogger)
	n := 0
	type entry struct {
		name string
		exec bool // an executing entry point (evaluation expected): vacuity control
		f    func(b []byte, file string)
	}
	entries := []entry{
		{"LoadYAML", false, func(b []byte, f string) { dag.LoadYAML(b) }},
		{"LoadMetadata", false, func(b []byte, f string) { dag.LoadMetadata(f) }},
		{"LoadWithoutEval", false, func(b []byte, f string) { dag.LoadWithoutEval(f) }},
		{"DAGStore.GetDetails", false, func(b []byte, f string) { ds.DAGStore().GetDetails("canary") }},
		{"DAGStore.GetMetadata", false, func(b []byte, f string) { ds.DAGStore().GetMetadata("canary") }},
		{"DAGStore.List", false, func(b []byte, f string) { ds.DAGStore().List() }},
		{"DAGStore.Grep", false, func(b []byte, f string) { ds.DAGStore().Grep("echo") }},
		{"DAGStore.UpdateSpec", false, func(b []byte, f string) { ds.DAGStore().UpdateSpec("canary", b) }},
		{"Client.GetStatus", false, func(b []byte, f string) { cli.GetStatus(f) }},
		{"Client.GetAllStatus", false, func(b []byte, f string) { cli.GetAllStatus() }},
		{"Daemon.initDags", false, func(b []byte, f string) {
			daemon.New(&config.Config{DAGs: dagsDir, WorkDir: dir, LogDir: filepath.Join(dir, "logs"), Executable: "/bin/false"}, quietLogger, cli)
		}},
		{"Daemon.watcher", false, func(b []byte, f string) {
			// the file appears (and is then saved again) while the daemon is running: picked up through the fsnotify watcher
			os.Remove(f)
			s := daemon.New(&config.Config{DAGs: dagsDir, WorkDir: dir, LogDir: filepath.Join(dir, "logs"), Executable: "/bin/false"}, quietLogger, cli)
			done := make(chan any)
			s.VerifStartWatcher(done)
			defer close(done)
			time.Sleep(20 * time.Millisecond)
			os.WriteFile(f, b, 0o644)
			dl := time.Now().Add(3 * time.Second)
			for time.Now().Before(dl) && !contains(s.VerifLoaded(), filepath.Base(f)) {
				time.Sleep(2 * time.Millisecond)
			}
			os.WriteFile(f, append(b, '\n'), 0o644)
			time.Sleep(30 * time.Millisecond)
		}},
		{"Load", true, func(b []byte, f string) { dag.Load("", f, "") }},
	}
	for _, p := range paths {
		if _, ok := docGet(base, p).(string); !ok {
			continue
		}
		for _, plant := range []string{"cmd", "var"} {
			canary := filepath.Join(dir, fmt.Sprintf("canary%d", n))
			val := "`touch " + canary + "`"
			if plant == "var" {
				val = "${VERIF_CANARY_REF}x"
			}
			doc := docSet(docCopy(base), p, val, false)
			b, _ := yaml.Marshal(doc)
			file := filepath.Join(dagsDir, "canary.yaml")
			for _, e := range entries {
				os.WriteFile(file, b, 0o644)
				os.Remove(canary)
				os.Setenv("VERIF_CANARY_REF", "ref")
				// what an executing load of another definition (start, restart, a sub-workflow's parent) has left in
				// this process: positional parameters beyond those of the definition that is looked at
				for i := 1; i <= 6; i++ {
					os.Setenv(fmt.Sprint(i), fmt.Sprintf("left-by-an-earlier-load-%d", i))
				}
				before := envSnap()
				site := guarded(func() { e.f(b, file) })
				after := envSnap()
				_, serr := os.Stat(canary)
				diff := envDiff(before, after)
				for _, k := range diff {
					if strings.HasPrefix(k, "-") {
						os.Setenv(k[1:], before[k[1:]])
					} else if bv, ok := before[k]; ok {
						os.Setenv(k, bv)
					} else {
						os.Unsetenv(k)
					}
				}
				emit(Ev{"kind": "canary", "field": pathStr(p), "plant": plant, "entry": e.name, "executing": e.exec,
					"fired": serr == nil, "env": diff, "site": site})
				n++
			}
			os.Remove(canary)
		}
	}
	return n, nil
}
