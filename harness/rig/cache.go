package rig

// C06, the status cache: schedules of FileCache.tla (TLC behaviours: which query does its staleness check, its parse,
// its store, when the recording process appends, when the manual update writes and invalidates) are replayed on the
// real jsondb + filecache through the gates of the verif build; what the code did at every gate and what every query
// returned is recorded and judged by FileCacheTrace.tla.

import (
	"bytes"
	"fmt"
	"os"
	"path/filepath"
	"runtime"
	"strconv"
	"sync"
	"time"

	"github.com/ErdemOzgen/blackdagger/internal/dag/scheduler"
	"github.com/ErdemOzgen/blackdagger/internal/persistence/filecache"
	"github.com/ErdemOzgen/blackdagger/internal/persistence/jsondb"
	"github.com/ErdemOzgen/blackdagger/internal/persistence/model"
)

type CacheStep struct {
	A string `json:"a"`
	R string `json:"r"`
}

type CacheScenario struct {
	Scen      int         `json:"scen"`
	Src       string      `json:"src"`
	Query     string      `json:"query"`     // recent | today
	Recording bool        `json:"recording"` // the run is still being recorded (appends) or finished (manual updates)
	Steps     []CacheStep `json:"steps"`
}

func goid() int64 {
	var buf [64]byte
	n := runtime.Stack(buf[:], false)
	f := bytes.Fields(buf[:n])
	id, _ := strconv.ParseInt(string(f[1]), 10, 64)
	return id
}

type cacheActor struct {
	arrive  chan string
	release chan struct{}
	done    chan cacheResult
	at      string // the gate the actor is parked at
}

type cacheResult struct {
	ret   int
	err   string
	panic string
}

var cacheMu sync.Mutex
var cacheActors = map[int64]*cacheActor{}

func cacheGate(point, file string) {
	cacheMu.Lock()
	a := cacheActors[goid()]
	cacheMu.Unlock()
	if a == nil {
		return
	}
	a.arrive <- point
	<-a.release
}

func startCacheActor(f func() cacheResult) *cacheActor {
	a := &cacheActor{arrive: make(chan string), release: make(chan struct{}), done: make(chan cacheResult, 1)}
	ready := make(chan struct{})
	go func() {
		id := goid()
		cacheMu.Lock()
		cacheActors[id] = a
		cacheMu.Unlock()
		close(ready)
		var res cacheResult
		func() {
			defer func() {
				if p := recover(); p != nil {
					res = cacheResult{ret: -1, panic: fmt.Sprint(p)}
				}
			}()
			res = f()
		}()
		cacheMu.Lock()
		delete(cacheActors, id)
		cacheMu.Unlock()
		a.done <- res
	}()
	<-ready
	return a
}

// wait for the actor's next gate ("" and a result when it returned instead)
func (a *cacheActor) next() (string, *cacheResult, error) {
	select {
	case p := <-a.arrive:
		return p, nil, nil
	case r := <-a.done:
		return "", &r, nil
	case <-time.After(20 * time.Second):
		return "", nil, fmt.Errorf("actor neither reached a gate nor returned within 20 s")
	}
}

func verOf(st *model.Status) int {
	if st == nil || len(st.Params) < 2 {
		return -1
	}
	n, err := strconv.Atoi(st.Params[1:])
	if err != nil {
		return -1
	}
	return n
}

func RunCache(sc CacheScenario, base string, emit func(Ev)) error {
	dir := filepath.Join(base, fmt.Sprintf("cache%d", sc.Scen))
	os.MkdirAll(dir, 0o755)
	defer os.RemoveAll(dir)
	filecache.VerifHook = cacheGate
	server := jsondb.New(dir, false) // the process whose queries go through the cache
	agent := jsondb.New(dir, false)  // the process recording the run
	const dagFile = "/dags/cache.yaml"
	req := fullReq("c1")
	status := func(v int) *model.Status {
		return &model.Status{RequestID: req, Name: "cache", Status: scheduler.StatusRunning, Params: "v" + strconv.Itoa(v)}
	}
	emit(Ev{"ev": "Reset", "scen": sc.Scen, "src": sc.Src, "query": sc.Query, "recording": sc.Recording})
	infra := func(err error) error {
		emit(Ev{"ev": "Infra", "scen": sc.Scen, "err": err.Error()})
		return err
	}
	if err := agent.Open(dagFile, time.Now(), req); err != nil {
		return infra(err)
	}
	defer agent.Close()
	ver := 0
	if err := agent.Write(status(0)); err != nil {
		return infra(err)
	}
	if !sc.Recording {
		// the run is over: its file is compacted, from now on only manual updates change it
		if err := agent.Close(); err != nil {
			return infra(err)
		}
	}
	query := func() cacheResult {
		if sc.Query == "today" {
			st, err := server.ReadStatusToday(dagFile)
			if err != nil {
				return cacheResult{ret: -1, err: err.Error()}
			}
			return cacheResult{ret: verOf(st)}
		}
		l := server.ReadStatusRecent(dagFile, 1)
		if len(l) != 1 {
			return cacheResult{ret: -1, err: fmt.Sprintf("%d entries", len(l))}
		}
		return cacheResult{ret: verOf(l[0].Status)}
	}
	readers := map[string]*cacheActor{}
	began := map[string]int{}
	var updater *cacheActor
	finish := func(r string, res *cacheResult, a string) {
		delete(readers, r)
		emit(Ev{"ev": "Step", "scen": sc.Scen, "a": a, "r": r, "ver": ver, "began": began[r], "ret": res.ret, "err": res.err, "panic": res.panic})
	}
	// advance reader r by one gate and record what the code did
	advance := func(r string) error {
		a := readers[r]
		if a == nil {
			return nil // the query has already returned (the code took a shorter path than the schedule): nothing to do
		}
		a.release <- struct{}{}
		p, res, err := a.next()
		if err != nil {
			return err
		}
		if res != nil {
			// returned: from the "checked" gate that is a hit, from the "loaded" gate a store
			if a.at == "loaded" {
				finish(r, res, "store")
			} else {
				finish(r, res, "hit")
			}
			return nil
		}
		if p != "loaded" {
			return fmt.Errorf("reader at unexpected gate %q", p)
		}
		a.at = "loaded"
		emit(Ev{"ev": "Step", "scen": sc.Scen, "a": "load", "r": r, "ver": ver, "began": began[r], "ret": -1, "err": "", "panic": ""})
		return nil
	}
	for _, st := range sc.Steps {
		switch st.A {
		case "check":
			if readers[st.R] != nil {
				continue
			}
			a := startCacheActor(query)
			p, res, err := a.next()
			if err != nil {
				return infra(err)
			}
			began[st.R] = ver
			if res != nil {
				return infra(fmt.Errorf("query returned without passing the staleness check: %+v", *res))
			}
			if p != "checked" {
				return infra(fmt.Errorf("reader at unexpected gate %q", p))
			}
			a.at = "checked"
			readers[st.R] = a
			emit(Ev{"ev": "Step", "scen": sc.Scen, "a": "check", "r": st.R, "ver": ver, "began": ver, "ret": -1, "err": "", "panic": ""})
		case "load", "store", "hit":
			if err := advance(st.R); err != nil {
				return infra(err)
			}
		case "append":
			if !sc.Recording {
				continue
			}
			ver++
			if err := agent.Write(status(ver)); err != nil {
				return infra(err)
			}
			emit(Ev{"ev": "Step", "scen": sc.Scen, "a": "append", "r": "", "ver": ver, "began": -1, "ret": -1, "err": "", "panic": ""})
		case "uwrite":
			if updater != nil || sc.Recording {
				continue
			}
			v := ver + 1
			updater = startCacheActor(func() cacheResult {
				if err := server.Update(dagFile, req, status(v)); err != nil {
					return cacheResult{ret: -1, err: err.Error()}
				}
				return cacheResult{}
			})
			p, res, err := updater.next()
			if err != nil {
				return infra(err)
			}
			if res != nil || p != "invalidate" {
				return infra(fmt.Errorf("update did not reach the invalidation: gate %q result %+v", p, res))
			}
			ver = v
			emit(Ev{"ev": "Step", "scen": sc.Scen, "a": "uwrite", "r": "", "ver": ver, "began": -1, "ret": -1, "err": "", "panic": ""})
		case "uinval":
			if updater == nil {
				continue
			}
			updater.release <- struct{}{}
			_, res, err := updater.next()
			if err != nil {
				return infra(err)
			}
			if res == nil || res.err != "" {
				return infra(fmt.Errorf("update failed: %+v", res))
			}
			updater = nil
			emit(Ev{"ev": "Step", "scen": sc.Scen, "a": "uinval", "r": "", "ver": ver, "began": -1, "ret": -1, "err": "", "panic": ""})
		}
	}
	// drain: whatever the schedule left in flight runs to its end
	if updater != nil {
		updater.release <- struct{}{}
		if _, _, err := updater.next(); err != nil {
			return infra(err)
		}
		emit(Ev{"ev": "Step", "scen": sc.Scen, "a": "uinval", "r": "", "ver": ver, "began": -1, "ret": -1, "err": "", "panic": ""})
	}
	for _, r := range []string{"q1", "q2", "q3", "q4"} {
		for readers[r] != nil {
			if err := advance(r); err != nil {
				return infra(err)
			}
		}
	}
	// the writers are quiet and no query is in flight: two more queries, ungated, must return the last status
	filecache.VerifHook = nil
	for i := 0; i < 2; i++ {
		res := query()
		emit(Ev{"ev": "Quiet", "scen": sc.Scen, "ver": ver, "ret": res.ret, "err": res.err})
	}
	return nil
}

// ---- C06: a query while the recorder ends a run and begins the next (HistoryConc.tla) -------------------------------

type ConcScenario struct {
	Scen  int         `json:"scen"`
	Src   string      `json:"src"`
	Query string      `json:"query"` // today (latest status) | recent | find (lookup of the run being closed)
	N     int         `json:"n"`
	Steps []CacheStep `json:"steps"`
}

// kindOf: which of the model's files a history file is: run number (from the request id r<k>) and copy
func concFile(path string) (int, string) {
	b := filepath.Base(path)
	kind := "orig"
	if len(b) > 6 && b[len(b)-6:] == "_c.dat" {
		kind = "comp"
	}
	run := 0
	for i := 0; i+1 < len(b); i++ {
		if b[i] == '.' && b[i+1] == 'k' && i+2 < len(b) && b[i+2] >= '1' && b[i+2] <= '9' {
			run = int(b[i+2] - '0')
		}
	}
	return run, kind
}

type concArrive struct {
	point, file string
}

func RunConc(sc ConcScenario, base string, emit func(Ev)) error {
	dir := filepath.Join(base, fmt.Sprintf("conc%d", sc.Scen))
	os.MkdirAll(dir, 0o755)
	defer os.RemoveAll(dir)
	filecache.VerifHook = nil
	var mu sync.Mutex
	actors := map[int64]chan concArrive{}
	releases := map[int64]chan struct{}{}
	jsondb.VerifHook = func(point, file string) {
		id := goid()
		mu.Lock()
		a, r := actors[id], releases[id]
		mu.Unlock()
		if a == nil {
			return
		}
		a <- concArrive{point, file}
		<-r
	}
	defer func() { jsondb.VerifHook = nil }()
	const dagFile = "/dags/conc.yaml"
	status := func(run int) *model.Status {
		return &model.Status{RequestID: fullReq(fmt.Sprintf("k%d", run)), Name: "conc", Status: scheduler.StatusRunning, Params: "v" + strconv.Itoa(run)}
	}
	emit(Ev{"ev": "Reset", "scen": sc.Scen, "src": sc.Src, "query": sc.Query, "n": sc.N})
	infra := func(err error) error {
		emit(Ev{"ev": "Infra", "scen": sc.Scen, "err": err.Error()})
		return err
	}
	t0 := time.Now().Add(-time.Minute)
	// run 1: completed (compacted); run 2: open, one status
	rec1 := jsondb.New(dir, false)
	if err := rec1.Open(dagFile, t0, status(1).RequestID); err != nil {
		return infra(err)
	}
	rec1.Write(status(1))
	if err := rec1.Close(); err != nil {
		return infra(err)
	}
	rec2 := jsondb.New(dir, false)
	if err := rec2.Open(dagFile, t0.Add(time.Second), status(2).RequestID); err != nil {
		return infra(err)
	}
	rec2.Write(status(2))
	rec3 := jsondb.New(dir, false)
	server := jsondb.New(dir, false)

	type actor struct {
		arrive  chan concArrive
		release chan struct{}
		done    chan []int
	}
	start := func(f func() []int) *actor {
		a := &actor{arrive: make(chan concArrive), release: make(chan struct{}), done: make(chan []int, 1)}
		ready := make(chan struct{})
		go func() {
			id := goid()
			mu.Lock()
			actors[id], releases[id] = a.arrive, a.release
			mu.Unlock()
			close(ready)
			res := f()
			mu.Lock()
			delete(actors, id)
			delete(releases, id)
			mu.Unlock()
			a.done <- res
		}()
		<-ready
		return a
	}
	next := func(a *actor) (*concArrive, []int, bool, error) {
		select {
		case p := <-a.arrive:
			return &p, nil, false, nil
		case r := <-a.done:
			return nil, r, true, nil
		case <-time.After(20 * time.Second):
			return nil, nil, false, fmt.Errorf("actor neither reached a gate nor returned within 20 s")
		}
	}
	query := func() []int {
		if sc.Query == "today" {
			st, err := server.ReadStatusToday(dagFile)
			if err != nil || st == nil {
				return []int{}
			}
			return []int{verOf(st)}
		}
		if sc.Query == "find" {
			// the lookup of the run that is being closed
			sf, err := server.FindByRequestID(dagFile, status(2).RequestID)
			if err != nil || sf == nil {
				return []int{}
			}
			return []int{verOf(sf.Status)}
		}
		out := []int{}
		for _, sf := range server.ReadStatusRecent(dagFile, sc.N) {
			out = append(out, verOf(sf.Status))
		}
		return out
	}
	var q, rec *actor
	qParked := false // parked at a "visit" gate
	step := func(a string, extra Ev) {
		e := Ev{"ev": "Step", "scen": sc.Scen, "a": a, "run": 0, "kind": "", "answer": []int{}, "ok": true}
		for k, v := range extra {
			e[k] = v
		}
		emit(e)
	}
	// after a release of the query: what it does next
	advanceQuery := func() error {
		for {
			p, res, done, err := next(q)
			if err != nil {
				return err
			}
			if done {
				step("return", Ev{"answer": res})
				q, qParked = nil, false
				return nil
			}
			if p.point == "listed" {
				// a new listing in the middle of the query
				step("relist", nil)
				q.release <- struct{}{}
				continue
			}
			if p.point == "visit" {
				qParked = true
				return nil
			}
			return fmt.Errorf("query at unexpected gate %q", p.point)
		}
	}
	var parkedFile string
	var updDone chan error
	pollUpdate := func(d time.Duration) {
		if updDone == nil {
			return
		}
		select {
		case err := <-updDone:
			updDone = nil
			step("update", Ev{"ok": err == nil})
		case <-time.After(d):
		}
	}
	for _, st := range sc.Steps {
		if st.A != "update" {
			pollUpdate(0)
		}
		if st.A == "findafter" {
			pollUpdate(10 * time.Second)
		}
		switch st.A {
		case "list":
			if q != nil {
				continue
			}
			q = start(query)
			p, res, done, err := next(q)
			if err != nil {
				return infra(err)
			}
			if done {
				step("list", nil)
				step("return", Ev{"answer": res})
				q = nil
				continue
			}
			if p.point != "listed" {
				return infra(fmt.Errorf("query at unexpected gate %q", p.point))
			}
			step("list", nil)
			q.release <- struct{}{}
			p2, res, done, err := next(q)
			if err != nil {
				return infra(err)
			}
			if done {
				step("return", Ev{"answer": res})
				q = nil
				continue
			}
			qParked, parkedFile = true, p2.file
		case "visit":
			if q == nil || !qParked {
				continue
			}
			run, kind := concFile(parkedFile)
			// the visit itself (stat + parse) happens when the gate is released
			q.release <- struct{}{}
			qParked = false
			p, res, done, err := next(q)
			if err != nil {
				return infra(err)
			}
			if done {
				step("visit", Ev{"run": run, "kind": kind})
				step("return", Ev{"answer": res})
				q = nil
				continue
			}
			if p.point == "listed" {
				step("relist", Ev{"run": run, "kind": kind})
				q.release <- struct{}{}
				p2, res, done, err := next(q)
				if err != nil {
					return infra(err)
				}
				if done {
					step("return", Ev{"answer": res})
					q = nil
					continue
				}
				qParked, parkedFile = true, p2.file
				continue
			}
			step("visit", Ev{"run": run, "kind": kind})
			qParked, parkedFile = true, p.file
		case "return":
			// the code returns by itself after its last visit
		case "ccreate":
			if rec != nil {
				continue
			}
			rec = start(func() []int { rec2.Close(); return nil })
			p, _, done, err := next(rec)
			if err != nil || done || p.point != "compact.created" {
				return infra(fmt.Errorf("compaction did not reach its first gate: %v %v", p, err))
			}
			step("ccreate", nil)
		case "cwrite":
			if rec == nil {
				continue
			}
			rec.release <- struct{}{}
			p, _, done, err := next(rec)
			if err != nil || done || p.point != "compact.written" {
				return infra(fmt.Errorf("compaction did not reach its second gate: %v %v", p, err))
			}
			step("cwrite", nil)
		case "cunlink":
			if rec == nil {
				continue
			}
			rec.release <- struct{}{}
			_, _, done, err := next(rec)
			if err != nil || !done {
				return infra(fmt.Errorf("compaction did not end: %v", err))
			}
			rec = nil
			step("cunlink", nil)
			pollUpdate(2 * time.Second)
		case "update":
			// a manual status update of the run that is being closed (the run's socket already reports a final status, so the
			// API lets it through); the whole operation, not gated
			upd := status(2)
			upd.Params = "v9"
			updDone = make(chan error, 1)
			go func() { updDone <- server.Update(dagFile, status(2).RequestID, upd) }()
			// it may have to wait for the compaction (the lock of the fix of F-06h): it is recorded when it returns
			pollUpdate(300 * time.Millisecond)
		case "findafter":
			sf, err := server.FindByRequestID(dagFile, status(2).RequestID)
			ans := []int{}
			if err == nil && sf != nil {
				ans = []int{verOf(sf.Status)}
			}
			step("findafter", Ev{"answer": ans})
		case "open2":
			if err := rec3.Open(dagFile, t0.Add(2*time.Second), status(3).RequestID); err != nil {
				return infra(err)
			}
			step("open2", nil)
		case "write2":
			if err := rec3.Write(status(3)); err != nil {
				return infra(err)
			}
			step("write2", nil)
		}
	}
	// drain
	_ = advanceQuery
	for q != nil && qParked {
		run, kind := concFile(parkedFile)
		q.release <- struct{}{}
		qParked = false
		p, res, done, err := next(q)
		if err != nil {
			return infra(err)
		}
		if done {
			step("visit", Ev{"run": run, "kind": kind})
			step("return", Ev{"answer": res})
			q = nil
			break
		}
		if p.point == "listed" {
			step("relist", Ev{"run": run, "kind": kind})
			q.release <- struct{}{}
			p2, res, done, err := next(q)
			if err != nil {
				return infra(err)
			}
			if done {
				step("return", Ev{"answer": res})
				q = nil
				break
			}
			qParked, parkedFile = true, p2.file
			continue
		}
		step("visit", Ev{"run": run, "kind": kind})
		qParked, parkedFile = true, p.file
	}
	if rec != nil {
		// let the compaction finish (not recorded: the query has returned)
		for {
			rec.release <- struct{}{}
			_, _, done, err := next(rec)
			if err != nil {
				return infra(err)
			}
			if done {
				break
			}
		}
	}
	rec3.Close()
	return nil
}
