package rig

// C06, the status cache: schedules of FileCache.tla (TLC behaviours: which query does its staleness check, its parse,
// its store, when the recording process appends, when the manual update writes and invalidates) are replayed on the
// real jsondb + filecache through the gates of the verif build; what the code did at every gate and what every query
// returned is recorded and judged by FileCacheTrace.tla.

import (
	"bytes"
	"fmt"
	"os"
	"path/filepath"
	"runtime"
	"strconv"
	"sync"
	"time"

	"github.com/ErdemOzgen/blackdagger/internal/dag/scheduler"
	"github.com/ErdemOzgen/blackdagger/internal/persistence/filecache"
	"github.com/ErdemOzgen/blackdagger/internal/persistence/jsondb"
	"github.com/ErdemOzgen/blackdagger/internal/persistence/model"
)

type CacheStep struct {
	A string `json:"a"`
	R string `json:"r"`
}

type CacheScenario struct {
	Scen      int         `json:"scen"`
	Src       string      `json:"src"`
	Query     string      `json:"query"`     // recent | today
	Recording bool        `json:"recording"` // the run is still being recorded (appends) or finished (manual updates)
	Steps     []CacheStep `json:"steps"`
}

func goid() int64 {
	var buf [64]byte
	n := runtime.Stack(buf[:], false)
	f := bytes.Fields(buf[:n])
	id, _ := strconv.ParseInt(string(f[1]), 10, 64)
	return id
}

type cacheActor struct {
	arrive  chan string
	release chan struct{}
	done    chan cacheResult
	at      string // the gate the actor is parked at
}

type cacheResult struct {
	ret   int
	err   string
	panic string
}

var cacheMu sync.Mutex
var cacheActors = map[int64]*cacheActor{}

func cacheGate(point, file string) {
	cacheMu.Lock()
	a := cacheActors[goid()]
	cacheMu.Unlock()
	if a == nil {
		return
	}
	a.arrive <- point
	<-a.release
}

func startCacheActor(f func() cacheResult) *cacheActor {
	a := &cacheActor{arrive: make(chan string), release: make(chan struct{}), done: make(chan cacheResult, 1)}
	ready := make(chan struct{})
	go func() {
		id := goid()
		cacheMu.Lock()
		cacheActors[id] = a
		cacheMu.Unlock()
		close(ready)
		var res cacheResult
		func() {
			defer func() {
				if p := recover(); p != nil {
					res = cacheResult{ret: -1, panic: fmt.Sprint(p)}
				}
			}()
			res = f()
		}()
		cacheMu.Lock()
		delete(cacheActors, id)
		cacheMu.Unlock()
		a.done <- res
	}()
	<-ready
	return a
}

// wait for the actor's next gate ("" and a result when it returned instead)
func (a *cacheActor) next() (string, *cacheResult, error) {
	select {
	case p := <-a.arrive:
		return p, nil, nil
	case r := <-a.done:
		return "", &r, nil
	case <-time.After(20 * time.Second):
		return "", nil, fmt.Errorf("actor neither reached a gate nor returned within 20 s")
	}
}

func verOf(st *model.Status) int {
	if st == nil || len(st.Params) < 2 {
		return -1
	}
	n, err := strconv.Atoi(st.Params[1:])
	if err != nil {
		return -1
	}
	return n
}

func RunCache(sc CacheScenario, base string, emit func(Ev)) error {
	dir := filepath.Join(base, fmt.Sprintf("cache%d", sc.Scen))
	os.MkdirAll(dir, 0o755)
	defer os.RemoveAll(dir)
	filecache.VerifHook = cacheGate
	server := jsondb.New(dir, false) // the process whose queries go through the cache
	agent := jsondb.New(dir, false)  // the process recording the run
	const dagFile = "/dags/cache.yaml"
	req := fullReq("c1")
	status := func(v int) *model.Status {
		return &model.Status{RequestID: req, Name: "cache", Status: scheduler.StatusRunning, Params: "v" + strconv.Itoa(v)}
	}
	emit(Ev{"ev": "Reset", "scen": sc.Scen, "src": sc.Src, "query": sc.Query, "recording": sc.Recording})
	infra := func(err error) error {
		emit(Ev{"ev": "Infra", "scen": sc.Scen, "err": err.Error()})
		return err
	}
	if err := agent.Open(dagFile, time.Now(), req); err != nil {
		return infra(err)
	}
	defer agent.Close()
	ver := 0
	if err := agent.Write(status(0)); err != nil {
		return infra(err)
	}
	if !sc.Recording {
		// the run is over: its file is compacted, from now on only manual updates change it
		if err := agent.Close(); err != nil {
			return infra(err)
		}
	}
	query := func() cacheResult {
		if sc.Query == "today" {
			st, err := server.ReadStatusToday(dagFile)
			if err != nil {
				return cacheResult{ret: -1, err: err.Error()}
			}
			return cacheResult{ret: verOf(st)}
		}
		l := server.ReadStatusRecent(dagFile, 1)
		if len(l) != 1 {
			return cacheResult{ret: -1, err: fmt.Sprintf("%d entries", len(l))}
		}
		return cacheResult{ret: verOf(l[0].Status)}
	}
	readers := map[string]*cacheActor{}
	began := map[string]int{}
	var updater *cacheActor
	finish := func(r string, res *cacheResult, a string) {
		delete(readers, r)
		emit(Ev{"ev": "Step", "scen": sc.Scen, "a": a, "r": r, "ver": ver, "began": began[r], "ret": res.ret, "err": res.err, "panic": res.panic})
	}
	// advance reader r by one gate and record what the code did
	advance := func(r string) error {
		a := readers[r]
		if a == nil {
			return nil // the query has already returned (the code took a shorter path than the schedule): nothing to do
		}
		a.release <- struct{}{}
		p, res, err := a.next()
		if err != nil {
			return err
		}
		if res != nil {
			// returned: from the "checked" gate that is a hit, from the "loaded" gate a store
			if a.at == "loaded" {
				finish(r, res, "store")
			} else {
				finish(r, res, "hit")
			}
			return nil
		}
		if p != "loaded" {
			return fmt.Errorf("reader at unexpected gate %q", p)
		}
		a.at = "loaded"
		emit(Ev{"ev": "Step", "scen": sc.Scen, "a": "load", "r": r, "ver": ver, "began": began[r], "ret": -1, "err": "", "panic": ""})
		return nil
	}
	for _, st := range sc.Steps {
		switch st.A {
		case "check":
			if readers[st.R] != nil {
				continue
			}
			a := startCacheActor(query)
			p, res, err := a.next()
			if err != nil {
				return infra(err)
			}
			began[st.R] = ver
			if res != nil {
				return infra(fmt.Errorf("query returned without passing the staleness check: %+v", *res))
			}
			if p != "checked" {
				return infra(fmt.Errorf("reader at unexpected gate %q", p))
			}
			a.at = "checked"
			readers[st.R] = a
			emit(Ev{"ev": "Step", "scen": sc.Scen, "a": "check", "r": st.R, "ver": ver, "began": ver, "ret": -1, "err": "", "panic": ""})
		case "load", "store", "hit":
			if err := advance(st.R); err != nil {
				return infra(err)
			}
		case "append":
			if !sc.Recording {
				continue
			}
			ver++
			if err := agent.Write(status(ver)); err != nil {
				return infra(err)
			}
			emit(Ev{"ev": "Step", "scen": sc.Scen, "a": "append", "r": "", "ver": ver, "began": -1, "ret": -1, "err": "", "panic": ""})
		case "uwrite":
			if updater != nil || sc.Recording {
				continue
			}
			v := ver + 1
			updater = startCacheActor(func() cacheResult {
				if err := server.Update(dagFile, req, status(v)); err != nil {
					return cacheResult{ret: -1, err: err.Error()}
				}
				return cacheResult{}
			})
			p, res, err := updater.next()
			if err != nil {
				return infra(err)
			}
			if res != nil || p != "invalidate" {
				return infra(fmt.Errorf("update did not reach the invalidation: gate %q result %+v", p, res))
			}
			ver = v
			emit(Ev{"ev": "Step", "scen": sc.Scen, "a": "uwrite", "r": "", "ver": ver, "began": -1, "ret": -1, "err": "", "panic": ""})
		case "uinval":
			if updater == nil {
				continue
			}
			updater.release <- struct{}{}
			_, res, err := updater.next()
			if err != nil {
				return infra(err)
			}
			if res == nil || res.err != "" {
				return infra(fmt.Errorf("update failed: %+v", res))
			}
			updater = nil
			emit(Ev{"ev": "Step", "scen": sc.Scen, "a": "uinval", "r": "", "ver": ver, "began": -1, "ret": -1, "err": "", "panic": ""})
		}
	}
	// drain: whatever the schedule left in flight runs to its end
	if updater != nil {
		updater.release <- struct{}{}
		if _, _, err := updater.next(); err != nil {
			return infra(err)
		}
		emit(Ev{"ev": "Step", "scen": sc.Scen, "a": "uinval", "r": "", "ver": ver, "began": -1, "ret": -1, "err": "", "panic": ""})
	}
	for _, r := range []string{"q1", "q2", "q3", "q4"} {
		for readers[r] != nil {
			if err := advance(r); err != nil {
				return infra(err)
			}
		}
	}
	// the writers are quiet and no query is in flight: two more queries, ungated, must return the last status
	filecache.VerifHook = nil
	for i := 0; i < 2; i++ {
		res := query()
		emit(Ev{"ev": "Quiet", "scen": sc.Scen, "ver": ver, "ret": res.ret, "err": res.err})
	}
	return nil
}
