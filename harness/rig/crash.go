package rig

// Crash rig (C07): the history operations of a scenario are split into a prior part (executed normally)
// and a crash part that a child process (vh histdrv) executes under the ptrace supervisor; the child is
// SIGKILLed at the entry of the k-th mutating system call under the data directory (optionally after a
// torn write). A fresh process (vh histq) then asks the real queries on what survived.
// spec/CrashObserve.tla judges each record.

import (
	"encoding/json"
	"fmt"
	"os"
	"os/exec"
	"path/filepath"
	"strings"
	"time"

	"github.com/ErdemOzgen/blackdagger/internal/dag/scheduler"
	dsclient "github.com/ErdemOzgen/blackdagger/internal/persistence/client"
	"github.com/ErdemOzgen/blackdagger/internal/persistence/jsondb"
	"github.com/ErdemOzgen/blackdagger/internal/persistence/model"
)

func histFile(names string, d string) string {
	i := int(d[1] - '1')
	return filepath.Join("/dags", HistNames[names][i]+".yaml")
}

func histMidnight() time.Time {
	day0 := time.Now().UTC()
	return time.Date(day0.Year(), day0.Month(), day0.Day(), 0, 0, 0, 0, time.UTC)
}

// ExecHistOps executes ops[from:to] on the store in dir; after each completed operation its index is
// appended to ackFile (if given).
func ExecHistOps(dir, names string, todayOnly bool, ops []HistOp, from, to int, ackFile string) error {
	db := jsondb.New(dir, todayOnly)
	midnight := histMidnight()
	var ack *os.File
	if ackFile != "" {
		var err error
		ack, err = os.OpenFile(ackFile, os.O_CREATE|os.O_WRONLY|os.O_APPEND, 0o644)
		if err != nil {
			return err
		}
		defer ack.Close()
	}
	cur := ""
	for i := 0; i < to && i < len(ops); i++ {
		op := ops[i]
		if op.Op == "Open" {
			cur = op.R
		}
		if i < from {
			continue
		}
		var err error
		switch op.Op {
		case "Open":
			err = db.Open(histFile(names, op.D), midnight.Add(histStampOff[op.Ts]), fullReq(op.R))
		case "Write":
			err = db.Write(&model.Status{RequestID: fullReq(cur), Name: "x", Status: scheduler.StatusRunning, Params: op.St})
		case "Close":
			err = db.Close()
		case "Update":
			err = db.Update(histFile(names, op.D), fullReq(op.R), histStatus(op.D, op.R, op.St))
		case "Rename":
			err = db.Rename(histFile(names, op.D), histFile(names, op.To))
		case "RemoveOld":
			err = db.RemoveOld(histFile(names, op.D), op.Days)
		case "RemoveAll":
			err = db.RemoveAll(histFile(names, op.D))
		case "SetAge":
			filepath.Walk(dir, func(p string, info os.FileInfo, werr error) error {
				if werr == nil && !info.IsDir() && strings.Contains(filepath.Base(p), "."+fullReq(op.R)[:8]) {
					t := time.Now().Add(-time.Duration(op.Age)*24*time.Hour - time.Hour)
					os.Chtimes(p, t, t)
				}
				return nil
			})
		}
		_ = err
		if ack != nil {
			fmt.Fprintf(ack, "%d\n", i+1)
		}
	}
	return nil
}

// HistAnswers asks every query on the store in dir (to be called in a fresh process).
func HistAnswers(dir, names string, todayOnly bool, reqs []string) Ev {
	db := jsondb.New(dir, todayOnly)
	ans := Ev{}
	for _, d := range []string{"d1", "d2", "d3"} {
		a := Ev{}
		find := Ev{}
		for _, r := range reqs {
			sf, ferr := db.FindByRequestID(histFile(names, d), fullReq(r))
			if ferr != nil || sf == nil || sf.Status == nil {
				find[r] = "notfound"
			} else {
				find[r] = sf.Status.Params
			}
		}
		a["find"] = find
		st, lerr := db.ReadStatusToday(histFile(names, d))
		switch {
		case lerr != nil && st == nil && strings.Contains(lerr.Error(), "no status data"):
			a["latest"] = "nodata"
		case lerr != nil:
			a["latest"] = "error:" + lerr.Error()
		default:
			a["latest"] = st.Params
		}
		for _, n := range []int{1, 2, 9} {
			lst := []string{}
			for _, sf := range db.ReadStatusRecent(histFile(names, d), n) {
				lst = append(lst, sf.Status.Params)
			}
			a[fmt.Sprintf("recent%d", n)] = lst
		}
		ans[d] = a
	}
	return ans
}

type CrashScenario struct {
	Scen      int      `json:"scen"`
	Names     string   `json:"names"`
	TodayOnly bool     `json:"todayOnly"`
	Ops       []HistOp `json:"ops"`
	NPrior    int      `json:"nprior"`
	Label     string   `json:"label"`
	// After: operations a fresh process performs on the store that survived the kill (a manual update of the interrupted
	// run, a new run): the store must go on recording, and the queries are asked a second time
	After []HistOp `json:"after"`
}

// CrashSweep kills the crash part of the scenario at every relevant system call (and at torn prefixes of
// every write) and records what the queries answer afterwards. every: use only every n-th kill point.
func CrashSweep(self string, sc CrashScenario, base string, every int, emit func(Ev)) error {
	opsFile := filepath.Join(base, fmt.Sprintf("ops%d.json", sc.Scen))
	b, _ := json.Marshal(sc)
	os.WriteFile(opsFile, b, 0o644)
	defer os.Remove(opsFile)
	reqs := []string{"r0"}
	for _, o := range sc.Ops {
		if o.Op == "Open" {
			reqs = append(reqs, o.R)
		}
	}
	afterFile := filepath.Join(base, fmt.Sprintf("after%d.json", sc.Scen))
	defer os.Remove(afterFile)
	reqs2 := append([]string{}, reqs...)
	prep := func(tag string) (string, string, error) {
		dir := filepath.Join(base, fmt.Sprintf("crash%d-%s", sc.Scen, tag), "data")
		os.RemoveAll(filepath.Dir(dir))
		if err := os.MkdirAll(dir, 0o755); err != nil {
			return "", "", err
		}
		if err := ExecHistOps(dir, sc.Names, sc.TodayOnly, sc.Ops, 0, sc.NPrior, ""); err != nil {
			return "", "", err
		}
		return dir, filepath.Join(filepath.Dir(dir), "acks"), nil
	}
	drv := func(dir, ack string) []string {
		return []string{self, "histdrv", "-dir", dir, "-scen", opsFile, "-ack", ack}
	}
	env := append(os.Environ(), "TZ=UTC")
	// listing run
	dir, ack, err := prep("list")
	if err != nil {
		return err
	}
	devnull, _ := os.OpenFile(os.DevNull, os.O_WRONLY, 0)
	defer devnull.Close()
	lst, err := Supervise(drv(dir, ack), env, dir, 0, -1, devnull)
	os.RemoveAll(filepath.Dir(dir))
	if err != nil {
		return err
	}
	type point struct{ k, tear int }
	var points []point
	for _, c := range lst.Calls {
		if (c.N-1)%every != 0 && c.Name != "write" {
			continue
		}
		points = append(points, point{c.N, -1})
		if c.Name == "write" && c.Len > 2 {
			points = append(points, point{c.N, 1}, point{c.N, c.Len / 2}, point{c.N, c.Len - 1})
		}
	}
	points = append(points, point{len(lst.Calls) + 1, -1}) // not killed at all: the operation completes
	for _, p := range points {
		tag := fmt.Sprintf("k%d-t%d", p.k, p.tear)
		dir, ack, err := prep(tag)
		if err != nil {
			return err
		}
		killAt := p.k
		if p.k > len(lst.Calls) {
			killAt = 0
		}
		res, err := Supervise(drv(dir, ack), env, dir, killAt, p.tear, devnull)
		if err != nil {
			os.RemoveAll(filepath.Dir(dir))
			return fmt.Errorf("scenario %d point %v: %w", sc.Scen, p, err)
		}
		nack := sc.NPrior
		if ab, err := os.ReadFile(ack); err == nil {
			for _, l := range strings.Fields(string(ab)) {
				var v int
				fmt.Sscanf(l, "%d", &v)
				if v > nack {
					nack = v
				}
			}
		}
		// the queries run in a fresh process
		out, qerr := exec.Command(self, "histq", "-dir", dir, "-names", sc.Names, "-today", fmt.Sprint(sc.TodayOnly), "-reqs", strings.Join(reqs, ",")).Output()
		var ans Ev
		if qerr != nil || json.Unmarshal(out, &ans) != nil {
			os.RemoveAll(filepath.Dir(dir))
			return fmt.Errorf("query process failed: %v %s", qerr, string(out))
		}
		var ans2 Ev = Ev{}
		after := sc.After
		if after == nil {
			after = []HistOp{}
		}
		if len(after) > 0 {
			ab, _ := json.Marshal(CrashScenario{Scen: sc.Scen, Names: sc.Names, TodayOnly: sc.TodayOnly, Ops: after})
			os.WriteFile(afterFile, ab, 0o644)
			exec.Command(self, "histdrv", "-dir", dir, "-scen", afterFile).Run()
			for _, o := range after {
				if o.Op == "Open" {
					reqs2 = appendNew(reqs2, o.R)
				}
			}
			out2, qerr := exec.Command(self, "histq", "-dir", dir, "-names", sc.Names, "-today", fmt.Sprint(sc.TodayOnly), "-reqs", strings.Join(reqs2, ",")).Output()
			if qerr != nil || json.Unmarshal(out2, &ans2) != nil {
				os.RemoveAll(filepath.Dir(dir))
				return fmt.Errorf("second query process failed: %v %s", qerr, string(out2))
			}
		}
		files := []string{}
		filepath.Walk(dir, func(pth string, info os.FileInfo, err error) error {
			if err == nil && !info.IsDir() {
				files = append(files, fmt.Sprintf("%s:%d", filepath.Base(pth), info.Size()))
			}
			return nil
		})
		latestErr, recentDup, emptyFile := false, false, false
		for _, f := range files {
			if strings.HasSuffix(f, ":0") {
				emptyFile = true
			}
		}
		for _, d := range []string{"d1", "d2", "d3"} {
			if a, ok := ans[d].(map[string]any); ok {
				if s, ok := a["latest"].(string); ok && strings.HasPrefix(s, "error:") {
					latestErr = true
				}
				if lst, ok := a["recent9"].([]any); ok {
					seen := map[string]bool{}
					for _, x := range lst {
						if seen[fmt.Sprint(x)] {
							recentDup = true
						}
						seen[fmt.Sprint(x)] = true
					}
				}
			}
		}
		sys, path := "none", ""
		if killAt > 0 {
			sys, path = lst.Calls[killAt-1].Name, filepath.Base(lst.Calls[killAt-1].Path)
		}
		emit(Ev{"scen": sc.Scen, "label": sc.Label, "names": sc.Names, "todayOnly": sc.TodayOnly, "ops": sc.Ops, "nprior": sc.NPrior,
			"nack": nack, "k": p.k, "ncalls": len(lst.Calls), "sys": sys, "path": path, "torn": p.tear, "killed": res.Killed,
			"ans": ans, "after": after, "ans2": ans2, "files": files, "sec": HistSec, "latestError": latestErr, "recentDup": recentDup, "emptyFile": emptyFile})
		os.RemoveAll(filepath.Dir(dir))
	}
	return nil
}

// ---- C18: the save of a definition killed at every system call ---------------------------------------

// SaveDriver is the traced child: it saves the text with the given id as definition `name`.
func SaveDriver(dagsDir, name, textID string) {
	ds := dsclient.NewDataStores(dagsDir, filepath.Join(filepath.Dir(dagsDir), "data"), filepath.Join(filepath.Dir(dagsDir), "susp"), dsclient.DataStoreOptions{})
	text := apiTexts[textID]
	if textID == "big" {
		text = bigText()
	}
	_ = ds.DAGStore().UpdateSpec(name, []byte(text))
}

func bigText() string {
	var sb strings.Builder
	sb.WriteString("description: big\nsteps:\n")
	for i := 0; i < 2000; i++ {
		fmt.Fprintf(&sb, "  - name: step%d\n    command: echo %d\n", i, i)
	}
	return sb.String()
}

func SaveCrashSweep(self string, base string, emit func(Ev)) error {
	texts := map[string]string{"A": apiTexts["A"], "B": apiTexts["B"], "C": apiTexts["C"], "big": bigText()}
	id := func(b []byte, err error) string {
		if err != nil {
			return "absent"
		}
		for k, t := range texts {
			if string(b) == t {
				return k
			}
		}
		if len(b) == 0 {
			return "empty"
		}
		return fmt.Sprintf("partial:%d", len(b))
	}
	env := append(os.Environ(), "TZ=UTC")
	devnull, _ := os.OpenFile(os.DevNull, os.O_WRONLY, 0)
	defer devnull.Close()
	n := 0
	for _, tc := range [][2]string{{"A", "B"}, {"A", "big"}, {"big", "A"}} {
		prep := func() (string, error) {
			n++
			dir := filepath.Join(base, fmt.Sprintf("save%d", n), "dags")
			if err := os.MkdirAll(dir, 0o755); err != nil {
				return "", err
			}
			os.WriteFile(filepath.Join(dir, "x.yaml"), []byte(texts[tc[0]]), 0o644)
			os.WriteFile(filepath.Join(dir, "other.yaml"), []byte(texts["A"]), 0o644)
			return dir, nil
		}
		dir, err := prep()
		if err != nil {
			return err
		}
		argv := func(d string) []string { return []string{self, "savedrv", "-dags", d, "-name", "x", "-text", tc[1]} }
		lst, err := Supervise(argv(dir), env, dir, 0, -1, devnull)
		os.RemoveAll(filepath.Dir(dir))
		if err != nil {
			return err
		}
		type point struct{ k, tear int }
		var points []point
		for _, c := range lst.Calls {
			points = append(points, point{c.N, -1})
			if c.Name == "write" && c.Len > 2 {
				points = append(points, point{c.N, 1}, point{c.N, c.Len / 2}, point{c.N, c.Len - 1})
			}
		}
		points = append(points, point{len(lst.Calls) + 1, -1})
		for _, p := range points {
			dir, err := prep()
			if err != nil {
				return err
			}
			killAt := p.k
			if killAt > len(lst.Calls) {
				killAt = 0
			}
			res, err := Supervise(argv(dir), env, dir, killAt, p.tear, devnull)
			if err != nil {
				return err
			}
			b, rerr := os.ReadFile(filepath.Join(dir, "x.yaml"))
			ob, _ := os.ReadFile(filepath.Join(dir, "other.yaml"))
			ents, _ := os.ReadDir(dir)
			var names []string
			for _, e := range ents {
				names = append(names, e.Name())
			}
			sys := "none"
			if killAt > 0 {
				sys = lst.Calls[killAt-1].Name + " " + filepath.Base(lst.Calls[killAt-1].Path)
			}
			// the definition is saved again by another process (DagStore.tla NextSave): a third, shorter text
			next := "C"
			if tc[1] == "B" {
				next = "A" // shorter than what the killed save was writing
			}
			exec.Command(self, "savedrv", "-dags", dir, "-name", "x", "-text", next).Run()
			b2, rerr2 := os.ReadFile(filepath.Join(dir, "x.yaml"))
			ob2, _ := os.ReadFile(filepath.Join(dir, "other.yaml"))
			emit(Ev{"kind": "savecrash", "old": tc[0], "new": tc[1], "k": p.k, "ncalls": len(lst.Calls), "sys": sys, "torn": p.tear,
				"killed": res.Killed, "content": id(b, rerr), "otherChanged": string(ob) != texts["A"] || string(ob2) != texts["A"], "dir": names,
				"next": next, "contentAfterNext": id(b2, rerr2)})
			os.RemoveAll(filepath.Dir(dir))
		}
	}
	return nil
}

func appendNew(l []string, x string) []string {
	for _, y := range l {
		if y == x {
			return l
		}
	}
	return append(l, x)
}
