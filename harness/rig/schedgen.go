package rig

import (
	"math/rand"
	"sort"
)

// GenScenario draws one scenario of the given family from rng.
// Families mirror the exhaustive TLC configurations (MCStepSched.tla):
//
//	limit   : wide DAGs, maxActiveRuns > 0, retries (C15)
//	order   : no stop, no handlers      (C01 C02 C03 C15)
//	outcome : handlers, with/without stop (C04)
//	stop    : stop request (+ kill escalation), obeying / ignoring processes, repeat (C05)
//	timeout : DAG timeout                (C05)
//	dry     : dry run                    (C03)
//	replimit: repeating leaves with continueOn.failure under a limit, ended by a stop (C15 C08)
//	listener: retries + continueOn.failure + done listener (free-running: slow listener) (C01 C02 C03)
func GenScenario(family string, id int, rng *rand.Rand) Scenario {
	n := 1 + rng.Intn(5)
	if rng.Intn(3) > 0 {
		n = 3 + rng.Intn(2)
	}
	sc := Scenario{ID: id, N: n, Seed: rng.Int63(), DoneChan: rng.Intn(4) > 0}
	// random acyclic dependency relation: choose a random rank, edges go from lower to higher rank,
	// so a step may depend on a step that comes later in the file
	rank := rng.Perm(n)
	density := []float64{0.0, 0.3, 0.5, 0.8}[rng.Intn(4)]
	sc.Deps = make([][]int, n)
	for i := 0; i < n; i++ {
		for j := 0; j < n; j++ {
			if rank[j] < rank[i] && rng.Float64() < density {
				sc.Deps[i] = append(sc.Deps[i], j+1)
			}
		}
		sort.Ints(sc.Deps[i])
		if sc.Deps[i] == nil {
			sc.Deps[i] = []int{}
		}
	}
	sc.ContF, sc.ContS = make([]bool, n), make([]bool, n)
	sc.RLimit, sc.FailK = make([]int, n), make([]int, n)
	sc.PCond, sc.SigOnStop = make([]string, n), make([]string, n)
	sc.Repeat, sc.Obeys = make([]bool, n), make([]bool, n)
	for i := 0; i < n; i++ {
		sc.ContF[i] = rng.Intn(3) == 0
		sc.ContS[i] = rng.Intn(3) == 0
		sc.RLimit[i] = []int{0, 0, 0, 1, 2}[rng.Intn(5)]
		sc.FailK[i] = []int{0, 0, 0, 1, 2, 3, 99}[rng.Intn(7)]
		sc.PCond[i] = []string{"none", "none", "none", "met", "unmet"}[rng.Intn(5)]
		sc.Obeys[i] = true
	}
	sc.MaxActive = []int{0, 0, 1, 2, 3}[rng.Intn(5)]
	sc.Handlers, sc.HFail = []string{}, []string{}
	sc.Weights = [5]float64{pickW(rng), pickW(rng), pickW(rng), pickW(rng), pickW(rng)}
	withHandlers := func() {
		for _, h := range hTypes {
			if rng.Intn(3) > 0 {
				sc.Handlers = append(sc.Handlers, h)
				if rng.Intn(4) == 0 {
					sc.HFail = append(sc.HFail, h)
				}
			}
		}
	}
	switch family {
	case "limit":
		// wide DAGs under a concurrency limit, with retries (C15)
		sc.MaxActive = 1 + rng.Intn(n+1)
		for i := 0; i < n; i++ {
			if rng.Intn(2) == 0 {
				sc.Deps[i] = []int{}
			}
			sc.RLimit[i] = []int{0, 1, 1, 2}[rng.Intn(4)]
			sc.FailK[i] = []int{0, 1, 2, 3}[rng.Intn(4)]
			sc.ContF[i] = rng.Intn(2) == 0
		}
	case "retry":
		// first run of a retry pair: failures, sometimes a stop
		sc.Stop = rng.Intn(3) == 0
		for i := 0; i < n; i++ {
			sc.FailK[i] = []int{0, 0, 1, 2, 99, 99}[rng.Intn(6)]
		}
		if rng.Intn(3) == 0 {
			withHandlers()
		}
	case "replimit":
		// a repeating leaf (it may fail an iteration and go on: continueOn.failure) next to ordinary steps under a limit;
		// the run is ended by a stop request (C15 with repeat, C08 labels)
		sc.Stop = true
		sc.MaxActive = 1 + rng.Intn(2)
		for i := 0; i < n; i++ {
			sc.PCond[i] = "none"
			if rng.Intn(2) == 0 {
				sc.Deps[i] = []int{}
			}
		}
		for i := 0; i < n; i++ {
			if isLeaf(sc.Deps, i+1) && (rng.Intn(2) == 0 || i == 0) {
				sc.Repeat[i] = true
				sc.RLimit[i] = 0
				sc.ContF[i] = rng.Intn(3) > 0
				sc.FailK[i] = []int{0, 1, 1, 2, 99}[rng.Intn(5)]
				sc.Obeys[i] = rng.Intn(2) == 0
			}
		}
	case "listener":
		// retried, failure-tolerant steps with dependents next to independent steps, always with a done listener
		// (free-running mode makes that listener slow): what a dependent sees while a sender is blocked in `done <- node`
		sc.DoneChan = true
		sc.MaxActive = 0
		for i := 0; i < n; i++ {
			sc.PCond[i] = "none"
			if rng.Intn(2) == 0 {
				sc.RLimit[i] = 1 + rng.Intn(2)
				sc.FailK[i] = 1 + rng.Intn(sc.RLimit[i])
				sc.ContF[i] = rng.Intn(3) > 0
			}
		}
	case "order":
		if rng.Intn(4) == 0 {
			withHandlers()
		}
	case "outcome":
		withHandlers()
		sc.Stop = rng.Intn(2) == 0
	case "stop":
		sc.Stop = true
		sc.Kill = rng.Intn(2) == 0
		if rng.Intn(2) == 0 {
			withHandlers()
		}
		for i := 0; i < n; i++ {
			sc.Obeys[i] = rng.Intn(3) > 0
			if rng.Intn(6) == 0 && isLeaf(sc.Deps, i+1) {
				// repeating steps never finish by themselves; they only appear as leaves
				sc.Repeat[i] = true
				sc.RLimit[i] = 0
			}
			if rng.Intn(5) == 0 {
				sc.SigOnStop[i] = []string{"SIGINT", "SIGUSR1"}[rng.Intn(2)]
			}
		}
	case "timeout":
		sc.Timeout = true
		withHandlers()
	case "dry":
		sc.Dry = true
		withHandlers()
	}
	if sc.Stop {
		sc.StopAt = rng.Intn(14 * n)
	}
	return sc
}

func pickW(rng *rand.Rand) float64 {
	return []float64{1, 1, 1, 1, 4, 0.25}[rng.Intn(6)]
}

func isLeaf(deps [][]int, s int) bool {
	for _, ds := range deps {
		for _, d := range ds {
			if d == s {
				return false
			}
		}
	}
	return true
}
