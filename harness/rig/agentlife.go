package rig

// Agent life rig (C08, C16): the REAL blackdagger binary (built from /repo by the check) under the ptrace
// supervisor.
//   kill sweep (C08): `blackdagger start dag.yaml` is SIGKILLed at the entry of the k-th relevant system call
//     (history, log, socket); afterwards the real client is asked for the latest status, the DAG is started
//     again with the real binary, and the history is inspected.
//   second start (C16): the first start is held at its k-th relevant call while a second `start` of the same
//     file runs to completion; who executed steps is read from a marker file the steps append their
//     DAG_REQUEST_ID to (each start is its own process).
// spec/AgentLifeObserve.tla judges the records.

import (
	"crypto/md5"
	"fmt"
	"net"
	"os"
	"os/exec"
	"path/filepath"
	"sort"
	"strings"
	"time"

	"github.com/ErdemOzgen/blackdagger/internal/client"
	"github.com/ErdemOzgen/blackdagger/internal/dag"
	dsclient "github.com/ErdemOzgen/blackdagger/internal/persistence/client"
)

type agentEnv struct {
	base, dags, data, logs, susp, file, marker, name string
	env                                              []string
}

func newAgentEnv(base string, id int, sleepMs int) *agentEnv {
	e := &agentEnv{base: filepath.Join(base, fmt.Sprintf("ag%d", id))}
	e.dags, e.data, e.logs, e.susp = filepath.Join(e.base, "dags"), filepath.Join(e.base, "data"), filepath.Join(e.base, "logs"), filepath.Join(e.base, "susp")
	for _, d := range []string{e.dags, e.data, e.logs, e.susp} {
		os.MkdirAll(d, 0o755)
	}
	e.name = fmt.Sprintf("life%d_%x", id, md5.Sum([]byte(e.base)))[:18]
	e.file = filepath.Join(e.dags, e.name+".yaml")
	e.marker = filepath.Join(e.base, "marker")
	y := fmt.Sprintf(`logDir: %s
histRetentionDays: 7
handlerOn:
  success:
    command: sh -c "echo success:$DAG_REQUEST_ID >> %s"
  exit:
    command: sh -c "echo exit:$DAG_REQUEST_ID >> %s"
steps:
  - name: s1
    command: sh -c "echo s1:$DAG_REQUEST_ID >> %s"
  - name: s2
    command: sh -c "sleep %s; echo s2:$DAG_REQUEST_ID >> %s"
    depends: [s1]
`, e.logs, e.marker, e.marker, e.marker, fmt.Sprintf("%.3f", float64(sleepMs)/1000), e.marker)
	os.WriteFile(e.file, []byte(y), 0o644)
	e.env = []string{"HOME=" + e.base, "PATH=" + os.Getenv("PATH"), "TZ=UTC",
		"BLACKDAGGER_DAGS_DIR=" + e.dags, "BLACKDAGGER_DATA_DIR=" + e.data, "BLACKDAGGER_LOG_DIR=" + e.logs,
		"BLACKDAGGER_SUSPEND_FLAGS_DIR=" + e.susp, "BLACKDAGGER_WORK_DIR=" + e.base, "BLACKDAGGER_HOME=" + e.base}
	return e
}

func (e *agentEnv) cleanup() {
	removeSockLock(e.file)
	os.RemoveAll(e.base)
}

func (e *agentEnv) markerLines() []string {
	b, _ := os.ReadFile(e.marker)
	out := []string{}
	for _, l := range strings.Split(string(b), "\n") {
		if l != "" {
			out = append(out, l)
		}
	}
	return out
}

// who executed which step: request id -> steps
func execsByReq(lines []string) map[string][]string {
	m := map[string][]string{}
	for _, l := range lines {
		kv := strings.SplitN(l, ":", 2)
		if len(kv) == 2 {
			m[kv[1]] = append(m[kv[1]], kv[0])
		}
	}
	return m
}

func (e *agentEnv) histFiles() []string {
	fs, _ := filepath.Glob(filepath.Join(e.data, "*", "*.dat"))
	sort.Strings(fs)
	return fs
}

func (e *agentEnv) latest() (string, string) {
	ds := dsclient.NewDataStores(e.dags, e.data, e.susp, dsclient.DataStoreOptions{})
	cli := client.New(ds, "/bin/false", e.base, quietLogger)
	d, err := dag.LoadMetadata(e.file)
	if err != nil {
		return "?", err.Error()
	}
	st, err := cli.GetLatestStatus(d)
	es := ""
	if err != nil {
		es = err.Error()
	}
	if st == nil {
		return "nil", es
	}
	return st.Status.String(), es
}

func relevantAgent(e *agentEnv) string { return e.base }

// AgentKillSweep: C08
func AgentKillSweep(bin string, base string, every int, emit func(Ev)) error {
	devnull, _ := os.OpenFile(os.DevNull, os.O_WRONLY, 0)
	defer devnull.Close()
	id := 0
	mk := func() *agentEnv { id++; return newAgentEnv(base, id, 30) }
	e := mk()
	argv := func(e *agentEnv) []string { return []string{bin, "start", e.file} }
	lst, err := Supervise(argv(e), e.env, e.base, 0, -1, devnull)
	if err != nil {
		e.cleanup()
		return err
	}
	if len(e.markerLines()) != 4 {
		e.cleanup()
		return fmt.Errorf("the control run of the real binary did not execute its 4 commands: %v (calls %d)", e.markerLines(), len(lst.Calls))
	}
	e.cleanup()
	// index of the last write to the history file of the run = the final status
	lastHistWrite := 0
	for _, c := range lst.Calls {
		if c.Name == "write" && strings.HasSuffix(c.Path, ".dat") && !strings.HasSuffix(c.Path, "_c.dat") {
			lastHistWrite = c.N
		}
	}
	for k := 1; k <= len(lst.Calls)+1; k++ {
		if k <= len(lst.Calls) && (k-1)%every != 0 {
			continue
		}
		e := mk()
		killAt := k
		if k > len(lst.Calls) {
			killAt = 0
		}
		res, err := Supervise(argv(e), e.env, e.base, killAt, -1, devnull)
		if err != nil {
			e.cleanup()
			return fmt.Errorf("kill point %d: %w", k, err)
		}
		time.Sleep(20 * time.Millisecond) // orphaned step processes (their own process group) finish
		status, lerr := e.latest()
		before := execsByReq(e.markerLines())
		nhist := len(e.histFiles())
		// can it be started again?
		c2 := exec.Command(bin, "start", e.file)
		c2.Env = e.env
		out2, err2 := c2.CombinedOutput()
		after := execsByReq(e.markerLines())
		status2, lerr2 := e.latest()
		newReqs := 0
		for r, steps := range after {
			if _, ok := before[r]; !ok && len(steps) == 4 {
				newReqs++
			}
		}
		sys, path := "none", ""
		if killAt > 0 {
			sys, path = lst.Calls[killAt-1].Name, filepath.Base(lst.Calls[killAt-1].Path)
		}
		// Had the run done all its work (both steps and the exit handler) when it was killed? Taken from what this run
		// did, not from the position of the final write in the listing run: the system-call sequence is not the same in
		// every run (the agent's delayed "running" record may or may not be written, before or after the final one)
		workDone := false
		for _, steps := range before {
			if len(steps) == 4 {
				workDone = true
			}
		}
		_ = lastHistWrite
		emit(Ev{"kind": "kill", "k": k, "ncalls": len(lst.Calls), "sys": sys, "path": path, "killed": res.Killed,
			"finalWritten": killAt == 0 || workDone, "latest": status, "latestErr": lerr, "histFiles": nhist,
			"restartExit": exitCode(err2), "restartRan": newReqs == 1, "restartHist": len(e.histFiles()) - nhist, "latestAfterRestart": status2,
			"latestErrAfterRestart": lerr2, "restartOutput": trunc(string(out2), 200)})
		e.cleanup()
	}
	return nil
}

func exitCode(err error) int {
	if err == nil {
		return 0
	}
	if ee, ok := err.(*exec.ExitError); ok {
		return ee.ExitCode()
	}
	return -1
}

// SecondStartSweep: C16
func SecondStartSweep(bin string, base string, every int, emit func(Ev)) error {
	devnull, _ := os.OpenFile(os.DevNull, os.O_WRONLY, 0)
	defer devnull.Close()
	id := 1000
	mk := func() *agentEnv { id++; return newAgentEnv(base, id, 120) }
	e := mk()
	argv := func(e *agentEnv) []string { return []string{bin, "start", e.file} }
	sockName := func(e *agentEnv) string {
		d, _ := dag.LoadMetadata(e.file)
		return d.SockAddr()
	}
	// the socket lives in /tmp: use a prefix that matches both the scratch directory and the socket name
	lst, err := superviseBoth(argv(e), e, sockName(e), 0, nil, devnull)
	e.cleanup()
	if err != nil {
		return err
	}
	connectIdx, bindIdx, lastSockUnlink := 0, 0, 0
	for _, c := range lst.Calls {
		if c.Name == "connect" && connectIdx == 0 {
			connectIdx = c.N
		}
		if c.Name == "bind" && bindIdx == 0 {
			bindIdx = c.N
		}
		// the first unlink of the socket after the bind is the listener being closed: the run has given up its socket
		if c.Name == "unlinkat" && strings.HasSuffix(c.Path, ".sock") && bindIdx > 0 && lastSockUnlink == 0 {
			lastSockUnlink = c.N
		}
	}
	// from which call on the first start has committed itself to being the run of the file: with the address lock
	// (openat of <socket>.lock, flock, connect, unlink, bind) that is the connect made under the lock; without a lock
	// file in the listing it is the call after the probe
	commitIdx, lockOpen := connectIdx+1, 0
	for _, c := range lst.Calls {
		if lockOpen == 0 && strings.HasSuffix(c.Path, ".sock.lock") {
			lockOpen = c.N
		}
		if lockOpen > 0 && c.N > lockOpen && c.Name == "connect" {
			commitIdx = c.N
			break
		}
	}
	if connectIdx == 0 || bindIdx == 0 {
		return fmt.Errorf("no connect/bind on the status socket seen in the listing run (%d calls)", len(lst.Calls))
	}
	for k := 1; k <= len(lst.Calls); k++ {
		window := k > connectIdx && k <= bindIdx+1
		if !window && (k-1)%every != 0 {
			continue
		}
		e := mk()
		var exitB, exitC int
		thirdRan := false
		var outB string
		var histAtB, histAfterB int
		var statusDuring string
		// the second start may have to wait for the first one (address lock): if it has not ended after 4 s the first
		// start is released and the second one is awaited afterwards
		blocked := false
		doneB := make(chan struct{})
		sockLive := false
		onPark := func() {
			// is the first start's socket still there at this moment? (the position of its closing unlink in the listing
			// run is not reliable: the number of history writes before it varies from run to run)
			if c, derr := net.DialTimeout("unix", sockName(e), 300*time.Millisecond); derr == nil {
				c.Close()
				sockLive = true
			}
			statusDuring, _ = e.latest()
			histAtB = len(e.histFiles())
			// (through a shell that leaves the exit status in a file: the supervisor's wait4(-1) may reap this child)
			rcFile, outFile := filepath.Join(e.base, "b.rc"), filepath.Join(e.base, "b.out")
			c := exec.Command("sh", "-c", fmt.Sprintf("%s start %s > %s 2>&1; echo $? > %s.tmp; mv %s.tmp %s", bin, e.file, outFile, rcFile, rcFile, rcFile))
			c.Env = e.env
			c.Start()
			go func() {
				for {
					if b, err := os.ReadFile(rcFile); err == nil {
						fmt.Sscanf(string(b), "%d", &exitB)
						break
					}
					time.Sleep(5 * time.Millisecond)
				}
				o, _ := os.ReadFile(outFile)
				outB = trunc(string(o), 300)
				histAfterB = len(e.histFiles())
				// a refused start must leave the active run as it was: right after the refusal a THIRD start is issued; if
				// the refused one has damaged the first run's claim on the file (its socket, its lock), this one executes
				// the steps alongside it (seen as interleaved marker lines)
				if exitB != 0 {
					rcC := filepath.Join(e.base, "c.rc")
					cc := exec.Command("sh", "-c", fmt.Sprintf("%s start %s > /dev/null 2>&1; echo $? > %s.tmp; mv %s.tmp %s", bin, e.file, rcC, rcC, rcC))
					cc.Env = e.env
					cc.Start()
					dl := time.Now().Add(25 * time.Second)
					for time.Now().Before(dl) {
						if b, err := os.ReadFile(rcC); err == nil {
							fmt.Sscanf(string(b), "%d", &exitC)
							thirdRan = true
							break
						}
						time.Sleep(5 * time.Millisecond)
					}
				}
				close(doneB)
			}()
			select {
			case <-doneB:
			case <-time.After(4 * time.Second):
				blocked = true
			}
		}
		res, err := superviseBoth(argv(e), e, sockName(e), k, onPark, devnull)
		if err != nil {
			e.cleanup()
			return fmt.Errorf("placement %d: %w", k, err)
		}
		select {
		case <-doneB:
		case <-time.After(30 * time.Second):
			e.cleanup()
			return fmt.Errorf("placement %d: the second start never ends", k)
		}
		by := execsByReq(e.markerLines())
		reqs := []string{}
		for r := range by {
			reqs = append(reqs, r)
		}
		sort.Strings(reqs)
		// interleaved: a line of one run lies between the first and the last line of the other run
		interleaved := false
		first, last := map[string]int{}, map[string]int{}
		for i, l := range e.markerLines() {
			if j := strings.Index(l, ":"); j >= 0 {
				r := l[j+1:]
				if _, ok := first[r]; !ok {
					first[r] = i
				}
				last[r] = i
			}
		}
		for a := range first {
			for b := range first {
				if a != b && first[b] > first[a] && first[b] < last[a] {
					interleaved = true
				}
			}
		}
		statusEnd, errEnd := e.latest()
		if blocked {
			// the first start went on while the second one waited: files recorded by a refused start = files that belong to no run that executed
			histAfterB, histAtB = len(e.histFiles())-len(reqs), 0
		}
		c := lst.Calls[k-1]
		emit(Ev{"kind": "second", "k": k, "ncalls": len(lst.Calls), "sys": c.Name, "path": filepath.Base(c.Path),
			"afterProbe": k > connectIdx, "committed": k >= commitIdx, "afterBind": k > bindIdx, "afterShutdown": k > bindIdx && !sockLive, "sockLive": sockLive,
			"runsThatExecuted": len(reqs), "secondBlocked": blocked, "interleaved": interleaved, "exitA": res.ExitCode, "exitB": exitB, "histNewDuringB": histAfterB - histAtB, "thirdStart": thirdRan, "exitC": exitC,
			"histFiles": len(e.histFiles()), "statusWhileParked": statusDuring, "statusEnd": statusEnd, "statusEndErr": errEnd, "outB": outB})
		e.cleanup()
	}
	return nil
}

// superviseBoth: relevant = paths under the scratch directory or the status socket
func superviseBoth(argv []string, e *agentEnv, sock string, parkAt int, onPark func(), stdout *os.File) (*SupResult, error) {
	// the supervisor matches one substring: the DAG name is part of both the socket name and the scratch paths
	return SupervisePark(argv, e.env, e.name, 0, -1, stdout, parkAt, onPark)
}

// ---- C08, truth of the reported status: live while running, final afterwards -------------------------------

// TruthRuns runs the real binary (not killed) on a few DAG variants, polls the reported status while the run is in
// progress and compares the persisted final status with what the steps really did (marker file, log files).
func TruthRuns(bin string, base string, emit func(Ev)) error {
	variants := []struct {
		name string
		yaml func(e *agentEnv) string
		want map[string]string // step -> expected final node status
		runs map[string]int    // step -> expected number of executions
		run  string            // expected run status
	}{
		{"all-succeed", func(e *agentEnv) string {
			return fmt.Sprintf("logDir: %s\nsteps:\n  - name: s1\n    command: sh -c \"echo s1 >> %s\"\n  - name: s2\n    command: sh -c \"sleep 0.4; echo s2 >> %s\"\n    depends: [s1]\n", e.logs, e.marker, e.marker)
		}, map[string]string{"s1": "finished", "s2": "finished"}, map[string]int{"s1": 1, "s2": 1}, "finished"},
		{"fail-retry-continue", func(e *agentEnv) string {
			return fmt.Sprintf("logDir: %s\nsteps:\n  - name: s1\n    command: sh -c \"echo s1 >> %s; exit 1\"\n    retryPolicy:\n      limit: 1\n      intervalSec: 0\n    continueOn:\n      failure: true\n  - name: s2\n    command: sh -c \"sleep 0.4; echo s2 >> %s\"\n    depends: [s1]\n  - name: s3\n    command: sh -c \"echo s3 >> %s; exit 3\"\n    depends: [s2]\n  - name: s4\n    command: sh -c \"echo s4 >> %s\"\n    depends: [s3]\n", e.logs, e.marker, e.marker, e.marker, e.marker)
		}, map[string]string{"s1": "failed", "s2": "finished", "s3": "failed", "s4": "canceled"}, map[string]int{"s1": 2, "s2": 1, "s3": 1, "s4": 0}, "failed"},
		{"skip", func(e *agentEnv) string {
			return fmt.Sprintf("logDir: %s\nsteps:\n  - name: s1\n    command: sh -c \"sleep 0.4; echo s1 >> %s\"\n  - name: s2\n    command: sh -c \"echo s2 >> %s\"\n    depends: [s1]\n    preconditions:\n      - condition: \"no\"\n        expected: \"yes\"\n  - name: s3\n    command: sh -c \"echo s3 >> %s\"\n    depends: [s2]\n", e.logs, e.marker, e.marker, e.marker)
		}, map[string]string{"s1": "finished", "s2": "skipped", "s3": "skipped"}, map[string]int{"s1": 1, "s2": 0, "s3": 0}, "finished"},
	}
	for i, v := range variants {
		e := newAgentEnv(base, 3000+i, 0)
		os.WriteFile(e.file, []byte(v.yaml(e)), 0o644)
		c := exec.Command(bin, "start", e.file)
		c.Env = e.env
		if err := c.Start(); err != nil {
			e.cleanup()
			return err
		}
		waited := make(chan error, 1)
		go func() { waited <- c.Wait() }()
		// observations while the run is in progress
		ds := dsclient.NewDataStores(e.dags, e.data, e.susp, dsclient.DataStoreOptions{})
		cli := client.New(ds, "/bin/false", e.base, quietLogger)
		d, _ := dag.LoadMetadata(e.file)
		live := []string{}
		liveOK := true
		done := false
		for !done {
			select {
			case <-waited:
				done = true
			case <-time.After(40 * time.Millisecond):
				st, err := cli.GetLatestStatus(d)
				if err != nil || st == nil {
					continue
				}
				s := st.Status.String()
				if len(live) == 0 || live[len(live)-1] != s {
					live = append(live, s)
				}
				if len(e.markerLines()) > 0 && s != "running" {
					// something has run and the process has not exited yet: must be reported running ... unless it has just finished
					select {
					case <-waited:
						done = true
					default:
						liveOK = liveOK && (s == v.run) // the final status may be visible a moment before the process exits
					}
				}
			}
		}
		time.Sleep(20 * time.Millisecond)
		st, err := cli.GetLatestStatus(d)
		rec := Ev{"kind": "truth", "variant": v.name, "liveStatuses": live, "liveOK": liveOK, "latestErr": fmt.Sprint(err), "runStatus": "?", "wantRun": v.run}
		counts := map[string]int{}
		for _, l := range e.markerLines() {
			counts[strings.SplitN(l, ":", 2)[0]]++
		}
		nodes := []Ev{}
		if st != nil {
			rec["runStatus"] = st.Status.String()
			rec["startNotAfterFinish"] = st.StartedAt <= st.FinishedAt && st.FinishedAt != "-"
			for _, n := range st.Nodes {
				_, lerr := os.Stat(n.Log)
				ran := counts[n.Step.Name]
				nodes = append(nodes, Ev{"step": n.Step.Name, "status": n.Status.String(), "want": v.want[n.Step.Name], "executions": ran, "wantExecutions": v.runs[n.Step.Name],
					"retryCount": n.RetryCount, "logExists": lerr == nil || (ran == 0 && n.Log == ""), "startNotAfterFinish": n.StartedAt <= n.FinishedAt || n.StartedAt == "-"})
			}
		}
		rec["nodes"] = nodes
		emit(rec)
		e.cleanup()
	}
	return nil
}

// ---- C05 on real processes: stop of a real run, obeying / ignoring children, signalOnStop, repeat ----------------

// StopRuns starts the real binary on DAGs whose steps are real shell processes, issues the real `stop`
// command once the step is running, and measures how and when the run ends.
func StopRuns(bin string, base string, emit func(Ev)) error {
	type variant struct {
		name, step string
		cleanup    int // maxCleanUpTimeSec
		selfEnd    float64
	}
	variants := []variant{
		{"obey", "command: sh -c \"echo started >> MARKER; sleep 30\"", 3, 30},
		{"ignore", "command: sh -c \"trap '' TERM; echo started >> MARKER; sleep 14\"", 2, 14},
		{"sigint", "command: sh -c \"trap 'echo gotint >> MARKER; exit 0' INT; trap '' TERM; echo started >> MARKER; while true; do sleep 0.1; done\"\n    signalOnStop: SIGINT", 3, 1e9},
		{"repeat", "command: sh -c \"echo started >> MARKER; sleep 1; echo iterdone >> MARKER\"\n    repeatPolicy:\n      repeat: true\n      intervalSec: 1", 4, 1e9},
	}
	type result struct {
		ev Ev
	}
	results := make(chan Ev, len(variants))
	for i, v := range variants {
		go func(i int, v variant) {
			e := newAgentEnv(base, 5000+i, 0)
			defer e.cleanup()
			y := fmt.Sprintf("logDir: %s\nmaxCleanUpTimeSec: %d\nhandlerOn:\n  cancel:\n    command: sh -c \"echo oncancel >> %s\"\n  exit:\n    command: sh -c \"echo onexit >> %s\"\n  success:\n    command: sh -c \"echo onsuccess >> %s\"\nsteps:\n  - name: s1\n    %s\n  - name: s2\n    command: sh -c \"echo s2ran >> %s\"\n    depends: [s1]\n",
				e.logs, v.cleanup, e.marker, e.marker, e.marker, strings.ReplaceAll(v.step, "MARKER", e.marker), e.marker)
			os.WriteFile(e.file, []byte(y), 0o644)
			c := exec.Command(bin, "start", e.file)
			c.Env = e.env
			rec := Ev{"kind": "stop", "variant": v.name, "cleanupSec": v.cleanup, "infra": ""}
			if err := c.Start(); err != nil {
				rec["infra"] = err.Error()
				results <- rec
				return
			}
			waited := make(chan error, 1)
			go func() { waited <- c.Wait() }()
			// wait for the step process
			dl := time.Now().Add(5 * time.Second)
			for time.Now().Before(dl) && len(e.markerLines()) == 0 {
				time.Sleep(10 * time.Millisecond)
			}
			if len(e.markerLines()) == 0 {
				c.Process.Kill()
				rec["infra"] = "step never started"
				results <- rec
				return
			}
			time.Sleep(150 * time.Millisecond)
			t0 := time.Now()
			sc := exec.Command(bin, "stop", e.file)
			sc.Env = e.env
			so, serr := sc.CombinedOutput()
			rec["stopExit"] = exitCode(serr)
			_ = so
			ended := false
			select {
			case <-waited:
				ended = true
			case <-time.After(time.Duration(v.cleanup+12) * time.Second):
				c.Process.Kill()
				<-waited
			}
			took := time.Since(t0).Seconds()
			time.Sleep(50 * time.Millisecond)
			lines := e.markerLines()
			count := func(s string) int {
				n := 0
				for _, l := range lines {
					if l == s {
						n++
					}
				}
				return n
			}
			status, lerr := e.latest()
			rec["ended"], rec["tookSec"] = ended, took
			rec["withinBound"] = ended && took <= float64(v.cleanup)+8 // MaxCleanUpTime + the 5 s resend tick / 3 s poll + slack
			rec["status"], rec["statusErr"] = status, lerr
			rec["started"], rec["iterdone"], rec["gotint"] = count("started"), count("iterdone"), count("gotint")
			rec["oncancel"], rec["onexit"], rec["onsuccess"], rec["s2ran"] = count("oncancel"), count("onexit"), count("onsuccess"), count("s2ran")
			results <- rec
		}(i, v)
	}
	for range variants {
		emit(<-results)
	}
	return nil
}
