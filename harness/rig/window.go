package rig

// C05, the start barrier on the REAL command executor: a single real step (`sh -c "echo started >> marker; sleep 5"`)
// is run by the real scheduler; its worker is held at a gate after its own cancel check (worker.exec: no executor yet;
// node.created: executor created, process not started) while a stop request is made; then it is released. The marker
// file tells whether the process was started after the stop. The scripted executor of the scheduler rig mimics what is
// confirmed here.

import (
	"context"
	"fmt"
	"os"
	"path/filepath"
	"sync"
	"syscall"
	"time"

	"github.com/ErdemOzgen/blackdagger/internal/dag"
	"github.com/ErdemOzgen/blackdagger/internal/dag/scheduler"
)

func RealWindowRuns(base string, emit func(Ev)) error {
	id := 0
	for _, repeat := range []bool{false, true} {
		for _, variant := range []string{"control", "worker.exec", "node.created"} {
			id++
			dir := filepath.Join(base, fmt.Sprintf("win%d", id))
			os.MkdirAll(dir, 0o755)
			marker := filepath.Join(dir, "marker")
			step := dag.Step{Name: "s1", Command: "sh", Args: []string{"-c", fmt.Sprintf("echo started >> %s; sleep 1", marker)},
				RepeatPolicy: dag.RepeatPolicy{Repeat: repeat, Interval: 10 * time.Millisecond}}
			g, err := scheduler.NewExecutionGraph(quietLogger, step)
			if err != nil {
				return err
			}
			s := scheduler.New(&scheduler.Config{LogDir: filepath.Join(dir, "logs"), Logger: quietLogger, ReqID: fmt.Sprintf("win%d", id)})
			held := make(chan struct{})
			release := make(chan struct{})
			var once sync.Once
			if variant != "control" {
				scheduler.VerifHook = func(point, st string) {
					if point == variant && st == "s1" {
						first := false
						once.Do(func() { first = true })
						if first {
							close(held)
							<-release
						}
					}
				}
			}
			fin := make(chan error, 1)
			go func() {
				ctx := dag.NewContext(context.Background(), nil, nil, fmt.Sprintf("win%d", id), "")
				fin <- s.Schedule(ctx, g, nil)
			}()
			rec := Ev{"kind": "window", "variant": variant, "repeat": repeat, "infra": "", "started": false, "status": "?"}
			if variant != "control" {
				select {
				case <-held:
				case <-time.After(10 * time.Second):
					rec["infra"] = "the worker never reached the gate"
				}
				if rec["infra"] == "" {
					s.Signal(g, syscall.SIGTERM, nil, true) // returns when every node has been visited
					close(release)
				}
			} else if repeat {
				// a repeating step only ends when the run is stopped
				go func() {
					time.Sleep(300 * time.Millisecond)
					s.Signal(g, syscall.SIGTERM, nil, true)
				}()
			}
			select {
			case <-fin:
			case <-time.After(20 * time.Second):
				rec["infra"] = "the run does not end"
				s.Signal(g, syscall.SIGKILL, nil, false)
			}
			scheduler.VerifHook = nil
			if _, err := os.Stat(marker); err == nil {
				rec["started"] = true
			}
			rec["status"] = g.Nodes()[0].State().Status.String()
			rec["run"] = s.Status(g).String()
			emit(rec)
			os.RemoveAll(dir)
		}
	}
	return nil
}
