package main

import (
	"bufio"
	"encoding/json"
	"flag"
	"fmt"
	"io"
	"log"
	"os"

	"github.com/ErdemOzgen/blackdagger/verifharness/rig"
)

func init() { cmds["loader"] = loaderCmd }

// vh loader -mode shapes|canary -pairs N -bytes N -seed S -out file
func loaderCmd(args []string) int {
	fs := flag.NewFlagSet("loader", flag.ExitOnError)
	mode := fs.String("mode", "shapes", "shapes | canary")
	pairs := fs.Int("pairs", 0, "sampled pairs of deviations")
	nbytes := fs.Int("bytes", 0, "sampled byte-level mutations")
	seed := fs.Int64("seed", 1, "seed")
	out := fs.String("out", "loader.ndjson", "records")
	fs.Parse(args)
	log.SetOutput(io.Discard)
	dir, err := os.MkdirTemp("", "vh-loader-")
	if err != nil {
		fmt.Fprintln(os.Stderr, "INFRA", err)
		return 2
	}
	defer os.RemoveAll(dir)
	os.Setenv("HOME", dir)
	f, err := os.Create(*out)
	if err != nil {
		fmt.Fprintln(os.Stderr, "INFRA", err)
		return 2
	}
	defer f.Close()
	bw := bufio.NewWriterSize(f, 1<<20)
	enc := json.NewEncoder(bw)
	enc.SetEscapeHTML(false)
	n := 0
	emit := func(e rig.Ev) { enc.Encode(e); n++ }
	so := os.Stdout
	devnull, _ := os.OpenFile(os.DevNull, os.O_WRONLY, 0)
	os.Stdout = devnull
	var docs int
	if *mode == "canary" {
		docs, err = rig.CanarySweep(dir, emit)
	} else {
		docs, err = rig.LoaderSweep(*seed, *pairs, *nbytes, dir, emit)
	}
	os.Stdout = so
	bw.Flush()
	if err != nil {
		fmt.Fprintln(os.Stderr, "INFRA", err)
		return 2
	}
	fmt.Printf("{\"documents\": %d, \"records\": %d}\n", docs, n)
	return 0
}
