// vh is the conformance harness of /verif: one sub-command per rig.
package main

import (
	"fmt"
	"os"
)

type subcmd func(args []string) int

var cmds = map[string]subcmd{}

func main() {
	if len(os.Args) < 2 {
		fmt.Fprintln(os.Stderr, "usage: vh <rig> [flags]")
		os.Exit(2)
	}
	c, ok := cmds[os.Args[1]]
	if !ok {
		fmt.Fprintf(os.Stderr, "unknown rig %q\n", os.Args[1])
		os.Exit(2)
	}
	os.Exit(c(os.Args[2:]))
}
