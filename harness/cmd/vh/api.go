package main

import (
	"bufio"
	"encoding/json"
	"flag"
	"fmt"
	"io"
	"log"
	"math/rand"
	"os"

	"github.com/ErdemOzgen/blackdagger/verifharness/rig"
)

func init() { cmds["api"] = apiCmd }

// vh api -count N -seed S | -scenarios file -out trace [-dump file]
func apiCmd(args []string) int {
	fs := flag.NewFlagSet("api", flag.ExitOnError)
	scfile := fs.String("scenarios", "", "scenario file")
	count := fs.Int("count", 50, "random scenarios")
	seed := fs.Int64("seed", 1, "seed")
	first := fs.Int("first", 1, "first id")
	out := fs.String("out", "api.ndjson", "trace")
	dump := fs.String("dump", "", "write scenarios")
	fs.Parse(args)
	log.SetOutput(io.Discard)
	var scs []rig.ApiScenario
	if *scfile != "" {
		f, err := os.Open(*scfile)
		if err != nil {
			fmt.Fprintln(os.Stderr, "INFRA", err)
			return 2
		}
		s := bufio.NewScanner(f)
		s.Buffer(make([]byte, 1<<20), 1<<26)
		for s.Scan() {
			if len(s.Bytes()) == 0 {
				continue
			}
			var sc rig.ApiScenario
			if err := json.Unmarshal(s.Bytes(), &sc); err != nil {
				fmt.Fprintln(os.Stderr, "INFRA", err)
				return 2
			}
			scs = append(scs, sc)
		}
		f.Close()
	} else {
		r := rand.New(rand.NewSource(*seed))
		for i := 0; i < *count; i++ {
			scs = append(scs, rig.GenApi(*first+i, r))
		}
	}
	base, err := os.MkdirTemp("", "vh-api-")
	if err != nil {
		fmt.Fprintln(os.Stderr, "INFRA", err)
		return 2
	}
	defer os.RemoveAll(base)
	os.Setenv("HOME", base)
	f, err := os.Create(*out)
	if err != nil {
		fmt.Fprintln(os.Stderr, "INFRA", err)
		return 2
	}
	defer f.Close()
	bw := bufio.NewWriterSize(f, 1<<20)
	enc := json.NewEncoder(bw)
	enc.SetEscapeHTML(false)
	n := 0
	so := os.Stdout
	devnull, _ := os.OpenFile(os.DevNull, os.O_WRONLY, 0)
	os.Stdout = devnull
	for _, sc := range scs {
		if err := rig.RunApi(sc, base, func(e rig.Ev) { enc.Encode(e); n++ }); err != nil {
			os.Stdout = so
			fmt.Fprintln(os.Stderr, "INFRA", err)
			return 2
		}
	}
	os.Stdout = so
	bw.Flush()
	if *dump != "" {
		df, _ := os.Create(*dump)
		de := json.NewEncoder(df)
		for _, sc := range scs {
			de.Encode(sc)
		}
		df.Close()
	}
	fmt.Printf("{\"scenarios\": %d, \"events\": %d}\n", len(scs), n)
	return 0
}
