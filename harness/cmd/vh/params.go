package main

import (
	"bufio"
	"encoding/json"
	"flag"
	"fmt"
	"io"
	"log"
	"os"
	"strings"

	"github.com/ErdemOzgen/blackdagger/verifharness/rig"
)

func init() {
	cmds["probe"] = func(args []string) int {
		fs := flag.NewFlagSet("probe", flag.ExitOnError)
		dir := fs.String("dir", "", "dir")
		tag := fs.String("tag", "", "tag")
		names := fs.String("names", "", "names")
		fs.Parse(args)
		var ns []string
		if *names != "" {
			ns = strings.Split(*names, ",")
		}
		return rig.ProbeChild(*dir, *tag, ns, fs.Args())
	}
	cmds["payload"] = func(args []string) int {
		fs := flag.NewFlagSet("payload", flag.ExitOnError)
		class := fs.String("class", "word", "class")
		noise := fs.Bool("noise", false, "also print on stderr")
		fs.Parse(args)
		return rig.PayloadChild(*class, *noise)
	}
	cmds["params"] = paramsCmd
}

func paramsCmd(args []string) int {
	fs := flag.NewFlagSet("params", flag.ExitOnError)
	scfile := fs.String("scenarios", "", "scenario file")
	out := fs.String("out", "params.ndjson", "records")
	tok := fs.Int("tok", 0, "tokenizer sweep: every string up to this length through the real parser")
	bin := fs.String("bin", "", "the real binary: drive the scenarios through start -p / restart / retry of the command layer")
	dying := fs.Int("dying", 0, "with -bin: so many restarts against an agent that dies while answering the status query")
	fs.Parse(args)
	log.SetOutput(io.Discard)
	if *tok > 0 {
		of, err := os.Create(*out)
		if err != nil {
			fmt.Fprintln(os.Stderr, "INFRA", err)
			return 2
		}
		defer of.Close()
		bw := bufio.NewWriterSize(of, 1<<20)
		enc := json.NewEncoder(bw)
		n := rig.TokSweep(*tok, func(e rig.Ev) { enc.Encode(e) })
		bw.Flush()
		fmt.Printf("{\"records\": %d}\n", n)
		return 0
	}
	f, err := os.Open(*scfile)
	if err != nil {
		fmt.Fprintln(os.Stderr, "INFRA", err)
		return 2
	}
	var scs []rig.ParamScenario
	s := bufio.NewScanner(f)
	s.Buffer(make([]byte, 1<<20), 1<<26)
	for s.Scan() {
		if len(s.Bytes()) == 0 {
			continue
		}
		var sc rig.ParamScenario
		if err := json.Unmarshal(s.Bytes(), &sc); err != nil {
			fmt.Fprintln(os.Stderr, "INFRA", err)
			return 2
		}
		scs = append(scs, sc)
	}
	f.Close()
	base, _ := os.MkdirTemp("", "vh-par-")
	if os.Getenv("VH_KEEP") == "" {
		defer os.RemoveAll(base)
	}
	os.Setenv("HOME", base)
	self, _ := os.Executable()
	of, err := os.Create(*out)
	if err != nil {
		fmt.Fprintln(os.Stderr, "INFRA", err)
		return 2
	}
	defer of.Close()
	enc := json.NewEncoder(of)
	enc.SetEscapeHTML(false)
	so := os.Stdout
	devnull, _ := os.OpenFile(os.DevNull, os.O_WRONLY, 0)
	os.Stdout = devnull
	nrec := len(scs)
	if *bin != "" && *dying > 0 {
		// restart against an agent that dies while answering (cut at several places of the answer)
		for i := 0; i < *dying; i++ {
			enc.Encode(rig.RunRestartDyingAgent(self, *bin, i+1, []float64{0.5, 0.02, 0.97, 0.25}[i%4], base))
			nrec++
		}
	}
	for _, sc := range scs {
		if *bin != "" {
			enc.Encode(rig.RunParamsCLI(self, *bin, sc, base))
		} else {
			enc.Encode(rig.RunParams(self, sc, base))
		}
	}
	os.Stdout = so
	fmt.Printf("{\"records\": %d}\n", nrec)
	return 0
}
