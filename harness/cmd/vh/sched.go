package main

import (
	"bufio"
	"encoding/json"
	"flag"
	"fmt"
	"math/rand"
	"os"

	"github.com/ErdemOzgen/blackdagger/verifharness/rig"
)

func init() { cmds["sched"] = schedCmd }

// vh sched: run scenarios on the real step scheduler and write their traces.
//
//	-family F -count N -seed S [-first I]   seeded random scenarios with random gate schedules
//	-scenarios file                         scenarios (JSON lines) produced elsewhere (TLC behaviours, replays)
//	-free                                   free-running mode (no parking)
func schedCmd(args []string) int {
	fs := flag.NewFlagSet("sched", flag.ExitOnError)
	family := fs.String("family", "order", "scenario family")
	count := fs.Int("count", 100, "number of scenarios")
	seed := fs.Int64("seed", 1, "seed")
	first := fs.Int("first", 1, "id of the first scenario")
	out := fs.String("out", "trace.ndjson", "trace output")
	scfile := fs.String("scenarios", "", "read scenarios from file")
	dump := fs.String("dump", "", "also write the scenarios (JSON lines) here")
	free := fs.Bool("free", false, "free-running mode")
	fs.Parse(args)

	var scs []rig.Scenario
	if *scfile != "" {
		f, err := os.Open(*scfile)
		if err != nil {
			fmt.Fprintln(os.Stderr, "INFRA", err)
			return 2
		}
		s := bufio.NewScanner(f)
		s.Buffer(make([]byte, 1<<20), 1<<26)
		for s.Scan() {
			if len(s.Bytes()) == 0 {
				continue
			}
			var sc rig.Scenario
			if err := json.Unmarshal(s.Bytes(), &sc); err != nil {
				fmt.Fprintln(os.Stderr, "INFRA bad scenario:", err)
				return 2
			}
			scs = append(scs, sc)
		}
		f.Close()
	} else {
		rng := rand.New(rand.NewSource(*seed))
		for i := 0; i < *count; i++ {
			scs = append(scs, rig.GenScenario(*family, *first+i, rng))
		}
	}
	if *family == "retry" && *scfile == "" {
		return retryPairs(scs, *out, *dump)
	}
	logDir, err := os.MkdirTemp("", "vh-sched-")
	if err != nil {
		fmt.Fprintln(os.Stderr, "INFRA", err)
		return 2
	}
	defer os.RemoveAll(logDir)
	os.Setenv("HOME", logDir)
	tr := &rig.Tracer{}
	infra := 0
	for _, sc := range scs {
		if err := rig.RunSched(sc, tr, logDir, *free); err != nil {
			fmt.Fprintf(os.Stderr, "INFRA scenario %d: %v\n", sc.ID, err)
			infra++
			if infra > 3 {
				break
			}
		}
	}
	f, err := os.Create(*out)
	if err != nil {
		fmt.Fprintln(os.Stderr, "INFRA", err)
		return 2
	}
	if err := rig.WriteND(f, tr.Events()); err != nil {
		fmt.Fprintln(os.Stderr, "INFRA", err)
		return 2
	}
	f.Close()
	if *dump != "" {
		df, _ := os.Create(*dump)
		enc := json.NewEncoder(df)
		for _, sc := range scs {
			enc.Encode(sc)
		}
		df.Close()
	}
	fmt.Printf("{\"scenarios\": %d, \"events\": %d, \"infra\": %d}\n", len(scs), tr.Len(), infra)
	if infra > 0 {
		return 2
	}
	return 0
}

// retryPairs: every scenario is run once (possibly stopped, possibly "killed" at a random move, i.e. its
// status vector is snapshotted there) and then retried from the recorded vector: family "retry" (C10).
func retryPairs(scs []rig.Scenario, out, dump string) int {
	logDir, err := os.MkdirTemp("", "vh-sched-")
	if err != nil {
		fmt.Fprintln(os.Stderr, "INFRA", err)
		return 2
	}
	defer os.RemoveAll(logDir)
	os.Setenv("HOME", logDir)
	tr := &rig.Tracer{}
	var all []rig.Scenario
	infra := 0
	for _, sc := range scs {
		rng := rand.New(rand.NewSource(sc.Seed))
		first := sc
		first.ID = sc.ID * 2
		first.SnapAt = 1 + rng.Intn(12*sc.N)
		info, err := rig.RunSchedInfo(first, tr, logDir, false)
		all = append(all, first)
		if err != nil {
			fmt.Fprintf(os.Stderr, "INFRA scenario %d: %v\n", first.ID, err)
			infra++
			continue
		}
		second := sc
		second.ID = sc.ID*2 + 1
		second.Seed = sc.Seed + 1
		second.Stop, second.Kill, second.Timeout = false, false, false
		second.FailK = append([]int{}, sc.FailK...)
		second.Init = info.Final
		if info.Snap != nil && rng.Intn(2) == 0 {
			second.Init = info.Snap // the run was killed at that instant
		}
		for i := range second.FailK {
			if rng.Intn(3) > 0 {
				second.FailK[i] = 0 // most steps succeed the second time
			}
		}
		if _, err := rig.RunSchedInfo(second, tr, logDir, false); err != nil {
			fmt.Fprintf(os.Stderr, "INFRA scenario %d: %v\n", second.ID, err)
			infra++
		}
		all = append(all, second)
	}
	f, err := os.Create(out)
	if err != nil {
		fmt.Fprintln(os.Stderr, "INFRA", err)
		return 2
	}
	rig.WriteND(f, tr.Events())
	f.Close()
	if dump != "" {
		df, _ := os.Create(dump)
		enc := json.NewEncoder(df)
		for _, sc := range all {
			enc.Encode(sc)
		}
		df.Close()
	}
	fmt.Printf("{\"scenarios\": %d, \"events\": %d, \"infra\": %d}\n", len(all), tr.Len(), infra)
	if infra > 3 {
		return 2
	}
	return 0
}
