package main

import (
	"bufio"
	"encoding/json"
	"flag"
	"fmt"
	"io"
	"log"
	"os"
	"strings"

	"github.com/ErdemOzgen/blackdagger/verifharness/rig"
)

func init() {
	cmds["histdrv"] = histDrvCmd
	cmds["histq"] = histQCmd
	cmds["crash"] = crashCmd
	cmds["savedrv"] = func(args []string) int {
		fs := flag.NewFlagSet("savedrv", flag.ExitOnError)
		dags := fs.String("dags", "", "dags dir")
		name := fs.String("name", "x", "dag name")
		text := fs.String("text", "B", "text id")
		fs.Parse(args)
		log.SetOutput(io.Discard)
		rig.SaveDriver(*dags, *name, *text)
		return 0
	}
	cmds["savecrash"] = func(args []string) int {
		fs := flag.NewFlagSet("savecrash", flag.ExitOnError)
		out := fs.String("out", "savecrash.ndjson", "records")
		fs.Parse(args)
		log.SetOutput(io.Discard)
		base, _ := os.MkdirTemp("", "vh-save-")
		defer os.RemoveAll(base)
		self, _ := os.Executable()
		of, err := os.Create(*out)
		if err != nil {
			fmt.Fprintln(os.Stderr, "INFRA", err)
			return 2
		}
		defer of.Close()
		enc := json.NewEncoder(of)
		n := 0
		if err := rig.SaveCrashSweep(self, base, func(e rig.Ev) { enc.Encode(e); n++ }); err != nil {
			fmt.Fprintln(os.Stderr, "INFRA", err)
			return 2
		}
		fmt.Printf("{\"records\": %d}\n", n)
		return 0
	}
}

// vh histdrv: the child that executes the crash part of a scenario (traced, killed by the supervisor)
func histDrvCmd(args []string) int {
	fs := flag.NewFlagSet("histdrv", flag.ExitOnError)
	dir := fs.String("dir", "", "data dir")
	scen := fs.String("scen", "", "scenario file")
	ack := fs.String("ack", "", "ack file")
	fs.Parse(args)
	log.SetOutput(io.Discard)
	b, err := os.ReadFile(*scen)
	var sc rig.CrashScenario
	if err == nil {
		err = json.Unmarshal(b, &sc)
	}
	if err != nil {
		fmt.Fprintln(os.Stderr, "INFRA", err)
		return 2
	}
	rig.ExecHistOps(*dir, sc.Names, sc.TodayOnly, sc.Ops, sc.NPrior, len(sc.Ops), *ack)
	return 0
}

// vh histq: fresh process asking every query
func histQCmd(args []string) int {
	fs := flag.NewFlagSet("histq", flag.ExitOnError)
	dir := fs.String("dir", "", "data dir")
	names := fs.String("names", "plain", "name table")
	today := fs.String("today", "false", "latestStatusToday")
	reqs := fs.String("reqs", "", "request ids")
	fs.Parse(args)
	log.SetOutput(io.Discard)
	ans := rig.HistAnswers(*dir, *names, *today == "true", strings.Split(*reqs, ","))
	json.NewEncoder(os.Stdout).Encode(ans)
	return 0
}

// vh crash -scenarios file -every n -out records
func crashCmd(args []string) int {
	fs := flag.NewFlagSet("crash", flag.ExitOnError)
	scfile := fs.String("scenarios", "", "scenario file (JSON lines)")
	every := fs.Int("every", 1, "use every n-th kill point")
	out := fs.String("out", "crash.ndjson", "records")
	fs.Parse(args)
	log.SetOutput(io.Discard)
	f, err := os.Open(*scfile)
	if err != nil {
		fmt.Fprintln(os.Stderr, "INFRA", err)
		return 2
	}
	var scs []rig.CrashScenario
	s := bufio.NewScanner(f)
	s.Buffer(make([]byte, 1<<20), 1<<26)
	for s.Scan() {
		if len(s.Bytes()) == 0 {
			continue
		}
		var sc rig.CrashScenario
		if err := json.Unmarshal(s.Bytes(), &sc); err != nil {
			fmt.Fprintln(os.Stderr, "INFRA", err)
			return 2
		}
		scs = append(scs, sc)
	}
	f.Close()
	base, err := os.MkdirTemp("", "vh-crash-")
	if err != nil {
		fmt.Fprintln(os.Stderr, "INFRA", err)
		return 2
	}
	defer os.RemoveAll(base)
	self, _ := os.Executable()
	of, err := os.Create(*out)
	if err != nil {
		fmt.Fprintln(os.Stderr, "INFRA", err)
		return 2
	}
	defer of.Close()
	enc := json.NewEncoder(of)
	enc.SetEscapeHTML(false)
	n := 0
	for _, sc := range scs {
		if err := rig.CrashSweep(self, sc, base, *every, func(e rig.Ev) { enc.Encode(e); n++ }); err != nil {
			fmt.Fprintln(os.Stderr, "INFRA", err)
			return 2
		}
	}
	fmt.Printf("{\"scenarios\": %d, \"records\": %d}\n", len(scs), n)
	return 0
}
