package main

import (
	"bufio"
	"encoding/json"
	"flag"
	"fmt"
	"io"
	"log"
	"os"

	"github.com/ErdemOzgen/blackdagger/verifharness/rig"
)

func init() { cmds["cache"] = cacheCmd }

// vh cache -scenarios file -out trace
func cacheCmd(args []string) int {
	fs := flag.NewFlagSet("cache", flag.ExitOnError)
	scfile := fs.String("scenarios", "", "scenario file (JSON lines)")
	out := fs.String("out", "cache.ndjson", "trace output")
	conc := fs.Bool("conc", false, "scenarios of HistoryConc.tla (a query while the recorder ends a run) instead of FileCache.tla")
	fs.Parse(args)
	log.SetOutput(io.Discard)
	f, err := os.Open(*scfile)
	if err != nil {
		fmt.Fprintln(os.Stderr, "INFRA", err)
		return 2
	}
	var scs []rig.CacheScenario
	var ccs []rig.ConcScenario
	s := bufio.NewScanner(f)
	s.Buffer(make([]byte, 1<<20), 1<<26)
	for s.Scan() {
		if len(s.Bytes()) == 0 {
			continue
		}
		if *conc {
			var cc rig.ConcScenario
			if err := json.Unmarshal(s.Bytes(), &cc); err != nil {
				fmt.Fprintln(os.Stderr, "INFRA", err)
				return 2
			}
			ccs = append(ccs, cc)
			continue
		}
		var sc rig.CacheScenario
		if err := json.Unmarshal(s.Bytes(), &sc); err != nil {
			fmt.Fprintln(os.Stderr, "INFRA", err)
			return 2
		}
		scs = append(scs, sc)
	}
	f.Close()
	base, err := os.MkdirTemp("", "vh-cache-")
	if err != nil {
		fmt.Fprintln(os.Stderr, "INFRA", err)
		return 2
	}
	defer os.RemoveAll(base)
	of, err := os.Create(*out)
	if err != nil {
		fmt.Fprintln(os.Stderr, "INFRA", err)
		return 2
	}
	defer of.Close()
	bw := bufio.NewWriterSize(of, 1<<20)
	enc := json.NewEncoder(bw)
	enc.SetEscapeHTML(false)
	n, infra := 0, 0
	for _, sc := range scs {
		if err := rig.RunCache(sc, base, func(e rig.Ev) { enc.Encode(e); n++ }); err != nil {
			infra++
		}
	}
	for _, cc := range ccs {
		if err := rig.RunConc(cc, base, func(e rig.Ev) { enc.Encode(e); n++ }); err != nil {
			infra++
		}
	}
	bw.Flush()
	fmt.Printf("{\"scenarios\": %d, \"events\": %d, \"infra\": %d}\n", len(scs)+len(ccs), n, infra)
	return 0
}
