package main

import (
	"flag"
	"fmt"
	"io"
	"log"
	"os"

	"github.com/ErdemOzgen/blackdagger/verifharness/rig"
)

func init() { cmds["auth"] = authCmd }

func authCmd(args []string) int {
	fs := flag.NewFlagSet("auth", flag.ExitOnError)
	out := fs.String("out", "auth.ndjson", "output")
	fs.Parse(args)
	log.SetOutput(io.Discard)
	var evs []rig.Ev
	// the chi request logger writes to stdout: silence it while the sweep runs
	so := os.Stdout
	devnull, _ := os.OpenFile(os.DevNull, os.O_WRONLY, 0)
	os.Stdout = devnull
	rig.AuthSweep(func(e rig.Ev) { evs = append(evs, e) })
	os.Stdout = so
	f, err := os.Create(*out)
	if err != nil {
		fmt.Fprintln(os.Stderr, "INFRA", err)
		return 2
	}
	defer f.Close()
	if err := rig.WriteND(f, evs); err != nil {
		fmt.Fprintln(os.Stderr, "INFRA", err)
		return 2
	}
	fmt.Printf("{\"records\": %d}\n", len(evs))
	return 0
}
