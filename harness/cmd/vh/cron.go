package main

import (
	"bufio"
	"encoding/json"
	"flag"
	"fmt"
	"io"
	"log"
	"math/rand"
	"os"

	"github.com/ErdemOzgen/blackdagger/verifharness/rig"
)

func init() { cmds["cron"] = cronCmd }

// vh cron -count N -seed S [-scenarios file] -out trace [-dump file]
func cronCmd(args []string) int {
	fs := flag.NewFlagSet("cron", flag.ExitOnError)
	scfile := fs.String("scenarios", "", "scenario file")
	count := fs.Int("count", 50, "random scenarios")
	seed := fs.Int64("seed", 1, "seed")
	first := fs.Int("first", 1, "first id")
	out := fs.String("out", "cron.ndjson", "output")
	dump := fs.String("dump", "", "write scenarios")
	fs.Parse(args)
	log.SetOutput(io.Discard)
	var scs []rig.CronScenario
	if *scfile != "" {
		f, err := os.Open(*scfile)
		if err != nil {
			fmt.Fprintln(os.Stderr, "INFRA", err)
			return 2
		}
		s := bufio.NewScanner(f)
		s.Buffer(make([]byte, 1<<20), 1<<26)
		for s.Scan() {
			if len(s.Bytes()) == 0 {
				continue
			}
			var sc rig.CronScenario
			if err := json.Unmarshal(s.Bytes(), &sc); err != nil {
				fmt.Fprintln(os.Stderr, "INFRA", err)
				return 2
			}
			scs = append(scs, sc)
		}
		f.Close()
	} else {
		r := rand.New(rand.NewSource(*seed))
		for i := 0; i < *count; i++ {
			scs = append(scs, rig.GenCron(*first+i, r))
		}
	}
	base, err := os.MkdirTemp("", "vh-cron-")
	if err != nil {
		fmt.Fprintln(os.Stderr, "INFRA", err)
		return 2
	}
	defer os.RemoveAll(base)
	f, err := os.Create(*out)
	if err != nil {
		fmt.Fprintln(os.Stderr, "INFRA", err)
		return 2
	}
	defer f.Close()
	bw := bufio.NewWriterSize(f, 1<<20)
	enc := json.NewEncoder(bw)
	enc.SetEscapeHTML(false)
	n := 0
	for _, sc := range scs {
		if err := rig.RunCron(sc, base, func(e rig.Ev) { enc.Encode(e); n++ }); err != nil {
			fmt.Fprintln(os.Stderr, "INFRA", err)
			return 2
		}
	}
	bw.Flush()
	if *dump != "" {
		df, _ := os.Create(*dump)
		de := json.NewEncoder(df)
		for _, sc := range scs {
			de.Encode(sc)
		}
		df.Close()
	}
	fmt.Printf("{\"scenarios\": %d, \"events\": %d}\n", len(scs), n)
	return 0
}
