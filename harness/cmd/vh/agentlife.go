package main

import (
	"encoding/json"
	"flag"
	"fmt"
	"io"
	"log"
	"os"

	"github.com/ErdemOzgen/blackdagger/verifharness/rig"
)

func init() { cmds["agentlife"] = agentLifeCmd }

// vh agentlife -bin <blackdagger> -mode kill|second -every n -out records
func agentLifeCmd(args []string) int {
	fs := flag.NewFlagSet("agentlife", flag.ExitOnError)
	bin := fs.String("bin", "", "the real binary")
	mode := fs.String("mode", "kill", "kill | second | stop | outcome")
	every := fs.Int("every", 1, "every n-th point")
	out := fs.String("out", "agentlife.ndjson", "records")
	fs.Parse(args)
	log.SetOutput(io.Discard)
	base, _ := os.MkdirTemp("", "vh-life-")
	defer os.RemoveAll(base)
	of, err := os.Create(*out)
	if err != nil {
		fmt.Fprintln(os.Stderr, "INFRA", err)
		return 2
	}
	defer of.Close()
	enc := json.NewEncoder(of)
	n := 0
	emit := func(e rig.Ev) { enc.Encode(e); n++ }
	if *mode == "kill" {
		err = rig.AgentKillSweep(*bin, base, *every, emit)
		if err == nil {
			err = rig.TruthRuns(*bin, base, emit)
		}
	} else if *mode == "stop" {
		err = rig.StopRuns(*bin, base, emit)
	} else if *mode == "window" {
		err = rig.RealWindowRuns(base, emit)
	} else if *mode == "outcome" {
		err = rig.OutcomeRuns(*bin, base, emit)
	} else {
		err = rig.SecondStartSweep(*bin, base, *every, emit)
	}
	if err != nil {
		fmt.Fprintln(os.Stderr, "INFRA", err)
		return 2
	}
	fmt.Printf("{\"records\": %d}\n", n)
	return 0
}
