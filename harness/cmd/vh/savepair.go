package main

import (
	"bufio"
	"encoding/json"
	"flag"
	"fmt"
	"io"
	"log"
	"os"
	"time"

	"github.com/ErdemOzgen/blackdagger/verifharness/rig"
)

func init() { cmds["savepair"] = savePairCmd }

// vh savepair -scenarios file -stress ms -out trace
func savePairCmd(args []string) int {
	fs := flag.NewFlagSet("savepair", flag.ExitOnError)
	scfile := fs.String("scenarios", "", "scenario file (JSON lines)")
	stress := fs.Int("stress", 1500, "free-running stage, milliseconds (0: none)")
	out := fs.String("out", "savepair.ndjson", "trace output")
	names := fs.Bool("names", false, "scenarios of DagNames.tla (create / rename of the same target) instead of DagStoreConc.tla")
	fs.Parse(args)
	log.SetOutput(io.Discard)
	var scs []rig.SavePairScenario
	var nss []rig.NamesScenario
	if *scfile != "" {
		f, err := os.Open(*scfile)
		if err != nil {
			fmt.Fprintln(os.Stderr, "INFRA", err)
			return 2
		}
		s := bufio.NewScanner(f)
		for s.Scan() {
			if len(s.Bytes()) == 0 {
				continue
			}
			if *names {
				var ns rig.NamesScenario
				if err := json.Unmarshal(s.Bytes(), &ns); err != nil {
					fmt.Fprintln(os.Stderr, "INFRA", err)
					return 2
				}
				nss = append(nss, ns)
				continue
			}
			var sc rig.SavePairScenario
			if err := json.Unmarshal(s.Bytes(), &sc); err != nil {
				fmt.Fprintln(os.Stderr, "INFRA", err)
				return 2
			}
			scs = append(scs, sc)
		}
		f.Close()
	}
	base, err := os.MkdirTemp("", "vh-pair-")
	if err != nil {
		fmt.Fprintln(os.Stderr, "INFRA", err)
		return 2
	}
	defer os.RemoveAll(base)
	of, err := os.Create(*out)
	if err != nil {
		fmt.Fprintln(os.Stderr, "INFRA", err)
		return 2
	}
	defer of.Close()
	enc := json.NewEncoder(of)
	n := 0
	for _, sc := range scs {
		rig.RunSavePair(sc, base, func(e rig.Ev) { enc.Encode(e); n++ })
	}
	for _, ns := range nss {
		rig.RunNames(ns, base, func(e rig.Ev) { enc.Encode(e); n++ })
	}
	if *stress > 0 && !*names {
		rig.SavePairStress(base, time.Duration(*stress)*time.Millisecond, func(e rig.Ev) { enc.Encode(e); n++ })
	}
	fmt.Printf("{\"scenarios\": %d, \"events\": %d}\n", len(scs)+len(nss), n)
	return 0
}
