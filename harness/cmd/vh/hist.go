package main

import (
	"bufio"
	"encoding/json"
	"flag"
	"fmt"
	"io"
	"log"
	"math/rand"
	"os"

	"github.com/ErdemOzgen/blackdagger/verifharness/rig"
)

func init() { cmds["hist"] = histCmd }

// vh hist -scenarios file | -count N -seed S  -out trace
func histCmd(args []string) int {
	fs := flag.NewFlagSet("hist", flag.ExitOnError)
	scfile := fs.String("scenarios", "", "scenario file (JSON lines)")
	count := fs.Int("count", 100, "random scenarios")
	seed := fs.Int64("seed", 1, "seed")
	first := fs.Int("first", 1, "first id")
	out := fs.String("out", "hist.ndjson", "trace output")
	dump := fs.String("dump", "", "write scenarios here")
	fs.Parse(args)
	log.SetOutput(io.Discard)
	var scs []rig.HistScenario
	if *scfile != "" {
		f, err := os.Open(*scfile)
		if err != nil {
			fmt.Fprintln(os.Stderr, "INFRA", err)
			return 2
		}
		s := bufio.NewScanner(f)
		s.Buffer(make([]byte, 1<<20), 1<<26)
		for s.Scan() {
			if len(s.Bytes()) == 0 {
				continue
			}
			var sc rig.HistScenario
			if err := json.Unmarshal(s.Bytes(), &sc); err != nil {
				fmt.Fprintln(os.Stderr, "INFRA", err)
				return 2
			}
			scs = append(scs, sc)
		}
		f.Close()
	} else {
		rng := rand.New(rand.NewSource(*seed))
		for i := 0; i < *count; i++ {
			scs = append(scs, rig.GenHist(*first+i, rng))
		}
	}
	base, err := os.MkdirTemp("", "vh-hist-")
	if err != nil {
		fmt.Fprintln(os.Stderr, "INFRA", err)
		return 2
	}
	defer os.RemoveAll(base)
	f, err := os.Create(*out)
	if err != nil {
		fmt.Fprintln(os.Stderr, "INFRA", err)
		return 2
	}
	defer f.Close()
	bw := bufio.NewWriterSize(f, 1<<20)
	enc := json.NewEncoder(bw)
	enc.SetEscapeHTML(false)
	n := 0
	for _, sc := range scs {
		rig.RunHist(sc, base, func(e rig.Ev) { enc.Encode(e); n++ })
	}
	bw.Flush()
	if *dump != "" {
		df, _ := os.Create(*dump)
		de := json.NewEncoder(df)
		for _, sc := range scs {
			de.Encode(sc)
		}
		df.Close()
	}
	fmt.Printf("{\"scenarios\": %d, \"events\": %d}\n", len(scs), n)
	return 0
}
