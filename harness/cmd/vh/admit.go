package main

import (
	"encoding/json"
	"flag"
	"fmt"
	"math/rand"
	"os"

	"github.com/ErdemOzgen/blackdagger/verifharness/rig"
)

func init() { cmds["admit"] = admitCmd }

// vh admit -mode all -n 4 | -mode noloops -n 5 [-from a -to b | -sample k] | -mode random -count k | -mode agent -count k
func admitCmd(args []string) int {
	fs := flag.NewFlagSet("admit", flag.ExitOnError)
	mode := fs.String("mode", "all", "all | noloops | random | agent")
	n := fs.Int("n", 4, "steps")
	from := fs.Uint64("from", 0, "first mask")
	to := fs.Uint64("to", 0, "last mask + 1 (0 = all)")
	sample := fs.Int("sample", 0, "sample this many masks instead of all")
	count := fs.Int("count", 100, "random graphs / agent runs")
	seed := fs.Int64("seed", 1, "seed")
	out := fs.String("out", "admit.ndjson", "output")
	depsJSON := fs.String("deps", "", "mode deps / agentdeps: the graph as JSON")
	fs.Parse(args)
	rng := rand.New(rand.NewSource(*seed))
	var evs []rig.Ev
	switch *mode {
	case "all", "noloops":
		bits := uint(*n * *n)
		dec := rig.DepsFromMask
		if *mode == "noloops" {
			bits = uint(*n * (*n - 1))
			dec = rig.DepsFromMaskNoLoops
		}
		total := uint64(1) << bits
		if *sample > 0 {
			for i := 0; i < *sample; i++ {
				evs = append(evs, rig.AdmitRecord(dec(*n, rng.Uint64()%total)))
			}
		} else {
			hi := total
			if *to > 0 && *to < total {
				hi = *to
			}
			for m := *from; m < hi; m++ {
				evs = append(evs, rig.AdmitRecord(dec(*n, m)))
			}
		}
	case "deps", "agentdeps":
		var deps [][]int
		if err := json.Unmarshal([]byte(*depsJSON), &deps); err != nil {
			fmt.Fprintln(os.Stderr, "INFRA", err)
			return 2
		}
		if *mode == "deps" {
			evs = append(evs, rig.AdmitRecord(deps))
		} else {
			base, _ := os.MkdirTemp("", "vh-admit-")
			defer os.RemoveAll(base)
			os.Setenv("HOME", base)
			evs = append(evs, rig.AdmitAgentRecord(0, deps, base))
		}
	case "random":
		for i := 0; i < *count; i++ {
			evs = append(evs, rig.AdmitRecord(rig.RandomDeps(rng)))
		}
	case "agent":
		base, err := os.MkdirTemp("", "vh-admit-")
		if err != nil {
			fmt.Fprintln(os.Stderr, "INFRA", err)
			return 2
		}
		defer os.RemoveAll(base)
		os.Setenv("HOME", base)
		for i := 0; i < *count; i++ {
			nn := 2 + rng.Intn(3)
			var deps [][]int
			switch rng.Intn(4) {
			case 0: // acyclic
				deps = rig.DepsFromMask(nn, 0)
				for a := 1; a < nn; a++ {
					if rng.Intn(2) == 0 {
						deps[a] = append(deps[a], rng.Intn(a)+1)
					}
				}
			case 1: // dangling
				deps = rig.DepsFromMask(nn, 0)
				deps[rng.Intn(nn)] = []int{0}
			default:
				deps = rig.DepsFromMask(nn, rng.Uint64()%(uint64(1)<<uint(nn*nn)))
			}
			evs = append(evs, rig.AdmitAgentRecord(i, deps, base))
		}
	}
	f, err := os.Create(*out)
	if err != nil {
		fmt.Fprintln(os.Stderr, "INFRA", err)
		return 2
	}
	defer f.Close()
	if err := rig.WriteND(f, evs); err != nil {
		fmt.Fprintln(os.Stderr, "INFRA", err)
		return 2
	}
	fmt.Printf("{\"records\": %d}\n", len(evs))
	return 0
}
