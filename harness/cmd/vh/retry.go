package main

import (
	"bufio"
	"encoding/json"
	"flag"
	"fmt"
	"os"

	"github.com/ErdemOzgen/blackdagger/verifharness/rig"
)

func init() { cmds["retrygraph"] = retryGraphCmd }

// vh retrygraph -n 3 [-from a -to b] -out file
func retryGraphCmd(args []string) int {
	fs := flag.NewFlagSet("retrygraph", flag.ExitOnError)
	n := fs.Int("n", 3, "steps")
	from := fs.Int("from", 0, "first edge mask")
	to := fs.Int("to", 0, "last edge mask + 1")
	out := fs.String("out", "retry.ndjson", "output")
	one := fs.String("one", "", "JSON file with one record input (n, deps, contF, contS, before): replay")
	fs.Parse(args)
	if *one != "" {
		b, err := os.ReadFile(*one)
		var in struct {
			Deps   [][]int  `json:"deps"`
			ContF  []bool   `json:"contF"`
			ContS  []bool   `json:"contS"`
			Before []string `json:"before"`
		}
		if err == nil {
			err = json.Unmarshal(b, &in)
		}
		if err != nil {
			fmt.Fprintln(os.Stderr, "INFRA", err)
			return 2
		}
		f, _ := os.Create(*out)
		defer f.Close()
		json.NewEncoder(f).Encode(rig.RetryGraphRecord(in.Deps, in.ContF, in.ContS, in.Before))
		fmt.Println("{\"records\": 1}")
		return 0
	}
	f, err := os.Create(*out)
	if err != nil {
		fmt.Fprintln(os.Stderr, "INFRA", err)
		return 2
	}
	defer f.Close()
	bw := bufio.NewWriterSize(f, 1<<20)
	enc := json.NewEncoder(bw)
	cnt := rig.RetrySweep(*n, *from, *to, func(e rig.Ev) { enc.Encode(e) })
	bw.Flush()
	fmt.Printf("{\"records\": %d}\n", cnt)
	return 0
}
