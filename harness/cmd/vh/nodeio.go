package main

import (
	"bufio"
	"bytes"
	"os/exec"
	"strings"
	"encoding/json"
	"flag"
	"fmt"
	"io"
	"log"
	"os"

	"github.com/ErdemOzgen/blackdagger/verifharness/rig"
)

func init() {
	cmds["emit"] = func(args []string) int {
		fs := flag.NewFlagSet("emit", flag.ExitOnError)
		state := fs.String("state", "", "attempt counter file")
		nout := fs.Int("out", 0, "bytes on stdout")
		nerr := fs.Int("err", 0, "bytes on stderr")
		fail := fs.Int("fail", 0, "fail while attempt <= this")
		order := fs.String("order", "outfirst", "outfirst | errfirst | chunks")
		fs.Parse(args)
		return rig.EmitChild(*state, *nout, *nerr, *fail, *order)
	}
	cmds["nodeio"] = nodeioCmd
	cmds["nodeio1"] = func(args []string) int {
		log.SetOutput(io.Discard)
		var sc rig.IOScenario
		if err := json.NewDecoder(os.Stdin).Decode(&sc); err != nil {
			fmt.Fprintln(os.Stderr, "INFRA", err)
			return 2
		}
		os.Setenv("HOME", args[0])
		self, _ := os.Executable()
		json.NewEncoder(os.Stdout).Encode(rig.RunNodeIO(self, sc, args[0]))
		return 0
	}
}

// vh nodeio -scenarios file -out records
func nodeioCmd(args []string) int {
	fs := flag.NewFlagSet("nodeio", flag.ExitOnError)
	scfile := fs.String("scenarios", "", "scenario file")
	out := fs.String("out", "nodeio.ndjson", "records")
	fs.Parse(args)
	log.SetOutput(io.Discard)
	f, err := os.Open(*scfile)
	if err != nil {
		fmt.Fprintln(os.Stderr, "INFRA", err)
		return 2
	}
	var scs []rig.IOScenario
	s := bufio.NewScanner(f)
	s.Buffer(make([]byte, 1<<20), 1<<26)
	for s.Scan() {
		if len(s.Bytes()) == 0 {
			continue
		}
		var sc rig.IOScenario
		if err := json.Unmarshal(s.Bytes(), &sc); err != nil {
			fmt.Fprintln(os.Stderr, "INFRA", err)
			return 2
		}
		scs = append(scs, sc)
	}
	f.Close()
	base, _ := os.MkdirTemp("", "vh-io-")
	defer os.RemoveAll(base)
	os.Setenv("HOME", base)
	self, _ := os.Executable()
	of, err := os.Create(*out)
	if err != nil {
		fmt.Fprintln(os.Stderr, "INFRA", err)
		return 2
	}
	defer of.Close()
	enc := json.NewEncoder(of)
	for _, sc := range scs {
		// one child process per scenario: the step runs inside this harness's own process image, and a defect in the
		// output plumbing can crash it (concurrent writers on one buffer); that is a record, not the end of the sweep
		in, _ := json.Marshal(sc)
		c := exec.Command(self, "nodeio1", base)
		c.Stdin = bytes.NewReader(in)
		var ob, eb bytes.Buffer
		c.Stdout, c.Stderr = &ob, &eb
		err := c.Run()
		var rec rig.Ev
		if err == nil && json.Unmarshal(ob.Bytes(), &rec) == nil {
			enc.Encode(rec)
			continue
		}
		first := strings.SplitN(strings.TrimSpace(eb.String()), "\n", 2)[0]
		enc.Encode(rig.CrashedIORecord(sc, first))
	}
	fmt.Printf("{\"records\": %d}\n", len(scs))
	return 0
}
