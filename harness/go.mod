module github.com/ErdemOzgen/blackdagger/verifharness

go 1.22.5

require github.com/ErdemOzgen/blackdagger v0.0.0

require (
	github.com/docker/distribution v2.8.1+incompatible // indirect
	github.com/docker/docker v20.10.21+incompatible // indirect
	github.com/docker/go-connections v0.4.0 // indirect
	github.com/docker/go-units v0.5.0 // indirect
	github.com/go-resty/resty/v2 v2.7.0 // indirect
	github.com/gogo/protobuf v1.3.2 // indirect
	github.com/imdario/mergo v0.3.16 // indirect
	github.com/itchyny/gojq v0.12.12 // indirect
	github.com/itchyny/timefmt-go v0.1.5 // indirect
	github.com/mattn/go-shellwords v1.0.12 // indirect
	github.com/mitchellh/mapstructure v1.5.0 // indirect
	github.com/opencontainers/go-digest v1.0.0 // indirect
	github.com/opencontainers/image-spec v1.0.2 // indirect
	github.com/pkg/errors v0.9.1 // indirect
	github.com/robfig/cron/v3 v3.0.1 // indirect
	github.com/samber/lo v1.38.1 // indirect
	github.com/samber/slog-multi v1.2.0 // indirect
	github.com/sirupsen/logrus v1.9.3 // indirect
	golang.org/x/crypto v0.26.0 // indirect
	golang.org/x/exp v0.0.0-20240222234643-814bf88cf225 // indirect
	golang.org/x/net v0.28.0 // indirect
	golang.org/x/sys v0.30.0 // indirect
	gopkg.in/yaml.v2 v2.4.0 // indirect
)

replace github.com/ErdemOzgen/blackdagger => /repo
