module github.com/ErdemOzgen/blackdagger/verifharness

go 1.22.5

require (
	github.com/ErdemOzgen/blackdagger v0.0.0
	github.com/go-openapi/loads v0.22.0
	github.com/go-openapi/runtime v0.28.0
	golang.org/x/sys v0.30.0
	gopkg.in/yaml.v2 v2.4.0
)

require (
	github.com/adrg/xdg v0.5.0 // indirect
	github.com/asaskevich/govalidator v0.0.0-20230301143203-a9d515a09cc2 // indirect
	github.com/docker/distribution v2.8.1+incompatible // indirect
	github.com/docker/docker v20.10.21+incompatible // indirect
	github.com/docker/go-connections v0.4.0 // indirect
	github.com/docker/go-units v0.5.0 // indirect
	github.com/fsnotify/fsnotify v1.8.0 // indirect
	github.com/go-chi/chi/v5 v5.0.8 // indirect
	github.com/go-openapi/analysis v0.23.0 // indirect
	github.com/go-openapi/errors v0.22.0 // indirect
	github.com/go-openapi/jsonpointer v0.21.0 // indirect
	github.com/go-openapi/jsonreference v0.21.0 // indirect
	github.com/go-openapi/spec v0.21.0 // indirect
	github.com/go-openapi/strfmt v0.23.0 // indirect
	github.com/go-openapi/swag v0.23.0 // indirect
	github.com/go-openapi/validate v0.24.0 // indirect
	github.com/go-resty/resty/v2 v2.7.0 // indirect
	github.com/gogo/protobuf v1.3.2 // indirect
	github.com/google/uuid v1.6.0 // indirect
	github.com/hashicorp/hcl v1.0.0 // indirect
	github.com/imdario/mergo v0.3.16 // indirect
	github.com/itchyny/gojq v0.12.12 // indirect
	github.com/itchyny/timefmt-go v0.1.5 // indirect
	github.com/jedib0t/go-pretty/v6 v6.3.6 // indirect
	github.com/jessevdk/go-flags v1.5.0 // indirect
	github.com/josharian/intern v1.0.0 // indirect
	github.com/magiconair/properties v1.8.7 // indirect
	github.com/mailru/easyjson v0.7.7 // indirect
	github.com/mattn/go-runewidth v0.0.14 // indirect
	github.com/mattn/go-shellwords v1.0.12 // indirect
	github.com/mitchellh/mapstructure v1.5.0 // indirect
	github.com/oklog/ulid v1.3.1 // indirect
	github.com/opencontainers/go-digest v1.0.0 // indirect
	github.com/opencontainers/image-spec v1.0.2 // indirect
	github.com/pelletier/go-toml/v2 v2.2.2 // indirect
	github.com/pkg/errors v0.9.1 // indirect
	github.com/rivo/uniseg v0.4.4 // indirect
	github.com/robfig/cron/v3 v3.0.1 // indirect
	github.com/sagikazarmark/slog-shim v0.1.0 // indirect
	github.com/samber/lo v1.38.1 // indirect
	github.com/samber/slog-multi v1.2.0 // indirect
	github.com/sirupsen/logrus v1.9.3 // indirect
	github.com/spf13/afero v1.11.0 // indirect
	github.com/spf13/cast v1.6.0 // indirect
	github.com/spf13/pflag v1.0.5 // indirect
	github.com/spf13/viper v1.18.2 // indirect
	github.com/subosito/gotenv v1.6.0 // indirect
	go.mongodb.org/mongo-driver v1.14.0 // indirect
	golang.org/x/crypto v0.26.0 // indirect
	golang.org/x/exp v0.0.0-20240222234643-814bf88cf225 // indirect
	golang.org/x/net v0.28.0 // indirect
	golang.org/x/sync v0.8.0 // indirect
	golang.org/x/text v0.17.0 // indirect
	gopkg.in/ini.v1 v1.67.0 // indirect
	gopkg.in/yaml.v3 v3.0.1 // indirect
)

replace github.com/ErdemOzgen/blackdagger => /repo
