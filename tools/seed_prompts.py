#!/usr/bin/env python3
"""Writes the prompts for the independent sub-agents that produce seeded defects: /tmp/seed/prompts/<Cxx>-<variant>.txt.
A sub-agent gets only the property text and a scratch git worktree of /repo - nothing from /verif."""
import json, os, sys
props = {json.loads(l)['id']: json.loads(l) for l in open('/verif/properties.jsonl')}
TMPL = '''You are helping to evaluate a verification framework by producing a *seeded defect* for an open-source Go project. Work ONLY inside the git worktree {wt} (a checkout of ErdemOzgen/blackdagger, a dagu-style YAML DAG workflow runner). Do not read or touch /verif or /repo (everything you need is in your worktree). The sandbox is offline; before any go command run: export GOFLAGS=-mod=mod GOPROXY=off GOSUMDB=off GOTOOLCHAIN=local

The property that must hold for this code base (id {pid}: {title}):

"{statement}"

It is quantified over: {quant}

Relevant files: {files}

(Files named verif_on.go / verif_off.go and calls to verifPoint/verifTrace/verifInvoke/verifPause are inert test hooks behind a build tag; ignore them and leave them alone.)

Your task: make a small, realistic change to the NON-TEST source code in the worktree (the kind of mistake a maintainer could plausibly make in a refactoring or "optimisation": a wrong condition, a dropped check, a reordered pair of statements, an off-by-one, a stale variable, two sites that each look fine alone) such that
 1. the project still compiles (go build ./...) and the EXISTING test suite still passes: run `go test -vet=off -count=1 -timeout 25m ./...` in the worktree. Note these tests fail even on the untouched tree and may be ignored: internal/client TestClient_RunDAG (and subtests), internal/persistence/jsondb TestWriterErrorHandling/OpenNonExistentDirectory. `internal/agent TestAgent_HandleHTTP` is flaky under load; re-run that package alone if it fails.
 2. the property above is violated by the changed code, but NOT in a way that ordinary use would expose at once: the violation should need something specific to manifest - a particular interleaving of goroutines/processes, a crash or fault at a particular point, a multi-step sequence of operations, an unusual input, a particular configuration combination, or two cooperating sites.
 3. you provide a demonstration: a Go test file (or small program) that you add in the worktree which FAILS with your change and PASSES without it (verify both directions yourself: copy the changed file aside, `git checkout -- <file>`, run, copy it back; do NOT use git stash, it is shared between worktrees). Put the demonstration in a new file whose name starts with `seeded_demo` (e.g. internal/dag/scheduler/seeded_demo_test.go). It may use sleeps/polling/any deterministic trick to force the needed situation.

Do not edit existing tests. Do not change the hooks. Keep the change minimal (a few lines). Do not make the change depend on environment variables or magic input strings (no "if name == special"): it must be a plausible bug, not a backdoor.

When done, leave the worktree with BOTH the source change and the demo file present (uncommitted), and reply with: (a) the unified diff of the source change only (git diff -- . ':!*seeded_demo*'), (b) the path of the demo file and the exact command to run it, (c) what is needed for the violation to manifest, (d) confirmation of the results of the existing suite with the change and of the demo with/without the change. If after serious effort you cannot find such a change that passes the existing tests, say so and describe what you tried.'''
EXTRA = {
 'b': "\n\nPlease prefer a change in a DIFFERENT part of the mechanism than the most obvious one (e.g. not the first condition one would think of), so that it complements another seeded defect that targets the obvious site.",
 'd': "\n\nPlease make the violation depend on the INTERPLAY of two features or two processes (for example retries with a stop request, repeating steps with a limit, handlers with a timeout, two commands issued at the same moment, a crash followed by another operation), in code that looks as if it had been touched recently (comments explaining a protocol, locks, flags that several functions share).",
 'c': "\n\nPlease target a clause of the property that is easy to overlook (the last sentence, a side condition, an 'even when ...' part) rather than its headline.",
}
os.makedirs('/tmp/seed/prompts', exist_ok=True)
for pid, p in props.items():
    for suf in 'abcd':
        t = TMPL.format(wt='/tmp/seed/%s-%s' % (pid, suf), pid=pid, title=p['title'], statement=p['statement'], quant=p['quantifier']['text'], files=', '.join(p['anchors']['files']))
        open('/tmp/seed/prompts/%s-%s.txt' % (pid, suf), 'w').write(t + EXTRA.get(suf, ''))
print("prompts written")
