#!/bin/bash
# seed_harvest.sh <worktree> <seed-id> <property>: store patch + demo of a seeded defect under /verif/seeded/<seed-id>/
# and confirm the demonstration both ways in the worktree (fails with the change, passes without).
set -u
WT=$1; ID=$2; PROP=$3
export GOFLAGS=-mod=mod GOPROXY=off GOSUMDB=off GOTOOLCHAIN=local
D=/verif/seeded/$ID; mkdir -p $D/demo
cd $WT || exit 2
git diff -- . ':!*seeded_demo*' > $D/patch.diff
[ -s $D/patch.diff ] || { echo "empty patch"; exit 2; }
DEMOS=$(git ls-files --others --exclude-standard | grep seeded_demo)
for f in $DEMOS; do mkdir -p $D/demo/$(dirname $f); cp $f $D/demo/$f; done
PKGS=$(for f in $DEMOS; do echo ./$(dirname $f)/; done | sort -u)
TAGS=""; grep -l 'go:build verif' $DEMOS >/dev/null 2>&1 && TAGS="-tags verif"
echo "demo packages: $PKGS $TAGS"
go build ./... || { echo "BUILD FAILS"; exit 1; }
go test $TAGS -vet=off -count=1 -run 'SeededDemo|Seeded' $PKGS > $D/demo_with.log 2>&1; W=$?
git stash push -q -- $(git diff --name-only -- . ':!*seeded_demo*')
go test $TAGS -vet=off -count=1 -run 'SeededDemo|Seeded' $PKGS > $D/demo_without.log 2>&1; WO=$?
git stash pop -q
echo "demo with change: rc=$W (expect != 0); without: rc=$WO (expect 0)"
echo "{\"demo_with_rc\": $W, \"demo_without_rc\": $WO, \"demo_cmd\": \"go test $TAGS -vet=off -count=1 -run 'SeededDemo|Seeded' $PKGS\", \"property\": \"$PROP\"}" > $D/confirm.json
