#!/bin/sh
# Offline set-up after a fresh restore: build the conformance harness against /repo (hooks on).
set -e
cd "$(dirname "$0")/.."
export GOFLAGS=-mod=mod GOPROXY=off GOSUMDB=off GOTOOLCHAIN=local
mkdir -p build evidence
cp /repo/go.sum harness/go.sum
(cd harness && go build -tags verif -o ../build/vh ./cmd/vh)
command -v tlc >/dev/null
command -v apalache-mc >/dev/null   # C06: inductive invariant of the cache model
echo "setup ok"
