#!/usr/bin/env python3
"""Binding self-test: a trace recorded from the real code is accepted by its trace specification, and the same trace with
ONE field corrupted or ONE line removed is rejected (a verdict or a drift line). Shows that the trace specifications
constrain more than the length of the trace. Usage: tools/selftest_binding.py  (about a minute; exit 0 = all as expected)."""
import json, os, shutil, subprocess, sys, tempfile
sys.path.insert(0, os.path.join(os.path.dirname(os.path.abspath(__file__)), "..", "lib"))
import vp, record_checks as rc


def S(l):
    return [{"a": x.split()[0], "r": (x.split() + [""])[1]} for x in l]


CASES = [
    # (name, vh arguments, scenario, trace module, corruptions: (description, function(lines) -> lines))
    ("FileCacheTrace", ["cache"], {"scen": 1, "src": "selftest", "query": "recent", "recording": True,
                                   "steps": S(["check q1", "load q1", "store q1", "append", "check q2", "load q2", "store q2", "check q1", "hit q1"])},
     "FileCacheTrace",
     [("a returned status changed", lambda L: edit(L, lambda e: e.get("a") == "hit", "ret", 0)),
      ("the append removed", lambda L: drop(L, lambda e: e.get("a") == "append")),
      ("a store turned into a hit", lambda L: edit(L, lambda e: e.get("a") == "store" and e.get("r") == "q2", "a", "hit"))]),
    ("HistoryConcTrace", ["cache", "-conc"], {"scen": 1, "src": "selftest", "query": "recent", "n": 2,
                                              "steps": S(["ccreate", "list", "visit", "cwrite", "visit", "cunlink", "visit", "return"])},
     "HistoryConcTrace",
     [("the answer changed", lambda L: edit(L, lambda e: e.get("a") == "return", "answer", [1])),
      ("the unlink removed, a relist invented", lambda L: edit(L, lambda e: e.get("a") == "visit" and e.get("kind") == "orig", "a", "relist")),
      ("a visited file changed", lambda L: edit(L, lambda e: e.get("a") == "visit" and e.get("kind") == "comp" and e.get("run") == 2, "run", 1))]),
    ("DagStoreConcTrace", ["savepair", "-stress", "0"], {"scen": 1, "src": "selftest", "steps": S(["write a", "write b", "rename a", "rename b"])},
     "DagStoreConcTrace",
     [("the content after a rename changed", lambda L: edit(L, lambda e: e.get("a") == "rename" and e.get("r") == "a", "content", "b")),
      ("a rename reported as refused", lambda L: edit(L, lambda e: e.get("a") == "rename" and e.get("r") == "b", "ok", False)),
      ("a half-written definition observed", lambda L: edit(L, lambda e: e.get("a") == "write" and e.get("r") == "b", "content", "partial"))]),
    ("DagNamesTrace", ["savepair", "-names"], {"scen": 1, "src": "selftest", "steps": S(["check c1", "check c2", "act c1", "save", "act c2", "check r"])},
     "DagNamesTrace",
     [("the second create reported as accepted", lambda L: edit(L, lambda e: e.get("a") == "act" and e.get("r") == "c2", "res", "ok")),
      ("the definition replaced by the template", lambda L: edit(L, lambda e: e.get("a") == "act" and e.get("r") == "c2", "n", "tpl:c2")),
      ("the save removed", lambda L: drop(L, lambda e: e.get("a") == "save"))]),
]


def edit(lines, pred, key, val):
    out, done = [], False
    for l in lines:
        e = json.loads(l)
        if not done and pred(e):
            e[key] = val
            done = True
        out.append(json.dumps(e))
    assert done, "corruption did not apply"
    return out


def drop(lines, pred):
    out, done = [], False
    for l in lines:
        if not done and pred(json.loads(l)):
            done = True
            continue
        out.append(l)
    assert done, "corruption did not apply"
    return out


def verdicts(work, module, lines, tag):
    d = os.path.join(work, tag)
    os.makedirs(d)
    t = os.path.join(d, "trace.ndjson")
    open(t, "w").write("\n".join(lines) + "\n")
    try:
        v, consumed, _ = vp.observe(d, module, t)
    except vp.Infra as e:
        return ["REJECTED(not consumed)"]
    return sorted({c for x in v for c in x["viol"]})


def main():
    vh = vp.build_harness()
    work = vp.scratch("selftest")
    bad = 0
    try:
        for name, args, scen, module, corruptions in CASES:
            sf = os.path.join(work, name + ".jsonl")
            open(sf, "w").write(json.dumps(scen) + "\n")
            tr = os.path.join(work, name + ".ndjson")
            rc.run_vh(vh, args + ["-scenarios", sf, "-out", tr])
            lines = [l for l in open(tr).read().splitlines() if l.strip()]
            clean = verdicts(work, module, lines, name + "-clean")
            print("%-18s recorded trace (%d lines): %s" % (name, len(lines), "accepted" if not clean else "REJECTED %s" % clean))
            bad += bool(clean)
            for k, (desc, f) in enumerate(corruptions):
                v = verdicts(work, module, f(lines), "%s-c%d" % (name, k))
                print("%-18s   %-45s -> %s" % ("", desc, ", ".join(v) if v else "ACCEPTED (binding too weak)"))
                bad += not v
    finally:
        shutil.rmtree(work, ignore_errors=True)
    print("selftest: %s" % ("ok" if not bad else "%d unexpected results" % bad))
    return 1 if bad else 0


if __name__ == "__main__":
    sys.exit(main())
