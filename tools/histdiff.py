#!/usr/bin/env python3
# histdiff.py <tlc-output> <trace.ndjson>: compact view of C06 mismatches (scenario names, op, which answers)
import sys, json
tr = [json.loads(l) for l in open(sys.argv[2])]
seen = 0
for l in open(sys.argv[1]):
    if '"DETAIL ' not in l: continue
    d = json.loads(json.loads(l)[7:])
    line = d['line']; e = tr[line-1]
    # find scenario start
    k = line-1
    while tr[k]['ev'] != 'Reset': k -= 1
    ops = [ {x:y for x,y in o.items() if x not in ('ans','ev','err')} for o in tr[k+1:line]]
    print('scen', d['scen'], tr[k]['names'], 'todayOnly', tr[k]['todayOnly'], 'viol', d['viol'], 'sameSecond', d['sameSecond'])
    for o in ops: print('   ', o)
    print('    answers:', json.dumps(e['ans'])[:600])
    seen += 1
    if seen >= int(sys.argv[3]) : break
