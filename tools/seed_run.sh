#!/bin/bash
# seed_run.sh <seed-id> <property> [tier]: apply the seeded patch to /repo, run the check, undo the patch.
ID=$1; PROP=$2; TIER=${3:-quick}
cd /verif
git -C /repo apply /verif/seeded/$ID/patch.diff || { echo "patch does not apply"; exit 2; }
trap 'git -C /repo checkout -- . ' EXIT
VERIF_SCRATCH=${VERIF_SCRATCH:-} bin/check $PROP --tier $TIER > /tmp/seedrun-$ID-$PROP.log 2>&1
rc=$?
grep -E '^(VIOLATION|KNOWN-FINDING|DRIFT|OK|FAIL|INFRA)' /tmp/seedrun-$ID-$PROP.log | cut -c1-220 | head -12
echo "seed=$ID prop=$PROP tier=$TIER rc=$rc"
cp evidence/$PROP.json /tmp/seedrun-$ID-$PROP.evidence.json 2>/dev/null
git -C /verif checkout -- evidence/$PROP.json 2>/dev/null
exit 0
