#!/bin/bash
# runall.sh <tier> <seed...>: runs every registered check for the given seeds, prints one summary line each
TIER=$1; shift
cd "$(dirname "$0")/.."
for s in "$@"; do
  for p in C01 C02 C03 C04 C05 C06 C07 C08 C09 C10 C11 C12 C13 C14 C15 C16 C17 C18 C19 C20; do
    t0=$(date +%s)
    out=$(VERIF_SEED=$s bin/check $p --tier $TIER 2>&1); rc=$?
    echo "$p seed=$s rc=$rc $(($(date +%s)-t0))s $(echo "$out" | grep -cE '^VIOLATION') viol; $(echo "$out" | grep -E '^(KNOWN-FINDING|DRIFT|INFRA)' | cut -c1-60 | tr '\n' '|')"
  done
done
