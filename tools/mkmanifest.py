#!/usr/bin/env python3
"""Regenerates /verif/MANIFEST.json from the table below (one place to keep it valid)."""
import json, os, subprocess
V = os.path.dirname(os.path.dirname(os.path.abspath(__file__)))

CHECKS = {}   # id -> dict(level, text, note, technique, engine, design)
NA = {}       # id -> reason

def add(pid, level, text, note, technique, engine, design):
    CHECKS[pid] = dict(level=level, text=text, note=note, technique=technique, engine=engine, design=design)

SCHED_NOTE = ("trusted: TLC, the gate hooks (build tag verif) and the scripted executor standing in for child processes; "
              "exhaustive only within the model's bounds (3 steps, listed configurations); real-code runs are sampled "
              "(model behaviours, seeded gate schedules, free runs)")
SCHED_TECH = "TLA+ model StepSched checked by TLC + trace validation of gate-controlled runs of the real scheduler (SchedObserve monitors, StepSchedTrace conformance)"
add("C01", "model_checking", "TLC proves the start guard on the implementation-shaped model for every 3-step DAG shape/continueOn/precondition/retry/limit configuration; "
    "the same operator (Props_Sched!C01_StartOK) is evaluated by TLC at every ExecBegin of traces recorded from the real scheduler driven through gates "
    "(TLC-generated behaviours, seeded schedules, free runs); strict conformance of the traces with the model is checked too", SCHED_NOTE, SCHED_TECH, "sched", "5/C01")
add("C02", "model_checking", "final-state consistency (Props_Sched!C02_Local) is an invariant of the model at Returned and a monitor on every real run that was not stopped", SCHED_NOTE, SCHED_TECH, "sched", "5/C02")
add("C03", "model_checking", "execution-count bounds, retry accounting, no-ghost-success and dry-run clauses: invariants of the model, monitors on real traces; model counter-examples under stop are replayed as leads", SCHED_NOTE, SCHED_TECH, "sched", "5/C03")
add("C04", "model_checking", "run outcome and handler sequence: invariants of the model (all handler subsets), monitors on real traces incl. stop at arbitrary gates; plus 72 runs of the real binary (6 step scripts incl. stopped and DAG precondition unmet x 5 handler sets x mail on/off x failing handlers): persisted status, exit code, handlers that ran and mails received by a local SMTP sink, judged by AgentLifeObserve with the model's ExpectedHandlers", SCHED_NOTE, SCHED_TECH, "sched", "5/C04")
add("C05", "model_checking", "no start after stop / signal reaches live processes / kill escalation / timeout: invariants and a liveness property of the model, monitors on real traces with obeying and ignoring scripted processes; plus four runs of the real binary stopped with the real stop command (shell step obeying SIGTERM / ignoring it / wanting signalOnStop SIGINT / repeating), judged by AgentLifeObserve's C05 clauses", SCHED_NOTE, SCHED_TECH, "sched", "5/C05")
add("C15", "model_checking", "high-water mark of executing steps <= maxActiveRuns as model invariant plus liveness (run ends under every limit) and as monitor at every ExecBegin of real traces; incl. repeating steps that go on after a failed iteration (config family RepeatLimit / generator family replimit)", SCHED_NOTE, SCHED_TECH, "sched", "5/C15")

REC_NOTE = "trusted: TLC evaluating the declarative operator, the harness driver that calls the real functions and writes the records"
add("C14", "model_checking", "Admission.tla models setup/findStep/Kahn's algorithm and TLC proves verdict = declarative Admissible for every graph on N steps (quick 3, thorough 4) incl. self loops and a dangling entry; "
    "the real NewExecutionGraph is run on every edge set on 2-4 steps, loop-free 5-step sets (quick: 20000 sampled, thorough: all 2^20), random graphs up to 40 steps and the real agent.Run on samples, and TLC judges every record with the same operator",
    REC_NOTE, "TLA+ model of the admission algorithm vs declarative definition (TLC) + exhaustive enumeration of graphs through the real code judged by TLC", "admit", "5/C14")

add("C17", "model_checking", "Auth.tla models the chain prefixChecker -> BasicAuth -> TokenAuth -> handler over an atom grammar of Authorization headers; TLC checks MustPass/MustDeny on all 32256 abstract requests; "
    "every abstract request x 4 methods (107776) is rendered and sent through the real middleware.Setup + SetupGlobalMiddleware, and TLC judges each record with the same MustPass/MustDeny and compares the outcome with the model's decision (drift)",
    REC_NOTE + "; secrets are three fixed strings, the header grammar is the listed scheme x separator x payload classes", "TLA+ pipeline model (TLC, exhaustive over the abstract request space) + the same space replayed through the real middleware chain, records judged by TLC", "auth", "5/C17")
add("C10", "model_checking", "RetryGraph.tla models the frontier walk of setupRetry and TLC proves it equal to the declarative closure ReRun on every 3-step DAG x consistent status vector; Consistent is an invariant of StepSched (every vector a run can leave behind); "
    "the real NewExecutionGraphForRetry is run on every DAG x vector (2-3 steps quick, 4 thorough) and real retry runs (first run stopped/failed/killed-at-move, then retried through the gates) are validated by SchedObserve's C10 clauses",
    SCHED_NOTE, "TLA+ model of the retry walk vs declarative closure (TLC) + exhaustive records and gate-driven retry runs of the real scheduler judged by TLC", "sched", "5/C10")

add("C06", "model_checking", "History.tla specifies the store at call granularity with the three queries as operators; TLC checks frame conditions, rename-carries-all and retention-only-old as action properties of the design (MCHistory); "
    "operation sequences generated by TLC simulation of that model and by a seeded generator are executed on the real jsondb with 8 awkward name tables and close start stamps, and after EVERY operation every query answer for every DAG is compared by TLC with the model (HistoryTrace); "
    "FileCache.tla models the status cache at the grain of LoadLatest's own steps under overlapping queries, appends and manual updates (TLC: no query returns an older status than the file held when it looked, none panics; Apalache: an inductive invariant implying both, for any number of writes and queries); "
    "its simulated behaviours and counter-examples are replayed through the verif gates of the real filecache under the real jsondb and every gate passage and returned status is validated by TLC (FileCacheTrace); "
    "HistoryConc.tla models a query (listing, then one read per file) against the recorder's compaction and the next run's opening; its behaviours are replayed through gates in jsondb and the answer must be one the store would have given at some moment while the query ran (HistoryConcTrace)",
    REC_NOTE + "; status payloads are opaque ids; Apalache + Z3 for the inductive invariant of the cache model; the cache / compaction interleavings are those at the gates of the verif build", "TLA+ models of the history store, of its status cache and of a query against the compaction (TLC, Apalache) + TLC-generated operation sequences and schedules replayed on the real jsondb / filecache, every answer and gate passage validated against the models by TLC", "hist", "5/C06")

add("C07", "fault_enumeration", "a child process executing history operations on the real jsondb is SIGKILLed by a ptrace supervisor at the entry of every mutating system call under the data directory and at three torn prefixes of every write; "
    "a fresh process asks all queries; TLC judges every record: the answers must fit one of the legal states between 'acknowledged operations applied' and 'operation in flight applied too' (CrashObserve, History semantics); "
    "HistoryFS.tla models the same code at system-call grain with Crash enabled everywhere and TLC checks the C07 invariants on it",
    "trusted: the ptrace supervisor (global syscall order over all threads), TLC, the driver; process crash not power loss; every kill point of the listed scenarios, not every scenario", "ptrace kill-point enumeration on the real store + TLA+ syscall-grain model (TLC) + records judged by TLC", "crash", "5/C07")

add("C09", "model_checking", "CronDaemon.tla models tick loop, late and bunched ticks, restart, suspend, start visibility delay and the job guard; TLC checks only-scheduled / no-double-per-incarnation / guard invariants; "
    "the real daemon (scheduler.New: real entry reader + fsnotify watcher, Scheduler.run via the verif wrapper, real jobImpl, real cron parser) is driven tick by tick over a recording fake client, and TLC judges every tick with its own "
    "CronMatch on the structure the expressions were generated from (Props_Cron) and the guard rules applied to the answers each job was given",
    REC_NOTE + "; the fake client (history as seen by the guard); Go's time package for broken-down UTC time; watcher latency bound 5 s", "TLA+ daemon model (TLC) + per-tick records of the real daemon judged by TLC with an independent cron oracle", "cron", "5/C09")

add("C13", "exploration", "structural mutation sweep of a rich valid definition (every node x 24 shapes + deletion: complete for single deviations; sampled pairs; sampled byte mutations) through all four loader entry points; "
    "TLC (LoaderObserve) judges every record: never a crash, and an accepted definition satisfies the listed post-conditions (names, something to run, parseable schedules, valid signals, status serialisable and readable, preconditions evaluable, graph builds)",
    "the TLA+ module is the judge and the statement of the post-conditions only - there is no implementation-shaped model of the YAML builder; 'every byte string' is sampled", "spec-defined post-conditions judged by TLC over an enumerated mutation sweep of the real loader", "loader", "5/C13")
add("C19", "exploration", "LoaderPolicy.tla states the evaluation policy (entry point x field kind) and TLC checks that non-executing entries evaluate nothing; a back-tick command and a variable reference are planted in each of the 53 string-valued leaves x 13 entry points "
    "(loader functions, DAG store, client status calls, daemon initDags; Load as vacuity control) and TLC judges every record (no command ran, os.Environ unchanged)",
    "only the canary file and the process environment are observed; the policy table is a hand-written abstraction of builder.go", "TLA+ policy table (TLC) + exhaustive canary sweep of the real entry points judged by TLC", "loader", "5/C19")

API_NOTE = "trusted: TLC, the rig that reads the abstract state back from disk with fresh store instances, the argv-recording stub; handlers are called directly (no HTTP routing)"
add("C20", "model_checking", "ApiControl.tla gives every API action a response class and an effect on <<definitions, histories, flags, live runs>>; the C20 guarantees are written over observed <<pre, action, response, post, spawned, stops>> tuples; "
    "TLC checks them on every transition of the model (MCApi) and on every action the real go-swagger handlers execute in TLC-generated and seeded random action sequences with DAGs in every state (never run / running / finished / failed / canceled / crashed), "
    "and compares the real outcome with the model's Step (drift)", API_NOTE, "TLA+ model of the API control surface (TLC) + trace validation of the real handlers over model-generated and random action sequences", "api", "5/C20")
add("C18", "model_checking", "same rig and model as C20 with the C18 guarantees (create/rename never overwrite, invalid save changes nothing, rename carries definition + history, delete removes only its own DAG, other DAGs untouched); "
    "plus DagStore.tla (a series of saves at system-call grain over file contents, crash anywhere, all-or-nothing invariant) and a ptrace kill sweep of the real UpdateSpec at every system call and torn write, each followed by a further save; "
    "plus DagStoreConc.tla (two simultaneous saves over names bound to inodes) with all interleavings at the gate of the verif build trace-validated on the real DAG store and a free-running pair of savers with a reader; "
    "plus DagNames.tla (two creates and a rename aimed at one name: check-then-act) with TLC-simulated schedules trace-validated through the gates after the existence checks", API_NOTE + "; ptrace supervisor for the save sweep",
    "TLA+ models (TLC) + trace validation of the real handlers + ptrace kill-point enumeration of a save, all judged by TLC", "api", "5/C18")

add("C12", "model_checking", "NodeIO.tla models one step's writer plumbing across attempts (setup, writer routing, bufio flushing, capture pipe, teardown, done flag, old goroutine's deferred teardown) and TLC proves 'log on disk = what the last attempt printed' and 'the step finishes' for behaviours without the teardown race; "
    "real steps (real scheduler, real command executor, real child processes printing counted patterns) are run for every combination of {stdout file, stderr file, output variable, script} x retry plans x sizes around the buffer and pipe boundaries, compared byte for byte, and judged by TLC (NodeIOObserve)",
    "trusted: TLC; the child emitter and the byte comparison in the rig; relaunch order forced through the gate hooks (benign order everywhere, the racy order in one pinned scenario)", "TLA+ model of the step IO plumbing (TLC) + matrix of real step executions with byte-exact comparison judged by TLC", "nodeio", "5/C12")

add("C11", "model_checking", "Params.tla transcribes the parameter pipeline (render, the parser's regular expression and unquoting, stringify, recording with quoting, re-parse) over character classes; TLC checks both round trips for every structure of up to 2 parameters with values up to 3 characters; "
    "the transcription is compared with the real parser on every string over the class alphabet up to length 6 (thorough 8); real DAGs are started and retried through the real loader and agent with probe steps, for 11 value classes x positional/named x default/at-start and 13 output payload classes, "
    "and TLC judges what every consumer saw", "trusted: TLC; probe children; the retry is performed in-process the way cmd/retry.go does it; value fidelity on a class alphabet only (DESIGN.md section 6)",
    "TLA+ transcription of the parameter pipeline (TLC) validated against the real parser + real start/retry runs with probes judged by TLC", "params", "5/C11")

LIFE_NOTE = "trusted: the ptrace supervisor, TLC, the real client used for the queries; one 2-step DAG; wall-clock clauses are not claimed"
add("C08", "fault_enumeration", "AgentLife.tla models the start-up / shutdown order of agent.Run with a crash anywhere and TLC checks 'a run cut short is reported neither running nor succeeded' and 'the latest-status query never fails'; "
    "the real binary is SIGKILLed at every relevant system call of start-up, execution, handlers and shutdown, then the real client is asked for the latest status and the DAG is started again with the real binary; TLC judges every record; "
    "second stage: what a finished run says about its steps under stop / timeout interleavings (no step left running, no failed step labelled finished): invariant C08_FinalLabels of StepSched "
    "and SchedObserve's C08 clauses on gate-driven and free runs of the real scheduler (families stop, outcome, timeout, replimit)",
    LIFE_NOTE, "TLA+ life-cycle model (TLC) + ptrace kill-point enumeration on the real binary judged by TLC", "agentlife", "5/C08")
add("C16", "model_checking", "AgentLife.tla with two starters: TLC proves mutual exclusion and 'a refused start records nothing' for behaviours without the probe/bind window race (recorded as a history flag) ; "
    "the first `start` of the real binary is held at its k-th system call while a second start of the same file runs to completion, for every call in the probe..bind window and a sample elsewhere; TLC judges who executed, what was recorded and whether the first run was disturbed",
    LIFE_NOTE, "TLA+ life-cycle model with two starters (TLC) + ptrace-held placements of a second start on the real binary judged by TLC", "agentlife", "5/C16")

ALL = ["C%02d" % i for i in range(1, 21)]
for p in ALL:
    if p not in CHECKS:
        NA.setdefault(p, "check not built yet in this revision of /verif (planned: DESIGN.md section 5/%s); nothing is claimed for it" % p)

def main():
    hooks = subprocess.run(["git", "-C", "/repo", "log", "--format=%H %s", "--grep=^verif hooks"], capture_output=True, text=True).stdout.split("\n")
    hooks = [h.split()[0] for h in hooks if h.strip()]
    m = {
        "version": 1,
        "setup_cmd": "cd /verif && tools/setup.sh",
        "hooks": {
            "guard": "verif (Go build tag)",
            "enable": "go build -tags verif (the harness module /verif/harness is built with -tags verif against /repo via a replace directive)",
            "baseline_off_cmd": "cd /repo && GOFLAGS=-mod=mod GOPROXY=off GOSUMDB=off GOTOOLCHAIN=local go test -json -vet=off -count=1 -timeout 25m ./...",
            "source_commits": hooks,
            "add_only": True,
        },
        "engines": [
            {"name": "sched", "path": "harness/rig/sched.go + spec/StepSched.tla + spec/SchedObserve.tla + spec/StepSchedTrace.tla",
             "serves_properties": ["C01", "C02", "C03", "C04", "C05", "C08", "C10", "C15"],
             "kind_free_text": "gate controller + scripted executor around the real scheduler.Schedule/Signal; TLC model checking, behaviour export, trace validation"},
            {"name": "auth", "path": "harness/rig/auth.go + spec/Auth.tla + spec/AuthObserve.tla", "serves_properties": ["C17"],
             "kind_free_text": "request renderer around the real middleware chain (httptest); records judged by TLC"},
            {"name": "hist", "path": "harness/rig/hist.go + spec/History.tla + spec/MCHistory.tla + spec/HistoryTrace.tla", "serves_properties": ["C06"],
             "kind_free_text": "operation-sequence driver around the real jsondb store; trace validation by TLC"},
            {"name": "cache", "path": "harness/rig/cache.go + spec/FileCache.tla + spec/MCFileCache.tla + spec/FileCacheTrace.tla + spec/HistoryConc.tla + spec/MCHistoryConc.tla + spec/HistoryConcTrace.tla", "serves_properties": ["C06"],
             "kind_free_text": "gate-driven schedule replay of overlapping queries and writes on the real filecache + jsondb; trace validation by TLC"},
            {"name": "crash", "path": "harness/rig/sup.go + harness/rig/crash.go + spec/HistoryFS.tla + spec/CrashObserve.tla", "serves_properties": ["C07"],
             "kind_free_text": "ptrace supervisor (kill at k-th system call, torn writes) around a history driver; records judged by TLC"},
            {"name": "cron", "path": "harness/rig/cron.go + spec/CronDaemon.tla + spec/Props_Cron.tla + spec/CronObserve.tla", "serves_properties": ["C09"],
             "kind_free_text": "tick driver around the real scheduler daemon with a recording fake client; records judged by TLC"},
            {"name": "loader", "path": "harness/rig/loader.go + spec/LoaderObserve.tla + spec/LoaderPolicy.tla", "serves_properties": ["C13", "C19"],
             "kind_free_text": "mutation and canary sweeps of the real loader entry points; records judged by TLC"},
            {"name": "api", "path": "harness/rig/api.go + spec/ApiControl.tla + spec/MCApi.tla + spec/ApiObserve.tla + spec/DagStore.tla + spec/SaveCrashObserve.tla", "serves_properties": ["C18", "C20"],
             "kind_free_text": "action-sequence driver around the real API handlers, client and stores with live status sockets and an argv stub; trace validation by TLC"},
            {"name": "nodeio", "path": "harness/rig/nodeio.go + spec/NodeIO.tla + spec/NodeIOObserve.tla", "serves_properties": ["C12", "C11"],
             "kind_free_text": "real steps with real child processes under the real scheduler; byte-exact output comparison; records judged by TLC"},
            {"name": "params", "path": "harness/rig/params.go + spec/Params.tla + spec/ParamsObserve.tla", "serves_properties": ["C11"],
             "kind_free_text": "tokenizer sweep through the real parser; real start + retry runs with probe steps; records judged by TLC"},
            {"name": "agentlife", "path": "harness/rig/agentlife.go + harness/rig/sup.go + spec/AgentLife.tla + spec/AgentLifeObserve.tla", "serves_properties": ["C08", "C16"],
             "kind_free_text": "the real blackdagger binary under the ptrace supervisor: kill at the k-th system call; hold at the k-th call while a second start runs"},
            {"name": "admit", "path": "harness/rig/admit.go + spec/Admission.tla + spec/AdmissionObserve.tla", "serves_properties": ["C14"],
             "kind_free_text": "graph enumerator around scheduler.NewExecutionGraph / agent.Run; records judged by TLC"},
        ],
        "checks": [],
        "not_applicable": [{"property_id": p, "reason": NA[p]} for p in ALL if p in NA],
        "notes": "every verdict comes from a TLA+ property monitor evaluated by TLC on a trace/record produced by the real code; see DESIGN.md 1.1",
    }
    for p in ALL:
        if p not in CHECKS:
            continue
        c = CHECKS[p]
        m["checks"].append({
            "property_id": p,
            "quick_cmd": "bin/check %s --tier quick" % p,
            "thorough_cmd": "bin/check %s --tier thorough" % p,
            "evidence_file": "/verif/evidence/%s.json" % p,
            "replay_cmd_template": "bin/check %s --replay {path}" % p,
            "engine": c["engine"],
            "level_claimed": {"category": c["level"], "text": c["text"], "design_ref": c["design"]},
            "level_note": c["note"],
            "technique": c["technique"],
        })
    with open(os.path.join(V, "MANIFEST.json"), "w") as f:
        json.dump(m, f, indent=1)
    print("MANIFEST.json: %d checks, %d not applicable" % (len(m["checks"]), len(m["not_applicable"])))

if __name__ == "__main__":
    main()
