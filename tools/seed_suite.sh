#!/bin/bash
# seed_suite.sh <worktree> <seed-id>: run the pinned suite in the worktree with the seeded change (demo files moved aside)
WT=$1; ID=$2
export GOFLAGS=-mod=mod GOPROXY=off GOSUMDB=off GOTOOLCHAIN=local
cd $WT || exit 2
mkdir -p /tmp/seed/aside-$ID
for f in $(git ls-files --others --exclude-standard | grep seeded_demo); do mkdir -p /tmp/seed/aside-$ID/$(dirname $f); mv $f /tmp/seed/aside-$ID/$f; done
go test -json -vet=off -count=1 -timeout 25m ./... > /tmp/seed/suite-$ID.json 2>/dev/null
python3 - "$ID" <<'PY'
import json,sys
ID=sys.argv[1]
base=set(json.load(open('/root/.vp/BASELINE.json'))['stable_pass'])
res={}
for l in open('/tmp/seed/suite-%s.json'%ID):
    try: e=json.loads(l)
    except: continue
    if e.get('Test') and e.get('Action') in('pass','fail'):
        res[e['Package']+'::'+e['Test']]=e['Action']
missing=[t for t in base if res.get(t)!='pass']
out={'baseline_n':len(base),'passed_of_baseline':len(base)-len(missing),'not_passing':sorted(missing)}
json.dump(out,open('/verif/seeded/%s/suite.json'%ID,'w'),indent=1)
print(ID,'baseline tests passing: %d/%d'%(out['passed_of_baseline'],out['baseline_n']), missing[:5])
PY
cd /tmp/seed/aside-$ID && find . -type f | while read f; do mv $f $WT/$f; done
rm -f /tmp/seed/suite-$ID.json
