#!/bin/bash
# seed_matrix.sh: applies every seeded defect in turn to /repo, runs the quick check of its property, reverts; writes
# seeded/MATRIX.json (seed, property, exit code of the check, number of VIOLATION lines). Takes about an hour.
# Nothing else may use /repo or run a check in /verif meanwhile.
cd "$(dirname "$0")/.."
VERIF_DIR=$(pwd)
REPO=${VERIF_REPO:-/repo}        # a snapshot run (vp run --with-repo) passes its own copy of the repository
out=seeded/MATRIX.json
echo "[" > $out.tmp
first=1
for d in seeded/*/; do
  id=$(basename $d)
  [ -f $d/meta.json ] || continue
  prop=$(python3 -c "import json;print(json.load(open('$d/meta.json'))['property'])")
  neutral=$(python3 -c "import json;print('neutralised' in json.load(open('$d/meta.json')))")
  if ! git -C $REPO apply $VERIF_DIR/$d/patch.diff 2>/dev/null; then
    echo "$id: patch does not apply (neutralised=$neutral)" >&2
    [ $first = 1 ] || echo "," >> $out.tmp
    first=0
    echo " {\"seed\": \"$id\", \"property\": \"$prop\", \"check_exit\": null, \"violations\": 0, \"clauses\": \"patch no longer applies\", \"neutralised\": \"$neutral\"}" >> $out.tmp
    continue
  fi
  ( cd $REPO && go build ./... >/dev/null 2>&1 ) || { echo "$id: does not build" >&2; git -C $REPO checkout -q -- .; continue; }
  log=$(VERIF_SEED=1 bin/check $prop --tier quick 2>&1); rc=$?
  git -C $REPO checkout -q -- .
  git -C $VERIF_DIR checkout -q -- evidence/$prop.json 2>/dev/null
  nv=$(echo "$log" | grep -c '^VIOLATION')
  cl=$(echo "$log" | grep -o '"clause": "[A-Za-z0-9_]*"' | sort | uniq -c | sort -rn | head -3 | awk '{print $3}' | tr -d '"' | paste -sd, -)
  [ $first = 1 ] || echo "," >> $out.tmp
  first=0
  echo " {\"seed\": \"$id\", \"property\": \"$prop\", \"check_exit\": $rc, \"violations\": $nv, \"clauses\": \"$cl\", \"neutralised\": \"$neutral\"}" >> $out.tmp
  echo "$id $prop rc=$rc viol=$nv $cl"
done
echo "]" >> $out.tmp
mv $out.tmp $out
