"""Shared machinery of /verif/bin/check: building the harness, running TLC, trace validation,
known-findings matching, evidence files.  Python is only glue: every verdict comes from a TLA+
property monitor evaluated by TLC on a trace recorded from the real code (DESIGN.md 1.1)."""
import json, os, re, shutil, subprocess, sys, tempfile, time, hashlib

VERIF = os.path.dirname(os.path.dirname(os.path.abspath(__file__)))
REPO = os.environ.get("VERIF_REPO", "/repo")
SPEC = os.path.join(VERIF, "spec")
BUILD = os.path.join(VERIF, "build")
EVID = os.path.join(VERIF, "evidence")
REPLAY = os.path.join(VERIF, "replay")
NCPU = os.cpu_count() or 4

GOENV = dict(os.environ, GOFLAGS="-mod=mod", GOPROXY="off", GOSUMDB="off", GOTOOLCHAIN="local",
             TZ="UTC")


class Infra(Exception):
    pass


def log(*a):
    print(*a, file=sys.stderr, flush=True)


# --------------------------------------------------------------------------- build

def build_harness():
    """(Re)build the conformance harness against /repo's current working tree, hooks enabled."""
    os.makedirs(BUILD, exist_ok=True)
    h = os.path.join(VERIF, "harness")
    shutil.copyfile(os.path.join(REPO, "go.sum"), os.path.join(h, "go.sum"))
    t0 = time.time()
    p = subprocess.run(["go", "build", "-tags", "verif", "-o", os.path.join(BUILD, "vh"), "./cmd/vh"],
                       cwd=h, env=GOENV, capture_output=True, text=True)
    if p.returncode != 0:
        raise Infra("harness build failed against the current /repo tree:\n" + p.stdout + p.stderr)
    log("harness built in %.1fs" % (time.time() - t0))
    return os.path.join(BUILD, "vh")


def build_binary(out):
    """Build the real blackdagger binary (no hooks needed) from /repo's working tree."""
    p = subprocess.run(["go", "build", "-o", out, "."], cwd=REPO, env=GOENV, capture_output=True, text=True)
    if p.returncode != 0:
        raise Infra("blackdagger build failed:\n" + p.stdout + p.stderr)
    return out


def scratch(prefix):
    base = os.environ.get("VERIF_SCRATCH") or tempfile.gettempdir()
    return tempfile.mkdtemp(prefix="verif-" + prefix + "-", dir=base)


# --------------------------------------------------------------------------- TLC

def tlc(workdir, module, cfg, workers=1, timeout=900, simulate=None, extra=(), deque=False, heap=None):
    """Run TLC on spec/<module>.tla with spec/<cfg> inside workdir. Returns dict with output and stats."""
    for f in os.listdir(SPEC):
        if f.endswith(".tla") or f.endswith(".cfg"):
            shutil.copyfile(os.path.join(SPEC, f), os.path.join(workdir, f))
    md = tempfile.mkdtemp(prefix="md-", dir=workdir)
    cmd = ["timeout", str(timeout), "tlc", "-workers", str(workers), "-metadir", md, "-config", cfg]
    if simulate:
        cmd += ["-simulate", simulate]
    cmd += list(extra) + [module + ".tla"]
    env = dict(os.environ)
    # TLC creates a directory tlc-<n> under java.io.tmpdir on every start and leaves it behind: keep it inside the scratch directory
    jt = tempfile.mkdtemp(prefix="jt-", dir=workdir)
    env["JAVA_TOOL_OPTIONS"] = (env.get("JAVA_TOOL_OPTIONS", "") + " -Djava.io.tmpdir=" + jt).strip()
    if deque:
        env["JAVA_TOOL_OPTIONS"] = (env.get("JAVA_TOOL_OPTIONS", "") +
                                    " -Dtlc2.tool.queue.IStateQueue=StateDeque").strip()
    t0 = time.time()
    p = subprocess.run(cmd, cwd=workdir, env=env, capture_output=True, text=True)
    out = p.stdout + p.stderr
    shutil.rmtree(md, ignore_errors=True)
    shutil.rmtree(jt, ignore_errors=True)
    shutil.rmtree(os.path.join(workdir, "states"), ignore_errors=True)
    res = {"rc": p.returncode, "out": out, "wall_s": time.time() - t0, "states": 0, "distinct": 0,
           "violated": None, "depth": 0}
    m = re.search(r"(\d+) states generated, (\d+) distinct states found", out)
    if m:
        res["states"], res["distinct"] = int(m.group(1)), int(m.group(2))
    m = re.search(r"depth of the complete state graph search is (\d+)", out)
    if m:
        res["depth"] = int(m.group(1))
    m = re.search(r"Invariant (\S+) is violated", out)
    if m:
        res["violated"] = m.group(1)
    m = re.search(r"Temporal properties were violated", out)
    if m:
        res["violated"] = "temporal"
    if p.returncode == 124:
        res["timeout"] = True
    ok_end = "Model checking completed" in out or "Finished in" in out or res["violated"]
    if not ok_end and not res.get("timeout") and not simulate:
        raise Infra("TLC did not finish properly (rc=%d) for %s/%s:\n%s" % (p.returncode, module, cfg, out[-3000:]))
    return res


def apalache(workdir, module, cinit, init, next_, inv, length, timeout=900):
    """Run Apalache's bounded checker (used for inductive invariants: length 0 from Init, length 1 from IndInit)."""
    for f in os.listdir(SPEC):
        if f.endswith(".tla"):
            shutil.copyfile(os.path.join(SPEC, f), os.path.join(workdir, f))
    out_dir = tempfile.mkdtemp(prefix="apa-", dir=workdir)
    cmd = ["timeout", str(timeout), "apalache-mc", "check", "--cinit=" + cinit, "--init=" + init, "--next=" + next_, "--inv=" + inv,
           "--length=%d" % length, "--out-dir=" + out_dir, module + ".tla"]
    env = dict(os.environ)
    jt = tempfile.mkdtemp(prefix="jt-", dir=workdir)
    env["JAVA_TOOL_OPTIONS"] = (env.get("JAVA_TOOL_OPTIONS", "") + " -Djava.io.tmpdir=" + jt).strip()
    t0 = time.time()
    p = subprocess.run(cmd, cwd=workdir, env=env, capture_output=True, text=True)
    out = p.stdout + p.stderr
    shutil.rmtree(out_dir, ignore_errors=True)
    shutil.rmtree(jt, ignore_errors=True)
    m = re.search(r"The outcome is: (\w+)", out)
    return {"rc": p.returncode, "outcome": m.group(1) if m else "none", "wall_s": round(time.time() - t0, 1), "out": out}


def write_cfg(workdir, name, text):
    with open(os.path.join(SPEC, name), "w") as f:
        f.write(text)


def parse_prints(out, prefix):
    """Lines printed by PrintT("<prefix> " \\o ToJson(x)) come out as a quoted, escaped string."""
    res = []
    for line in out.splitlines():
        line = line.strip()
        if line.startswith('"' + prefix + ' '):
            try:
                s = json.loads(line)
            except Exception:
                continue
            res.append(json.loads(s[len(prefix) + 1:]))
    return res


def observe(workdir, module, trace_path, timeout=1200):
    """Validate a recorded trace with an Observe trace spec. Returns (verdicts, consumed_events, tlc result)."""
    dst = os.path.join(workdir, "trace.ndjson")
    if os.path.abspath(trace_path) != os.path.abspath(dst):
        shutil.copyfile(trace_path, dst)
    n_lines = sum(1 for _ in open(dst))
    r = tlc(workdir, module, module + ".cfg", workers=1, timeout=timeout)
    verdicts = parse_prints(r["out"], "VERDICT")
    m = re.search(r'"CONSUMED (\d+)', r["out"])
    consumed = int(m.group(1)) if m else 0
    if consumed != n_lines:
        raise Infra("%s consumed %d of %d trace events:\n%s" % (module, consumed, n_lines, r["out"][-2000:]))
    return verdicts, consumed, r


# --------------------------------------------------------------------------- known findings

def load_known():
    with open(os.path.join(VERIF, "KNOWN_FINDINGS.json")) as f:
        return json.load(f)


def match_known(prop, record, known):
    """record: dict with 'clause' and discriminating facts. Returns the open finding that lists it, or None."""
    for k in known.get("open", []):
        if k["property"] != prop:
            continue
        if all(record.get(key) == val or (isinstance(val, list) and record.get(key) in val)
               for key, val in k["match"].items()):
            return k
    return None


class Report:
    """Collects what one check run found and turns it into stdout lines, exit code and evidence."""

    def __init__(self, prop, tier, seed, level):
        self.prop, self.tier, self.seed, self.level = prop, tier, seed, level
        self.t0 = time.time()
        self.known = load_known()
        self.violations = []      # (record, replay_path)
        self.known_hits = {}      # finding id -> count
        self.drift = []
        self.cov = {"samples": []}
        self.assumptions = []
        self.infra = None

    def violation(self, record, replay_obj):
        k = match_known(self.prop, record, self.known)
        if k is not None:
            self.known_hits.setdefault(k["id"], [k, 0])[1] += 1
            return False
        os.makedirs(os.path.join(REPLAY, self.prop), exist_ok=True)
        key = hashlib.sha1(json.dumps(replay_obj, sort_keys=True).encode()).hexdigest()[:10]
        path = os.path.join(REPLAY, self.prop, "%s-%s.json" % (record.get("clause", "v"), key))
        with open(path, "w") as f:
            json.dump({"property": self.prop, "record": record, "replay": replay_obj}, f, indent=1)
        self.violations.append((record, path))
        return True

    def finish(self):
        for fid, (k, n) in sorted(self.known_hits.items()):
            print("KNOWN-FINDING: property=%s %s %s (seen %d times in this run)" % (self.prop, fid, k["what"], n))
        seen = set()
        for rec, path in self.violations:
            sig = json.dumps(rec, sort_keys=True)
            if sig in seen:
                continue
            seen.add(sig)
            if len(seen) <= 10:
                print("VIOLATION property=%s replay=%s" % (self.prop, path))
                print("  detail: %s" % json.dumps(rec, sort_keys=True))
        for d in self.drift[:5]:
            print("DRIFT %s" % d)
        self.cov.setdefault("known_findings_seen", sorted(self.known_hits))
        self.cov["drift"] = len(self.drift)
        ev = {"property_id": self.prop, "tier": self.tier, "seed": self.seed, "level": self.level,
              "coverage": self.cov, "assumptions": self.assumptions,
              "wall_s": round(time.time() - self.t0, 2), "violations": len(self.violations)}
        os.makedirs(EVID, exist_ok=True)
        with open(os.path.join(EVID, self.prop + ".json"), "w") as f:
            json.dump(ev, f, indent=1, sort_keys=True)
        print("%s %s tier=%s seed=%d wall=%.1fs violations=%d known=%s" % (
            "FAIL" if self.violations else "OK", self.prop, self.tier, self.seed, ev["wall_s"],
            len(self.violations), sorted(self.known_hits)))
        return 1 if self.violations else 0


def run_parallel(cmds, cwd=None, timeout=3600):
    """Run commands (lists) concurrently, at most NCPU at a time. Returns list of CompletedProcess-like tuples."""
    procs, results = [], [None] * len(cmds)
    pending = list(enumerate(cmds))
    running = []
    while pending or running:
        while pending and len(running) < NCPU:
            i, c = pending.pop(0)
            p = subprocess.Popen(c, cwd=cwd, env=GOENV, stdout=subprocess.PIPE, stderr=subprocess.PIPE, text=True)
            running.append((i, p, time.time()))
        for item in list(running):
            i, p, t0 = item
            try:
                out, err = p.communicate(timeout=0.05)
            except subprocess.TimeoutExpired:
                if time.time() - t0 > timeout:
                    p.kill()
                    out, err = p.communicate()
                    results[i] = (124, out, err)
                    running.remove(item)
                continue
            results[i] = (p.returncode, out, err)
            running.remove(item)
    return results
