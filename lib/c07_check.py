"""C07: recorded history survives a crash at any instant (HistoryFS.tla, CrashObserve.tla, ptrace kill sweep)."""
import json, os, shutil, concurrent.futures as cf
import vp, record_checks as rc
from vp import Infra


def O(d, r, ts): return {"op": "Open", "d": d, "r": r, "ts": ts}
def W(st): return {"op": "Write", "st": st}
CLOSE = {"op": "Close"}


def run_ops(d, r, ts, n=2):
    return [O(d, r, ts)] + [W("%s.%d" % (r, i + 1)) for i in range(n)] + [CLOSE]


AFTER_FOR = {"run": "r9", "run-long": "r9", "run-nowrite": "r9", "update": "r1", "update-then-run": "r9"}


def scenarios(tier, seed):
    P1 = run_ops("d1", "r1", 4)
    P2 = run_ops("d1", "r1", 2) + run_ops("d1", "r2", 5) + run_ops("d2", "r3", 6)
    crash_parts = {
        "run": run_ops("d1", "r9", 8),
        "run-nowrite": [O("d1", "r9", 8), CLOSE],
        "run-long": run_ops("d1", "r9", 8, 4),
        "update": [{"op": "Update", "d": "d1", "r": "r1", "st": "r1.3"}],
        "update-then-run": [{"op": "Update", "d": "d1", "r": "r1", "st": "r1.3"}] + run_ops("d1", "r9", 9),
        "rename": [{"op": "Rename", "d": "d1", "to": "d3"}],
        "rename-merge": [{"op": "Rename", "d": "d1", "to": "d2"}],
        "removeold": [{"op": "SetAge", "r": "r1", "age": 30}, {"op": "RemoveOld", "d": "d1", "days": 7}],
        "removeall": [{"op": "RemoveAll", "d": "d1"}],
    }
    # a long history: 13 earlier runs of the same DAG (stamps 10..22), the crashing run is started after them (stamp 23)
    P14 = []
    for k in range(13):
        P14 += run_ops("d1", "q%d" % (k + 1), 10 + k, 1)
    crash_parts_long = {"run": run_ops("d1", "r9", 23), "run-long": run_ops("d1", "r9", 23, 4),
                        "update": [{"op": "Update", "d": "d1", "r": "q13", "st": "q13.2"}]}
    priors = {"none": [], "one": P1, "three": P2}
    out = []
    name_sets = ["plain"] if tier == "quick" else ["plain", "spaces", "glob", "suffix", "stamped"]
    sid = 0
    for names in name_sets:
        for pn, prior in priors.items():
            for cn, part in crash_parts.items():
                if pn == "none" and cn not in ("run", "run-nowrite", "run-long"):
                    continue
                if tier == "quick" and pn == "one" and cn in ("run-long", "rename-merge", "update-then-run"):
                    continue
                for today in ([False] if tier == "quick" and cn not in ("run",) else [False, True]):
                    sid += 1
                    ops = list(prior)
                    nprior = len(ops)
                    if cn == "removeold":       # ageing is preparation, not part of what is crashed
                        ops.append(part[0])
                        nprior += 1
                        ops += part[1:]
                    else:
                        ops += part
                    out.append({"scen": sid, "names": names, "todayOnly": today, "label": "%s/%s" % (pn, cn), "nprior": nprior, "ops": ops})
                    # the same kill points, and afterwards the store is used again: a manual update of the run that was being
                    # recorded (or updated) when the process died, then a new run of the same DAG
                    if cn in AFTER_FOR and not (tier == "quick" and (today or pn == "three" and cn != "run")):
                        sid += 1
                        tgt = AFTER_FOR[cn]
                        after = [{"op": "Update", "d": "d1", "r": tgt, "st": tgt + ".7"}] + run_ops("d1", "r8", 9 if cn != "update-then-run" else 7, 1) \
                                + [{"op": "Update", "d": "d1", "r": tgt, "st": tgt + ".8"}]
                        out.append({"scen": sid, "names": names, "todayOnly": today, "label": "%s/%s+after" % (pn, cn), "nprior": nprior, "ops": ops, "after": after})
    for names in name_sets[:1]:
        for cn, part in crash_parts_long.items():
            for today in [False, True]:
                sid += 1
                out.append({"scen": sid, "names": names, "todayOnly": today, "label": "many/%s" % cn, "nprior": len(P14), "ops": list(P14) + part})
                if not today:
                    sid += 1
                    tgt = "q13" if cn == "update" else "r9"
                    after = [{"op": "Update", "d": "d1", "r": tgt, "st": tgt + ".7"}] + run_ops("d1", "r8", 24, 1)
                    out.append({"scen": sid, "names": names, "todayOnly": today, "label": "many/%s+after" % cn, "nprior": len(P14), "ops": list(P14) + part, "after": after})
    return out


def run(prop, tier, seed, replay=None):
    rep = vp.Report(prop, tier, seed, "fault_enumeration")
    vh = vp.build_harness()
    work = vp.scratch(prop)
    try:
        states, transitions, runs = rc.model_check(work, "HistoryFS", ["MC_C07.cfg"] if tier == "quick" else ["MC_C07.cfg", "MC_C07_deep.cfg"])
        if replay:
            rp = json.load(open(replay))["replay"]
            scs = [rp["scenario"]]
        else:
            scs = scenarios(tier, seed)
        # spread the scenarios over worker processes (each supervisor owns one OS thread)
        nw = min(vp.NCPU, len(scs))
        jobs = []
        for w in range(nw):
            part = scs[w::nw]
            sf = os.path.join(work, "scen-%d.jsonl" % w)
            with open(sf, "w") as f:
                for s in part:
                    f.write(json.dumps(s) + "\n")
            jobs.append(["crash", "-scenarios", sf, "-out", os.path.join(work, "rec-%d.ndjson" % w)])
        env = dict(vp.GOENV, TMPDIR=work)
        with cf.ThreadPoolExecutor(max_workers=nw) as ex:
            list(ex.map(lambda a: rc.run_vh(vh, a, env=env, timeout=3000), jobs))
        rec = os.path.join(work, "records.ndjson")
        with open(rec, "w") as out:
            for j in jobs:
                with open(j[-1]) as f:
                    shutil.copyfileobj(f, out)
        verdicts, consumed = rc.observe_records(work, "CrashObserve", rec, minper=200)
        by_id = {s["scen"]: s for s in scs}
        for v in verdicts:
            for c in v["viol"]:
                rep.violation({"clause": c, "inflight": v["inflight"], "sys": v["sys"], "latestError": v["latestError"],
                               "recentDuplicate": v["recentDuplicate"], "emptyFile": v["emptyFile"], "torn": v["torn"] >= 0},
                              {"scenario": by_id.get(v["scen"]), "kill": {"k": v["k"], "sys": v["sys"], "torn": v["torn"], "nack": v["nack"]},
                               "files": v["files"], "answers": v["ans"], "answers_after_recovery": {d: a for d, a in (v.get("ans2") or {}).items() if d == "d1"}})
        per_sys, torn, samples = {}, 0, []
        with open(rec) as f:
            for i, line in enumerate(f):
                o = json.loads(line)
                per_sys[o["sys"]] = per_sys.get(o["sys"], 0) + 1
                if o["torn"] >= 0:
                    torn += 1
                if i in (3, 40):
                    samples.append({k: o[k] for k in ("label", "names", "k", "sys", "path", "torn", "nack", "files")} | {"answers_d1": o["ans"]["d1"]})
        rep.cov.update({"states": states, "transitions": transitions, "model_checking_runs": runs,
                        "evaluations": consumed, "distinct_nontrivial": consumed - per_sys.get("none", 0),
                        "kill_points_by_syscall": per_sys, "torn_write_points": torn, "scenarios": len(scs),
                        "traces_validated_against_impl": consumed,
                        "rule": "prior history {none, 1 run, 3 runs over 2 DAGs} x crashed operation {run, run without write, long run, update, update+run, rename, rename onto a DAG with history, "
                                "retention, delete} x name tables x latestStatusToday; the child is SIGKILLed at the entry of EVERY mutating system call under the data directory and at 3 torn prefixes "
                                "(1 byte, half, all but the last byte) of every write; queries run in a fresh process; '+after' scenarios: a second fresh process then updates the interrupted run, records a new run "
                                "and updates again, and the queries are asked a second time (the store goes on recording after a crash); a prior history of 13 runs ('many'); "
                                "distinct = kill points, trivial = the no-kill control run of each scenario",
                        "samples": samples, "exhaustive": True})
        rep.assumptions += ["process crash (SIGKILL), not power loss: data handed to write() survives",
                            "system calls are enumerated from one listing run per scenario; the traced child is deterministic (single writer, no timers)"]
        return rep.finish()
    finally:
        shutil.rmtree(work, ignore_errors=True)
