"""Record-based checks: the harness runs the real code on enumerated / generated cases and writes one
record per case; a TLA+ Observe module (same property operators as the exhaustive model) judges every
record.  Shared plumbing for C14 C17 C10 C13 C19 ..."""
import json, os, re, shutil, subprocess, concurrent.futures as cf
import vp
from vp import Infra, log


def run_vh(vh, args, timeout=3600, env=None):
    p = subprocess.run([vh] + args, env=env or vp.GOENV, capture_output=True, text=True, timeout=timeout)
    if p.returncode != 0:
        raise Infra("harness run failed (rc=%d): %s %s" % (p.returncode, p.stdout[-1500:], p.stderr[-1500:]))
    last = [l for l in p.stdout.strip().splitlines() if l.startswith("{")]
    return json.loads(last[-1]) if last else {}


def split_lines(path, nchunks, workbase, minper=2000):
    lines = open(path).read().splitlines()
    if not lines:
        return [], 0
    nchunks = max(1, min(nchunks, len(lines) // minper or 1))
    per = (len(lines) + nchunks - 1) // nchunks
    out = []
    for k in range(nchunks):
        part = lines[k * per:(k + 1) * per]
        if not part:
            continue
        d = os.path.join(workbase, "chunk%d" % k)
        os.makedirs(d, exist_ok=True)
        with open(os.path.join(d, "trace.ndjson"), "w") as f:
            f.write("\n".join(part) + "\n")
        out.append((d, k * per))
    return out, len(lines)


def observe_records(work, module, path, nchunks=None, minper=2000, timeout=3000):
    """Validate a record file with spec/<module>.tla in parallel chunks.
    Returns (verdicts, consumed). Each verdict gets 'line' relative to the whole file."""
    chunks, n = split_lines(path, nchunks or vp.NCPU, os.path.join(work, "obs-" + module), minper)
    verdicts, consumed = [], 0

    def one(c):
        d, off = c
        v, cons, r = vp.observe(d, module, os.path.join(d, "trace.ndjson"), timeout=timeout)
        for x in v:
            if "line" in x:
                x["line"] += off
        return v, cons
    with cf.ThreadPoolExecutor(max_workers=vp.NCPU) as ex:
        for v, c in ex.map(one, chunks):
            verdicts += v
            consumed += c
    if consumed != n:
        raise Infra("%s consumed %d of %d records" % (module, consumed, n))
    return verdicts, consumed


def model_check(work, module, cfgs, workers=None, timeout=3000):
    states = transitions = 0
    runs = []
    for cfg in cfgs:
        d = os.path.join(work, "mc-" + cfg)
        os.makedirs(d, exist_ok=True)
        r = vp.tlc(d, module, cfg, workers=workers or vp.NCPU, timeout=timeout)
        if r["violated"] or r.get("timeout"):
            raise Infra("model checking of %s/%s did not pass (%s): the model is out of date, not the code\n%s"
                        % (module, cfg, r["violated"] or "timeout", r["out"][-1500:]))
        states += r["distinct"]
        transitions += r["states"]
        runs.append({"module": module, "cfg": cfg, "distinct": r["distinct"], "generated": r["states"], "wall_s": round(r["wall_s"], 1)})
        shutil.rmtree(d, ignore_errors=True)
    return states, transitions, runs
