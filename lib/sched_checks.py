"""Checks of the step-scheduler family: C01 C02 C03 C04 C05 C15.

Pipeline per property (DESIGN.md section 4):
  1. TLC exhaustive on the implementation-shaped model StepSched with the property's invariants
  2. TLC produces behaviours of the model (simulation) and counter-examples of the invariants that
     are known not to hold on the model of the current code ("leads")
  3. the harness replays them into the real scheduler through the gates, and adds seeded random
     gate schedules and free-running runs; every run records a trace
  4. TLC validates the traces: SchedObserve (property monitors -> verdicts),
     StepSchedTrace (conformance with the model -> drift)
  5. monitor failures are matched against KNOWN_FINDINGS.json
"""
import json, os, shutil, subprocess, concurrent.futures as cf
import vp
from vp import Infra, log

# which model configurations are checked exhaustively: (cfg file, expected to hold)
MC = {
    "C01": {"quick": ["MC_C01_quick.cfg"], "thorough": ["MC_C01_thorough.cfg", "MC_C01_stop.cfg"]},
    "C02": {"quick": ["MC_C02_quick.cfg"], "thorough": ["MC_C02_thorough.cfg"]},
    "C03": {"quick": ["MC_C03_quick.cfg", "MC_C03_stopquick.cfg"], "thorough": ["MC_C03_thorough.cfg", "MC_C03_stop.cfg"]},
    "C04": {"quick": ["MC_C04_quick.cfg", "MC_C04_stopquick.cfg"], "thorough": ["MC_C04_thorough2.cfg", "MC_C04_stopquick.cfg", "MC_C04_thorough.cfg"]},
    "C05": {"quick": ["MC_C05_quick.cfg", "MC_C05_live.cfg"], "thorough": ["MC_C05_quick.cfg", "MC_C05_live.cfg", "MC_C05_thorough.cfg"]},
    "C15": {"quick": ["MC_C15_quick.cfg", "MC_C15_repeat.cfg", "MC_C15_live.cfg"], "thorough": ["MC_C15_thorough.cfg", "MC_C15_repeat.cfg", "MC_C15_live.cfg"]},
    # C08 (second stage of c08_check): the labels a finished run leaves behind under stop / timeout interleavings
    "C08": {"quick": ["MC_C08_labels.cfg"], "thorough": ["MC_C08_labels.cfg", "MC_C15_repeat.cfg"]},
}
# invariants that the model of the current code violates: counter-examples are leads to replay
LEADS = {
}
# scenario families of the harness's own generator, (family, quick count, thorough count)
FAMILIES = {
    "C01": [("order", 500, 6000), ("outcome", 150, 2000), ("stop", 200, 3000), ("timeout", 40, 300), ("limit", 100, 1500)],
    "C02": [("order", 600, 8000), ("outcome", 300, 4000), ("limit", 100, 1500)],
    "C03": [("order", 400, 6000), ("dry", 150, 1500), ("stop", 200, 3000), ("timeout", 40, 300), ("limit", 100, 1500)],
    "C04": [("outcome", 600, 8000), ("stop", 300, 4000), ("order", 100, 1500)],
    "C05": [("stop", 800, 10000), ("timeout", 80, 600), ("outcome", 100, 1500)],
    "C15": [("limit", 600, 8000), ("order", 200, 3000), ("stop", 100, 1500), ("replimit", 150, 2000)],
    "C08": [("stop", 400, 5000), ("outcome", 150, 2000), ("timeout", 40, 300), ("replimit", 100, 1500)],
}
# model families simulated for model-driven replay, (sim cfg, quick count, thorough count)
SIMS = {
    "C01": [("MC_sim_Order.cfg", 150, 2000), ("MC_sim_Stop.cfg", 60, 800)],
    "C02": [("MC_sim_Order.cfg", 150, 2000), ("MC_sim_Outcome.cfg", 60, 800)],
    "C03": [("MC_sim_Retry.cfg", 150, 2000), ("MC_sim_Stop.cfg", 60, 800)],
    "C04": [("MC_sim_Outcome.cfg", 200, 2500)],
    "C05": [("MC_sim_Stop.cfg", 200, 2500)],
    "C15": [("MC_sim_Limit.cfg", 200, 2500)],
    "C08": [("MC_sim_Stop.cfg", 100, 1500)],
}
# free-running runs (no gates, real timing, 1 us poll interval of the loop; the done listener is slow now and then):
# (family, quick count, thorough count)
FREE_FAMS = {
    "C01": [("order", 80, 1000), ("listener", 250, 3000)],
    "C02": [("order", 80, 1000), ("listener", 250, 3000), ("limit", 150, 2000)],
    "C03": [("order", 80, 1000), ("listener", 250, 3000), ("limit", 100, 1500)],
    "C04": [("outcome", 80, 1000), ("stop", 150, 2000)],
    "C05": [("stop", 150, 2000), ("replimit", 80, 1000)],
    "C15": [("limit", 150, 2000), ("replimit", 150, 2000)],
    "C08": [("stop", 200, 3000), ("replimit", 100, 1500), ("limit", 100, 1500)],
}
FACT_KEYS = ("stop", "stopPhase", "timeout", "dry", "kill", "anyRepeat")


def scenario_from_model(obj, sid, seed, tag):
    c = obj["cfg"]
    n = len(c["deps"])
    moves = list(obj["moves"])
    if "L" in moves:          # the first loop segment (start -> first gate) runs before the driver's first move
        moves.remove("L")
    return {"id": sid, "n": n, "deps": [sorted(d) for d in c["deps"]], "contF": c["contF"], "contS": c["contS"],
            "rlimit": c["rlimit"], "pcond": c["pcond"], "repeat": c["repeat"], "obeys": c["obeys"],
            "sigOnStop": [""] * n, "failK": [-1] * n, "maxActive": c["maxActive"],
            "handlers": sorted(c["handlers"]), "hfail": sorted(c["hfail"]), "doneChan": c["doneChan"],
            "dry": c["dry"], "stop": c["stop"], "kill": c["kill"], "timeout": c["timeout"], "seed": seed,
            "stopAt": 10 ** 6, "moves": moves + ["end"], "weights": [1, 1, 1, 1, 1], "tag": tag}


def run_vh(vh, args, timeout=3600):
    p = subprocess.run([vh] + args, env=vp.GOENV, capture_output=True, text=True, timeout=timeout)
    if p.returncode != 0:
        raise Infra("harness run failed (rc=%d): %s %s" % (p.returncode, p.stdout[-1500:], p.stderr[-1500:]))
    return json.loads(p.stdout.strip().splitlines()[-1])


def split_trace(path, nchunks, workbase):
    """Split a concatenated trace at Reset events into about nchunks files of similar size."""
    lines = open(path).read().splitlines()
    starts = [i for i, l in enumerate(lines) if '"ev":"Reset"' in l]
    if not starts:
        return []
    per = max(1, len(lines) // nchunks)
    chunks, cur, cur_start = [], 0, 0
    bounds = []
    last = 0
    for s in starts[1:]:
        if s - last >= per:
            bounds.append((last, s))
            last = s
    bounds.append((last, len(lines)))
    out = []
    for k, (a, b) in enumerate(bounds):
        d = os.path.join(workbase, "chunk%d" % k)
        os.makedirs(d, exist_ok=True)
        with open(os.path.join(d, "trace.ndjson"), "w") as f:
            f.write("\n".join(lines[a:b]) + "\n")
        out.append(d)
    return out


def observe_chunk(d):
    v, consumed, r = vp.observe(d, "SchedObserve", os.path.join(d, "trace.ndjson"))
    return v, consumed


def strict_chunk(args):
    d, n = args
    r = vp.tlc(d, "StepSchedTrace", "StepSchedTrace%d.cfg" % n, workers=1, timeout=1800)
    drifts = vp.parse_prints(r["out"], "DRIFT")
    import re
    m = re.search(r'"CONSUMED (\d+) runs (\d+) drift (\d+)', r["out"])
    if not m:
        raise Infra("StepSchedTrace did not consume the trace:\n" + r["out"][-2000:])
    return drifts, int(m.group(2))


def run(prop, tier, seed, replay=None):
    rep = vp.Report(prop, tier, seed, "model_checking")
    vh = vp.build_harness()
    work = vp.scratch(prop)
    try:
        return _run(prop, tier, seed, replay, rep, vh, work)
    finally:
        shutil.rmtree(work, ignore_errors=True)


def _run(prop, tier, seed, replay, rep, vh, work, finish=True):
    q = tier == "quick"
    scen_path = os.path.join(work, "scenarios.jsonl")
    scenarios = []          # explicit scenarios (pinned findings, leads, model behaviours, replay)
    sid = [100000]

    def add(obj):
        sid[0] += 1
        obj["id"] = sid[0]
        scenarios.append(obj)

    states = transitions = 0
    mc_runs = []
    if replay:
        with open(replay) as f:
            rp = json.load(f)
        if rp["replay"].get("free"):
            # a free-running run is not reproducible step by step: the same scenario is run free 400 times
            for _ in range(400):
                add(dict(rp["replay"]["scenario"], tag="replay-free"))
        else:
            add(dict(rp["replay"]["scenario"], tag="replay"))
    else:
        # ---- 1. exhaustive model checking
        for cfg in MC[prop][tier]:
            d = os.path.join(work, "mc-" + cfg)
            os.makedirs(d)
            r = vp.tlc(d, "MCStepSched", cfg, workers=vp.NCPU, timeout=3000)
            if r["violated"] or r.get("timeout"):
                raise Infra("model checking of %s did not pass (%s): the model is out of date, not the code\n%s"
                            % (cfg, r["violated"] or "timeout", r["out"][-1500:]))
            states += r["distinct"]
            transitions += r["states"]
            mc_runs.append({"cfg": cfg, "distinct": r["distinct"], "generated": r["states"], "wall_s": round(r["wall_s"], 1)})
            shutil.rmtree(d, ignore_errors=True)
        # ---- 2a. pinned reproductions of the known findings of this property
        pinned = os.path.join(vp.VERIF, "findings", prop + ".jsonl")
        if os.path.exists(pinned):
            for line in open(pinned):
                if line.strip():
                    add(json.loads(line))
        # ---- 2b. leads: counter-examples of invariants the model of the current code violates
        nleads = 0
        for cfg in LEADS.get(prop, []):
            d = os.path.join(work, "lead-" + cfg)
            os.makedirs(d)
            r = vp.tlc(d, "MCStepSched", cfg, workers=4, timeout=600)
            for obj in vp.parse_prints(r["out"], "LEAD")[:6]:
                add(scenario_from_model(obj, 0, seed + nleads, "lead:" + cfg))
                nleads += 1
            shutil.rmtree(d, ignore_errors=True)
        rep.cov["model_leads_replayed"] = nleads
        # ---- 2c. behaviours of the model for model-driven replay
        nsim = 0
        for cfg, nq, nt in SIMS[prop]:
            d = os.path.join(work, "sim-" + cfg)
            os.makedirs(d)
            r = vp.tlc(d, "MCStepSched", cfg, workers=1, timeout=900,
                       simulate="num=%d" % (nq if q else nt), extra=["-depth", "400", "-seed", str(seed)])
            for obj in vp.parse_prints(r["out"], "BEHAVIOUR"):
                add(scenario_from_model(obj, 0, seed + nsim, "model:" + cfg))
                nsim += 1
            shutil.rmtree(d, ignore_errors=True)
        rep.cov["model_behaviours_replayed"] = nsim

    with open(scen_path, "w") as f:
        for s in scenarios:
            f.write(json.dumps(s) + "\n")
    by_id = {s["id"]: s for s in scenarios}

    # ---- 3. run everything on the real scheduler (hooks on), record traces
    jobs = []   # (args, trace path, dump path)
    tdir = os.path.join(work, "traces")
    os.makedirs(tdir)
    if scenarios:
        if replay and scenarios[0].get("tag") == "replay-free":
            jobs.append((["sched", "-free", "-scenarios", scen_path], os.path.join(tdir, "explicit-free.ndjson"), None))
        else:
            jobs.append((["sched", "-scenarios", scen_path], os.path.join(tdir, "explicit.ndjson"), None))
    if not replay:
        first = 1
        for fam, nq, nt in FAMILIES[prop]:
            n = nq if q else nt
            per = 500
            k = 0
            while k < n:
                m = min(per, n - k)
                jobs.append((["sched", "-family", fam, "-count", str(m), "-seed", str(seed * 7919 + first), "-first", str(first)],
                             os.path.join(tdir, "rand-%s-%d.ndjson" % (fam, first)), os.path.join(tdir, "rand-%s-%d.scen" % (fam, first))))
                first += m
                k += m
        for k, (fam, nq, nt) in enumerate(FREE_FAMS[prop]):
            n = nq if q else nt
            jobs.append((["sched", "-free", "-family", fam, "-count", str(n), "-seed", str(seed * 31 + 5 + 6 * k), "-first", str(first)],
                         os.path.join(tdir, "%s-%d-free.ndjson" % (fam, k)), os.path.join(tdir, "%s-%d-free.scen" % (fam, k))))
            first += n

    def do_job(j):
        args, tp, dp = j
        a = args + ["-out", tp] + (["-dump", dp] if dp else [])
        return run_vh(vh, a)
    nscen = nevents = 0
    with cf.ThreadPoolExecutor(max_workers=max(2, vp.NCPU // 2)) as ex:
        for res in ex.map(do_job, jobs):
            nscen += res["scenarios"]
            nevents += res["events"]
    for _, _, dp in jobs:
        if dp and os.path.exists(dp):
            for line in open(dp):
                s = json.loads(line)
                if dp.endswith("-free.scen"):
                    s["free"] = True
                by_id[s["id"]] = s

    # ---- 4. trace validation
    alltrace = os.path.join(work, "all.ndjson")
    with open(alltrace, "w") as out:
        for _, tp, _ in jobs:
            with open(tp) as f:
                shutil.copyfileobj(f, out)
    chunks = split_trace(alltrace, vp.NCPU, os.path.join(work, "obs"))
    verdicts, consumed = [], 0
    with cf.ThreadPoolExecutor(max_workers=vp.NCPU) as ex:
        for v, c in ex.map(observe_chunk, chunks):
            verdicts += v
            consumed += c
    # conformance with the implementation-shaped model (drift), gate-driven runs with 3 or 4 steps
    strict_src = os.path.join(work, "strict.ndjson")
    with open(strict_src, "w") as out:
        for _, tp, _ in jobs:
            if not tp.endswith("free.ndjson"):
                with open(tp) as f:
                    shutil.copyfileobj(f, out)
    schunks = split_trace(strict_src, max(2, vp.NCPU // 2), os.path.join(work, "strict"))
    drift, strict_runs = [], 0
    with cf.ThreadPoolExecutor(max_workers=vp.NCPU) as ex:
        for dr, nr in ex.map(strict_chunk, [(d, n) for d in schunks for n in (3, 4)]):
            drift += dr
            strict_runs += nr
    for dct in drift:
        rep.drift.append("spec=StepSchedTrace run=%s line=%s ev=%s" % (dct.get("run"), dct.get("line"), json.dumps(dct.get("ev"))[:300]))

    # a model behaviour that the real scheduler cannot follow (the thread the model moves is not parked
    # where the model says) is drift as well
    ndiv = 0
    with open(alltrace) as f:
        for line in f:
            if '"ev":"Diverged"' in line:
                ndiv += 1
                if ndiv <= 3:
                    rep.drift.append("spec=MCStepSched replay diverged: " + line.strip()[:200])
    rep.cov["model_replays_diverged"] = ndiv

    # ---- 5. verdicts
    infra_runs = 0
    clause_count = {}
    nontrivial = set()
    antecedents = {"stopped_runs": 0, "window_starts": 0, "timeout_runs": 0, "limited_runs": 0, "handler_runs": 0,
                   "model_driven_runs": 0, "dry_runs": 0, "retry_runs": 0}
    for v in verdicts:
        mine = [c for c in v["viol"] if c.startswith(prop + "_")]
        if v["stop"]:
            antecedents["stopped_runs"] += 1
        if "windowStart" in v["facts"]:
            antecedents["window_starts"] += 1
        if v["timeout"]:
            antecedents["timeout_runs"] += 1
        if v["maxActive"] > 0:
            antecedents["limited_runs"] += 1
        if v["handlers"]:
            antecedents["handler_runs"] += 1
        if v["model"]:
            antecedents["model_driven_runs"] += 1
        if v["dry"]:
            antecedents["dry_runs"] += 1
        if any(e > 1 for e in v["execs"]):
            antecedents["retry_runs"] += 1
        sc = by_id.get(v["run"])
        if sc is not None:
            key = json.dumps({k: sc.get(k) for k in ("n", "deps", "contF", "contS", "rlimit", "pcond", "repeat", "maxActive",
                                                     "handlers", "stop", "timeout", "dry", "failK", "moves")}, sort_keys=True)
            if sc.get("n", 0) >= 2:
                nontrivial.add(key)
        for c in mine:
            clause_count[c] = clause_count.get(c, 0) + 1
            rec = {"clause": c}
            for k in FACT_KEYS:
                rec[k] = v[k]
            rec["failAfterStop"] = "failAfterStop" in v["facts"]
            rep.violation(rec, {"scenario": sc, "verdict": v, "free": bool(sc and sc.get("free")),
                                "how": "bin/check %s --replay <this file>" % prop + (" (free-running run: the scenario is run free 400 times)" if sc and sc.get("free") else "")})
    # drift verdicts of the Observe spec (snapshot mismatch) are drift, not violations
    for v in verdicts:
        if "DRIFT_SnapshotMismatch" in v["viol"]:
            rep.drift.append("spec=SchedObserve run=%s status written outside the hooked setters" % v["run"])

    # ---- 6. (C05 only) the same property on real processes: the real binary, the real `stop` command, shell children
    if prop == "C05" and not replay:
        import record_checks as rc
        binary = vp.build_binary(os.path.join(work, "blackdagger"))
        srec = os.path.join(work, "stop.ndjson")
        rc.run_vh(vh, ["agentlife", "-bin", binary, "-mode", "stop", "-out", srec], env=dict(vp.GOENV, TMPDIR=work), timeout=600)
        # the start barrier on the real command executor: a real step held after its own cancel check (before / after the
        # executor exists) while the stop request is made; this is the behaviour the scripted executor of the rig mimics
        wrec = os.path.join(work, "window.ndjson")
        rc.run_vh(vh, ["agentlife", "-bin", binary, "-mode", "window", "-out", wrec], env=dict(vp.GOENV, TMPDIR=work), timeout=600)
        with open(srec, "a") as out, open(wrec) as f:
            out.write(f.read())
        sverdicts, sconsumed = rc.observe_records(work, "AgentLifeObserve", srec, nchunks=1)
        for v in sverdicts:
            r = v["rec"]
            for c in v["viol"]:
                if c == "INFRA":
                    raise Infra("real stop run %s: %s" % (r["variant"], r["infra"]))
                rep.violation({"clause": c, "variant": r["variant"], "realProcess": True}, {"real_stop_run": r})
        rep.cov["real_process_stop_runs"] = [json.loads(l) for l in open(srec)]

    # ---- 7. (C04 only) the same property on the real binary: every channel a run reports through (persisted status, exit
    # code, handlers that ran, mails to a local SMTP sink) for 6 step scripts x 5 handler sets x mail on/off x failing handlers
    if prop == "C04" and not replay:
        import record_checks as rc
        binary = vp.build_binary(os.path.join(work, "blackdagger"))
        orec = os.path.join(work, "outcome.ndjson")
        rc.run_vh(vh, ["agentlife", "-bin", binary, "-mode", "outcome", "-out", orec], env=dict(vp.GOENV, TMPDIR=work), timeout=900)
        overdicts, oconsumed = rc.observe_records(work, "AgentLifeObserve", orec, nchunks=1)
        for v in overdicts:
            r = v["rec"]
            for c in v["viol"]:
                if c == "INFRA":
                    raise Infra("real outcome run %s: %s" % (r["variant"], r["infra"]))
                rep.violation({"clause": c, "variant": r["variant"], "handlers": r["handlers"], "mailOn": r["mailOn"], "hfail": r["hfail"], "realProcess": True},
                              {"real_outcome_run": r})
        rep.cov["real_binary_outcome_runs"] = oconsumed

    if consumed == 0 or not verdicts:
        raise Infra("no trace was validated")
    samples = []
    for s in scenarios[:2] + [by_id[k] for k in list(by_id)[-2:]]:
        samples.append({k: s.get(k) for k in ("id", "n", "deps", "contF", "rlimit", "maxActive", "handlers", "stop", "moves", "tag", "failK")})
    with open(alltrace) as f:
        samples.append({"first_trace_lines": [json.loads(next(f)) for _ in range(6)]})
    rep.cov.update({
        "states": states, "transitions": transitions, "model_checking_runs": mc_runs,
        "traces_validated_against_impl": len(verdicts), "trace_events": consumed,
        "strict_conformance_runs": strict_runs,
        "evaluations": len(verdicts), "distinct_nontrivial": len(nontrivial),
        "rule": "scenario = DAG shape x continueOn x retry limits x preconditions x handlers x maxActive x stop/timeout "
                "x (model behaviour | seeded gate schedule | free run); distinct by scenario content incl. schedule, "
                "non-trivial = at least 2 steps",
        "monitor_clauses_failed": clause_count, "antecedents_exercised": antecedents,
        "samples": samples, "exhaustive": False,
    })
    rep.assumptions += [
        "the scripted executor stands in for child processes (creation, start, exit, Kill are observed through the public executor interface)",
        "gates serialise the goroutines of the real scheduler at the hook points; between two gates a goroutine runs unhindered",
        "free-running runs rely on the status trace points being called under n.mu (hook placement)",
    ]
    return rep.finish() if finish else None
