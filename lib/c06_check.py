"""C06: history queries return exactly what was recorded, per DAG (History.tla, MCHistory.tla, HistoryTrace.tla)."""
import json, os, shutil, concurrent.futures as cf
import vp, record_checks as rc, sched_checks as sc
from vp import Infra

NAMES = ["plain", "spaces", "suffix", "dots", "short", "glob", "bslash", "stamped", "ext", "extdir"]


def observe_chunk(d):
    v, consumed, r = vp.observe(d, "HistoryTrace", os.path.join(d, "trace.ndjson"))
    details = vp.parse_prints(r["out"], "DETAIL")
    return v, consumed, details


def run(prop, tier, seed, replay=None):
    rep = vp.Report(prop, tier, seed, "model_checking")
    vh = vp.build_harness()
    work = vp.scratch(prop)
    try:
        q = tier == "quick"
        states, transitions, runs = rc.model_check(work, "MCHistory", ["MC_C06.cfg"])
        scen_path = os.path.join(work, "scen.jsonl")
        scenarios = []
        if replay:
            scenarios.append(json.load(open(replay))["replay"]["scenario"])
        else:
            d = os.path.join(work, "sim")
            os.makedirs(d)
            r = vp.tlc(d, "MCHistory", "MC_C06_sim.cfg", workers=1, timeout=900,
                       simulate="num=%d" % (150 if q else 3000), extra=["-depth", "40", "-seed", str(seed)])
            seen = set()
            for obj in vp.parse_prints(r["out"], "BEHAVIOUR"):
                key = json.dumps(obj["ops"], sort_keys=True)
                if key in seen:
                    continue
                seen.add(key)
                k = len(scenarios)
                scenarios.append({"scen": 500000 + k, "names": NAMES[k % len(NAMES)], "todayOnly": (k // len(NAMES)) % 2 == 0,
                                  "src": "model", "ops": obj["ops"]})
            shutil.rmtree(d, ignore_errors=True)
        with open(scen_path, "w") as f:
            for s in scenarios:
                f.write(json.dumps(s) + "\n")
        jobs = [(["hist", "-scenarios", scen_path], os.path.join(work, "model.ndjson"), None)]
        if not replay:
            n = 600 if q else 12000
            first = 1
            while first <= n:
                m = min(600, n - first + 1)
                jobs.append((["hist", "-count", str(m), "-seed", str(seed * 6151 + first), "-first", str(first)],
                             os.path.join(work, "rand-%d.ndjson" % first), os.path.join(work, "rand-%d.scen" % first)))
                first += m
        def do(j):
            return rc.run_vh(vh, j[0] + ["-out", j[1]] + (["-dump", j[2]] if j[2] else []))
        with cf.ThreadPoolExecutor(max_workers=vp.NCPU) as ex:
            list(ex.map(do, jobs))
        by_id = {s["scen"]: s for s in scenarios}
        alltrace = os.path.join(work, "all.ndjson")
        day_changed = 0
        with open(alltrace, "w") as out:
            for _, tp, dp in jobs:
                with open(tp) as f:
                    for line in f:
                        if '"dayChanged":true' in line:
                            day_changed += 1
                        out.write(line)
                if dp:
                    for line in open(dp):
                        s = json.loads(line)
                        by_id[s["scen"]] = s
        chunks = sc.split_trace(alltrace, vp.NCPU, os.path.join(work, "obs"))
        verdicts, events, details = [], 0, []
        with cf.ThreadPoolExecutor(max_workers=vp.NCPU) as ex:
            for v, c, dt in ex.map(observe_chunk, chunks):
                verdicts += v
                events += c
                details += dt
        if day_changed:
            raise Infra("the UTC date changed while %d scenarios ran; re-run the check" % day_changed)
        first_detail = {}
        for dt in details:
            first_detail.setdefault(dt["scen"], dt)
        nops = 0
        for v in verdicts:
            s = by_id.get(v["scen"], {})
            nops += len(s.get("ops", []))
            for c in v["viol"]:
                dt = first_detail.get(v["scen"], {})
                rep.violation({"clause": c, "names": v["names"], "sameSecond": dt.get("sameSecond")},
                              {"scenario": s, "first_mismatch": {"line": dt.get("line"), "op": {k: x for k, x in (dt.get("op") or {}).items() if k != "ans"}}})
        samples = [by_id[k] for k in list(by_id)[:2]] + [by_id[k] for k in list(by_id)[-1:]]
        rep.cov.update({"states": states, "transitions": transitions, "model_checking_runs": runs,
                        "traces_validated_against_impl": len(verdicts), "operations_executed": nops, "trace_events": events,
                        "model_behaviours_replayed": len(scenarios),
                        "evaluations": len(verdicts), "distinct_nontrivial": len({json.dumps(s.get("ops"), sort_keys=True) + s.get("names", "") for s in by_id.values() if len(s.get("ops", [])) >= 5}),
                        "rule": "operation sequences (open/write/close, update, rename, remove-old, remove-all, ageing) over 3 DAG identities mapped to 8 name tables "
                                "(plain, spaces, compaction suffix, dots, short, glob metacharacters, backslashes, stamp-like), start stamps in the same second / minute / across midnight; "
                                "from TLC simulation of MCHistory and a seeded generator; after every operation all queries for all DAGs and request ids are compared with History.tla; "
                                "distinct by operation sequence + name table, non-trivial = at least 5 operations",
                        "samples": samples, "exhaustive": False})
        rep.assumptions += ["TZ=UTC; 'today' is the real current date (a run during which the date changes is INFRA)",
                            "two runs never share the same millisecond start stamp; rename/retention are not issued on a DAG whose writer is open (the system refuses edits while running)",
                            "while the newest run has no status yet, the answer of the latest query is not constrained"]
        return rep.finish()
    finally:
        shutil.rmtree(work, ignore_errors=True)
