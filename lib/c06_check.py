"""C06: history queries return exactly what was recorded, per DAG (History.tla, MCHistory.tla, HistoryTrace.tla)."""
import json, os, shutil, concurrent.futures as cf
import vp, record_checks as rc, sched_checks as sc
from vp import Infra

NAMES = ["plain", "spaces", "suffix", "dots", "short", "glob", "bslash", "stamped", "ext", "extdir"]


def observe_chunk(d):
    v, consumed, r = vp.observe(d, "HistoryTrace", os.path.join(d, "trace.ndjson"))
    details = vp.parse_prints(r["out"], "DETAIL")
    return v, consumed, details


def S(l):
    return [{"a": x.split()[0], "r": (x.split() + [""])[1]} for x in l]


# schedules TLC finds with the code before the fix of F-06d / F-06e and with the seeded defect C06-d (MC_C06_cache_old.cfg,
# MC_C06_cache_restat.cfg): kept as fixed scenarios, the rest comes from simulation of the current model
CACHE_LEADS = [
    ("lead-stale", ["check q1", "load q1", "append", "check q2", "load q2", "store q2", "check q2", "store q1", "hit q2"]),
    ("lead-panic", ["check q1", "load q1", "store q1", "check q2", "uwrite", "uinval", "hit q2"]),
    ("lead-restat", ["check q1", "load q1", "append", "store q1", "check q2", "hit q2"]),
    ("lead-restat-update", ["check q1", "load q1", "uwrite", "uinval", "store q1", "check q2", "hit q2"]),
]


def cache_stage(rep, work, vh, tier, seed, replay_sc=None):
    """The status cache under overlapping queries and writes: FileCache.tla checked exhaustively, its behaviours replayed
    through the gates of the real filecache + jsondb, every gate passage validated by FileCacheTrace.tla."""
    q = tier == "quick"
    states, transitions, runs = rc.model_check(work, "FileCache", ["MC_C06_cache_quick.cfg"] if q else ["MC_C06_cache_quick.cfg", "MC_C06_cache.cfg"])
    # for ANY number of writes and queries: the inductive invariant of FileCacheInd.tla, discharged by Apalache; and the two
    # variants that must NOT be inductive (the code before 685493d, the seeded defect C06-d), as a guard against a vacuous proof
    ind = []
    ad = os.path.join(work, "apalache")
    os.makedirs(ad)
    for cinit, init, length, want in [("ConstInit", "CInit", 0, "NoError"), ("ConstInit", "IndInit", 1, "NoError"),
                                      ("ConstInitOld", "IndInit", 1, "Error"), ("ConstInitRestat", "IndInit", 1, "Error")]:
        r = vp.apalache(ad, "FileCacheInd", cinit, init, "CNext", "IndInv", length)
        ind.append({"cinit": cinit, "init": init, "length": length, "outcome": r["outcome"], "expected": want, "wall_s": r["wall_s"]})
        if r["outcome"] != want:
            raise Infra("Apalache: inductive invariant of FileCacheInd (%s, %s, length %d) gave %s, expected %s: the model is out of date, not the code\n%s"
                        % (cinit, init, length, r["outcome"], want, r["out"][-1500:]))
    shutil.rmtree(ad, ignore_errors=True)
    scs = []
    if replay_sc:
        scs = [replay_sc]
    else:
        for k, (name, steps) in enumerate(CACHE_LEADS):
            for qk in ["recent", "today"]:
                scs.append({"scen": 700000 + 2 * k + (qk == "today"), "src": name, "query": qk, "steps": S(steps),
                            "recording": not any(x.startswith("u") for x in steps)})
        d = os.path.join(work, "csim")
        os.makedirs(d)
        r = vp.tlc(d, "MCFileCache", "MC_C06_cache_sim.cfg", workers=1, timeout=900,
                   simulate="num=%d" % (500 if q else 8000), extra=["-depth", "60", "-seed", str(seed)])
        seen = set()
        for obj in vp.parse_prints(r["out"], "BEHAVIOUR"):
            key = json.dumps(obj["steps"])
            if key in seen:
                continue
            seen.add(key)
            scs.append({"scen": 710000 + len(scs), "src": "model", "query": ["recent", "today"][len(scs) % 2], "steps": obj["steps"],
                        "recording": obj["recording"]})
        shutil.rmtree(d, ignore_errors=True)
    scen_path = os.path.join(work, "cache.jsonl")
    with open(scen_path, "w") as f:
        for s in scs:
            f.write(json.dumps(s) + "\n")
    trace = os.path.join(work, "cache.ndjson")
    rc.run_vh(vh, ["cache", "-scenarios", scen_path, "-out", trace])
    chunks = sc.split_trace(trace, vp.NCPU, os.path.join(work, "cobs"))
    by_id = {s["scen"]: s for s in scs}
    events = finished = 0
    def obs(d):
        v, consumed, r = vp.observe(d, "FileCacheTrace", os.path.join(d, "trace.ndjson"))
        return v, consumed
    with cf.ThreadPoolExecutor(max_workers=vp.NCPU) as ex:
        for verdicts, consumed in ex.map(obs, chunks):
            events += consumed
            for v in verdicts:
                s = by_id.get(v["scen"], {})
                if "INFRA" in v["viol"]:
                    raise Infra("cache rig: %s" % json.dumps(v["rec"]))
                for c in v["viol"]:
                    if c.startswith("DRIFT"):
                        rep.drift.append("%s scen=%s line=%s rec=%s" % (c, v["scen"], v["line"], json.dumps(v["rec"], sort_keys=True)))
                    else:
                        rep.violation({"clause": c, "stage": "cache", "src": s.get("src")},
                                      {"cache_scenario": s, "first_mismatch": v["rec"]})
    for line in open(trace):
        if '"a":"store"' in line or '"a":"hit"' in line or '"ev":"Quiet"' in line:
            finished += 1
    return {"states": states, "transitions": transitions, "runs": runs, "scenarios": len(scs), "events": events, "queries": finished,
            "sample": scs[-1] if scs else None, "inductive": ind}


CONC_LEADS = [["list", "ccreate", "cwrite", "cunlink", "visit", "visit", "return"],
              ["ccreate", "list", "visit", "cwrite", "visit", "cunlink", "visit", "return"],
              ["list", "visit", "ccreate", "cwrite", "cunlink", "open2", "write2", "visit", "return"]]


def conc_stage(rep, work, vh, tier, seed, replay_sc=None):
    """A query while the recorder ends a run and begins the next: HistoryConc.tla checked exhaustively, its behaviours
    replayed through the gates of the real jsondb, every gate passage validated by HistoryConcTrace.tla."""
    q = tier == "quick"
    states, transitions, runs = rc.model_check(work, "HistoryConc", ["MC_C06_conc_relist_n1.cfg", "MC_C06_conc_relist_n2.cfg", "MC_C06_conc_relist_find.cfg", "MC_C06_conc_update.cfg"], workers=2)
    scs = []
    if replay_sc:
        scs = [replay_sc]
    else:
        for k, steps in enumerate(CONC_LEADS):
            for qk, n in [("today", 1), ("recent", 1), ("recent", 2), ("find", 1)]:
                scs.append({"scen": 800000 + len(scs), "src": "lead", "query": qk, "n": n, "steps": [{"a": a, "r": ""} for a in steps]})
        # a manual status update of the run while it is being closed, at every phase of the compaction (F-06h)
        # (not before the compaction: while the run is in progress the API refuses the update)
        for k, steps in enumerate([["ccreate", "update", "cwrite", "cunlink", "findafter"],
                                   ["ccreate", "cwrite", "update", "cunlink", "findafter"], ["ccreate", "cwrite", "cunlink", "update", "findafter"],
                                   ["ccreate", "cwrite", "cunlink", "open2", "update", "write2", "findafter"]]):
            scs.append({"scen": 805000 + k, "src": "update", "query": "find", "n": 1, "steps": [{"a": a, "r": ""} for a in steps]})
        for n in (1, 2, "find"):
            d = os.path.join(work, "concsim%s" % n)
            os.makedirs(d)
            r = vp.tlc(d, "MCHistoryConc", "MC_C06_conc_sim_%s.cfg" % ("find" if n == "find" else "n%d" % n), workers=1, timeout=900,
                       simulate="num=%d" % (300 if q else 3000), extra=["-depth", "40", "-seed", str(seed)])
            seen = set()
            for obj in vp.parse_prints(r["out"], "BEHAVIOUR"):
                key = json.dumps(obj["steps"])
                if key in seen:
                    continue
                seen.add(key)
                for qk in (["today", "recent"] if n == 1 else ["find"] if n == "find" else ["recent"]):
                    scs.append({"scen": 810000 + len(scs), "src": "model", "query": qk, "n": 1 if n == "find" else n, "steps": obj["steps"]})
            shutil.rmtree(d, ignore_errors=True)
    scen_path = os.path.join(work, "conc.jsonl")
    with open(scen_path, "w") as f:
        for s in scs:
            f.write(json.dumps(s) + "\n")
    trace = os.path.join(work, "conc.ndjson")
    rc.run_vh(vh, ["cache", "-conc", "-scenarios", scen_path, "-out", trace])
    chunks = sc.split_trace(trace, vp.NCPU, os.path.join(work, "concobs"))
    by_id = {s["scen"]: s for s in scs}
    events = 0
    def obs(d):
        v, consumed, r = vp.observe(d, "HistoryConcTrace", os.path.join(d, "trace.ndjson"))
        return v, consumed
    with cf.ThreadPoolExecutor(max_workers=vp.NCPU) as ex:
        for verdicts, consumed in ex.map(obs, chunks):
            events += consumed
            for v in verdicts:
                s = by_id.get(v["scen"], {})
                if "INFRA" in v["viol"]:
                    raise Infra("conc rig: %s" % json.dumps(v["rec"]))
                for c in v["viol"]:
                    if c.startswith("DRIFT"):
                        rep.drift.append("%s scen=%s line=%s rec=%s" % (c, v["scen"], v["line"], json.dumps(v["rec"], sort_keys=True)))
                    else:
                        acts = [x["a"] for x in s.get("steps", [])]
                        phase = "none"
                        if "update" in acts:
                            before = acts[:acts.index("update")]
                            phase = ("before-the-compaction" if "ccreate" not in before else "copy-created-not-yet-written" if "cwrite" not in before
                                     else "copy-written-original-not-yet-removed" if "cunlink" not in before else "after-the-compaction")
                        rep.violation({"clause": c, "stage": "conc", "query": s.get("query"), "n": s.get("n"), "updatePhase": phase},
                                      {"conc_scenario": s, "first_mismatch": v["rec"]})
    relists = sum(1 for line in open(trace) if '"a":"relist"' in line)
    return {"states": states, "transitions": transitions, "runs": runs, "scenarios": len(scs), "events": events, "relists": relists,
            "sample": scs[-1] if scs else None}


def run(prop, tier, seed, replay=None):
    rep = vp.Report(prop, tier, seed, "model_checking")
    vh = vp.build_harness()
    work = vp.scratch(prop)
    try:
        q = tier == "quick"
        cache_replay = None
        if replay:
            cache_replay = json.load(open(replay))["replay"].get("cache_scenario")
        conc_replay = json.load(open(replay))["replay"].get("conc_scenario") if replay else None
        if conc_replay:
            c = conc_stage(rep, work, vh, tier, seed, conc_replay)
            rep.cov.update({"states": c["states"], "transitions": c["transitions"], "model_checking_runs": c["runs"],
                            "traces_validated_against_impl": c["scenarios"], "trace_events": c["events"], "exhaustive": False})
            return rep.finish()
        if cache_replay:
            c = cache_stage(rep, work, vh, tier, seed, cache_replay)
            rep.cov.update({"states": c["states"], "transitions": c["transitions"], "model_checking_runs": c["runs"],
                            "traces_validated_against_impl": c["scenarios"], "trace_events": c["events"], "exhaustive": False})
            return rep.finish()
        states, transitions, runs = rc.model_check(work, "MCHistory", ["MC_C06.cfg"])
        cstage = None if replay else cache_stage(rep, work, vh, tier, seed)
        kstage = None if replay else conc_stage(rep, work, vh, tier, seed)
        scen_path = os.path.join(work, "scen.jsonl")
        scenarios = []
        if replay:
            scenarios.append(json.load(open(replay))["replay"]["scenario"])
        else:
            d = os.path.join(work, "sim")
            os.makedirs(d)
            r = vp.tlc(d, "MCHistory", "MC_C06_sim.cfg", workers=1, timeout=900,
                       simulate="num=%d" % (150 if q else 3000), extra=["-depth", "40", "-seed", str(seed)])
            seen = set()
            for obj in vp.parse_prints(r["out"], "BEHAVIOUR"):
                key = json.dumps(obj["ops"], sort_keys=True)
                if key in seen:
                    continue
                seen.add(key)
                k = len(scenarios)
                scenarios.append({"scen": 500000 + k, "names": NAMES[k % len(NAMES)], "todayOnly": (k // len(NAMES)) % 2 == 0,
                                  "src": "model", "ops": obj["ops"]})
            shutil.rmtree(d, ignore_errors=True)
        with open(scen_path, "w") as f:
            for s in scenarios:
                f.write(json.dumps(s) + "\n")
        jobs = [(["hist", "-scenarios", scen_path], os.path.join(work, "model.ndjson"), None)]
        if not replay:
            n = 600 if q else 12000
            first = 1
            while first <= n:
                m = min(600, n - first + 1)
                jobs.append((["hist", "-count", str(m), "-seed", str(seed * 6151 + first), "-first", str(first)],
                             os.path.join(work, "rand-%d.ndjson" % first), os.path.join(work, "rand-%d.scen" % first)))
                first += m
        def do(j):
            return rc.run_vh(vh, j[0] + ["-out", j[1]] + (["-dump", j[2]] if j[2] else []))
        with cf.ThreadPoolExecutor(max_workers=vp.NCPU) as ex:
            list(ex.map(do, jobs))
        by_id = {s["scen"]: s for s in scenarios}
        alltrace = os.path.join(work, "all.ndjson")
        day_changed = 0
        with open(alltrace, "w") as out:
            for _, tp, dp in jobs:
                with open(tp) as f:
                    for line in f:
                        if '"dayChanged":true' in line:
                            day_changed += 1
                        out.write(line)
                if dp:
                    for line in open(dp):
                        s = json.loads(line)
                        by_id[s["scen"]] = s
        chunks = sc.split_trace(alltrace, vp.NCPU, os.path.join(work, "obs"))
        verdicts, events, details = [], 0, []
        with cf.ThreadPoolExecutor(max_workers=vp.NCPU) as ex:
            for v, c, dt in ex.map(observe_chunk, chunks):
                verdicts += v
                events += c
                details += dt
        if day_changed:
            raise Infra("the UTC date changed while %d scenarios ran; re-run the check" % day_changed)
        first_detail = {}
        for dt in details:
            first_detail.setdefault(dt["scen"], dt)
        nops = 0
        for v in verdicts:
            s = by_id.get(v["scen"], {})
            nops += len(s.get("ops", []))
            for c in v["viol"]:
                dt = first_detail.get(v["scen"], {})
                rep.violation({"clause": c, "names": v["names"], "sameSecond": dt.get("sameSecond")},
                              {"scenario": s, "first_mismatch": {"line": dt.get("line"), "op": {k: x for k, x in (dt.get("op") or {}).items() if k != "ans"}}})
        samples = [by_id[k] for k in list(by_id)[:2]] + [by_id[k] for k in list(by_id)[-1:]]
        if cstage:
            states += cstage["states"]
            transitions += cstage["transitions"]
            runs += cstage["runs"]
            events += cstage["events"]
            rep.cov["cache_stage"] = {"schedules_replayed": cstage["scenarios"], "gate_events_validated": cstage["events"], "queries_judged": cstage["queries"],
                                      "rule": "FileCache.tla (3 concurrent queries at the grain check / parse / store / hit, appends by the recording process, manual update = "
                                              "write then invalidate) checked exhaustively; its simulated behaviours and the counter-examples of the pre-fix model and of the "
                                              "restat seed are replayed through the verif gates of the real filecache under a real jsondb (ReadStatusRecent / ReadStatusToday, "
                                              "Write of a second JSONDB, Update); every gate passage is matched with the specification's action by FileCacheTrace.tla and "
                                              "every returned status is compared with the version the file held when the query looked at it",
                                      "sample": cstage["sample"],
                                      "inductive_invariant": {"tool": "apalache-mc 0.58 (symbolic, integers unbounded)", "module": "FileCacheInd.tla",
                                                              "claim": "IndInv (which implies C06_QueryFresh, C06_QueryNeverPanics, C06_EntryNotOlderThanStamp) is inductive for 3 concurrent queries and any number of writes and queries",
                                                              "runs": cstage["inductive"]}}
        if kstage:
            states += kstage["states"]
            transitions += kstage["transitions"]
            runs += kstage["runs"]
            events += kstage["events"]
            rep.cov["conc_stage"] = {"schedules_replayed": kstage["scenarios"], "gate_events_validated": kstage["events"], "relistings_seen": kstage["relists"],
                                     "rule": "HistoryConc.tla (a latest-status / recent-history query or a lookup by request id = listing + one visit per file, against the recorder's compaction "
                                             "create / write / unlink and the opening of the next run) checked exhaustively; its simulated behaviours and three fixed "
                                             "schedules replayed through the verif gates of the real jsondb; HistoryConcTrace.tla matches every gate passage and judges the "
                                             "returned answer: it must be one the store would have given at some moment while the query ran",
                                     "sample": kstage["sample"]}
        rep.cov.update({"states": states, "transitions": transitions, "model_checking_runs": runs,
                        "traces_validated_against_impl": len(verdicts) + (cstage["scenarios"] if cstage else 0) + (kstage["scenarios"] if kstage else 0), "operations_executed": nops, "trace_events": events,
                        "model_behaviours_replayed": len(scenarios),
                        "evaluations": len(verdicts), "distinct_nontrivial": len({json.dumps(s.get("ops"), sort_keys=True) + s.get("names", "") for s in by_id.values() if len(s.get("ops", [])) >= 5}),
                        "rule": "operation sequences (open/write/close, update, rename, remove-old, remove-all, ageing) over 3 DAG identities mapped to 8 name tables "
                                "(plain, spaces, compaction suffix, dots, short, glob metacharacters, backslashes, stamp-like), start stamps in the same second / minute / across midnight; "
                                "from TLC simulation of MCHistory and a seeded generator; after every operation all queries for all DAGs and request ids are compared with History.tla; "
                                "distinct by operation sequence + name table, non-trivial = at least 5 operations",
                        "samples": samples, "exhaustive": False})
        rep.assumptions += ["TZ=UTC; 'today' is the real current date (a run during which the date changes is INFRA)",
                            "two runs never share the same millisecond start stamp; rename/retention are not issued on a DAG whose writer is open (the system refuses edits while running)",
                            "while the newest run has no status yet, the answer of the latest query is not constrained",
                            "cache stage: the file grows with every recorded status (append-only), so size+mtime change with every write; the interleavings are those "
                            "at the three gates of the verif build (after the staleness check, after the parse, before the invalidation)"]
        return rep.finish()
    finally:
        shutil.rmtree(work, ignore_errors=True)
