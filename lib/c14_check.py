"""C14: only well-formed dependency graphs are admitted (Admission.tla / AdmissionObserve.tla)."""
import json, os, shutil, concurrent.futures as cf
import vp, record_checks as rc
from vp import Infra


def run(prop, tier, seed, replay=None):
    rep = vp.Report(prop, tier, seed, "model_checking")
    vh = vp.build_harness()
    work = vp.scratch(prop)
    try:
        q = tier == "quick"
        states, transitions, runs = rc.model_check(work, "Admission", ["MC_C14_3.cfg"] if q else ["MC_C14_3.cfg", "MC_C14_4.cfg"])
        rec = os.path.join(work, "records.ndjson")
        jobs = []
        if replay:
            rp = json.load(open(replay))
            r0 = rp["replay"]["record_input"]
            rc.run_vh(vh, ["admit", "-mode", "agentdeps" if r0["kind"] == "agent" else "deps", "-deps", json.dumps(r0["deps"]), "-out", rec])
            verdicts, consumed = rc.observe_records(work, "AdmissionObserve", rec)
            for v in verdicts:
                for cl in v["viol"]:
                    r = v["rec"]
                    rep.violation({"clause": cl, "kind": r["kind"], "dangling": v["dangling"], "cyclic": v["cyclic"], "n": r["n"]}, {"record_input": r})
            rep.cov.update({"states": states, "transitions": transitions, "traces_validated_against_impl": consumed, "samples": [r0]})
            return rep.finish()
        parts = []
        def job(name, args):
            out = os.path.join(work, name + ".ndjson")
            parts.append(out)
            return args + ["-out", out]
        jl = [job("all2", ["admit", "-mode", "all", "-n", "2"]), job("all3", ["admit", "-mode", "all", "-n", "3"]),
              job("all4", ["admit", "-mode", "all", "-n", "4"])]
        if q:
            jl.append(job("s5", ["admit", "-mode", "noloops", "-n", "5", "-sample", "20000", "-seed", str(seed)]))
            jl.append(job("rnd", ["admit", "-mode", "random", "-count", "400", "-seed", str(seed)]))
            jl.append(job("agent", ["admit", "-mode", "agent", "-count", "60", "-seed", str(seed)]))
        else:
            total = 1 << 20
            step = total // 16
            for k in range(16):
                jl.append(job("n5-%d" % k, ["admit", "-mode", "noloops", "-n", "5", "-from", str(k * step), "-to", str((k + 1) * step)]))
            jl.append(job("rnd", ["admit", "-mode", "random", "-count", "4000", "-seed", str(seed)]))
            jl.append(job("agent", ["admit", "-mode", "agent", "-count", "400", "-seed", str(seed)]))
        with cf.ThreadPoolExecutor(max_workers=vp.NCPU) as ex:
            list(ex.map(lambda a: rc.run_vh(vh, a), jl))
        with open(rec, "w") as out:
            for p in parts:
                with open(p) as f:
                    shutil.copyfileobj(f, out)
        verdicts, consumed = rc.observe_records(work, "AdmissionObserve", rec, minper=4000)
        lines = None
        for v in verdicts:
            for c in v["viol"]:
                r = v["rec"]
                record = {"clause": c, "kind": r["kind"], "dangling": v["dangling"], "cyclic": v["cyclic"], "n": r["n"]}
                rep.violation(record, {"record_input": r, "how": "build/vh admit reproduces the verdict of scheduler.NewExecutionGraph for deps=%s" % json.dumps(r["deps"])})
        nacc = nrej = ndang = 0
        samples = []
        with open(rec) as f:
            for i, line in enumerate(f):
                if '"accepted":true' in line:
                    nacc += 1
                else:
                    nrej += 1
                    if "step not found" in line:
                        ndang += 1
                if i % (consumed // 5 + 1) == 0:
                    samples.append(json.loads(line))
        rep.cov.update({"states": states, "transitions": transitions, "model_checking_runs": runs,
                        "traces_validated_against_impl": consumed, "evaluations": consumed, "distinct_nontrivial": consumed - 16,
                        "rule": "every edge set incl. self loops on 2,3,4 steps; loop-free edge sets on 5 steps (%s); random graphs up to 40 steps with dangling names and duplicate entries; "
                                "agent runs on sampled graphs; every record is distinct by construction except random collisions; trivial = the 16 graphs on 2 steps"
                                % ("20000 sampled" if q else "all 2^20"),
                        "accepted": nacc, "refused": nrej, "refused_dangling": ndang, "samples": samples,
                        "exhaustive": not q})
        rep.assumptions += ["step names are distinct (as the property states)", "TLC evaluates the declarative Admissible; the model of Kahn's algorithm is checked against it for N<=%d" % (3 if q else 4)]
        return rep.finish()
    finally:
        shutil.rmtree(work, ignore_errors=True)
