"""C11: parameters and step outputs reach the steps unchanged (Params.tla, ParamsObserve.tla, vh params; NodeIO capture clause)."""
import itertools, json, os, random, shutil, concurrent.futures as cf
import vp, record_checks as rc

CLASSES = ["bare", "space", "quote", "eq", "empty", "utf8", "bslash", "squote", "num", "dash", "comma", "spaceeq", "quoteeq"]
PAYLOADS = ["word", "spaces", "padded", "newline", "quotes", "eq", "dollar", "bslash", "utf8", "empty", "eqstart", "long4096", "long70000"]


def scenarios(tier, seed):
    rnd = random.Random(seed)
    out, i = [], 0
    def add(params, at_start, payload, noise=False, stop=False):
        nonlocal i
        i += 1
        out.append({"id": i, "params": params, "atStart": at_start, "payload": payload, "errNoise": noise, "stop": stop})
    # pinned reproductions of the open findings
    add([{"name": "", "class": "bare"}], True, "word", True)            # F-11c: stderr ends up in the captured value
    add([{"name": "", "class": "eq"}], False, "word")                   # F-11d: quoted positional value containing '='
    for c in CLASSES:
        for name in ["", "X"]:
            for at in [True, False]:
                add([{"name": name, "class": c}], at, PAYLOADS[i % len(PAYLOADS)])
    # stop while the producing (repeating) step executes: its last iteration's output reaches the exit handler and the retry
    for k, pl in enumerate(PAYLOADS if tier != "quick" else PAYLOADS[:6]):
        add([{"name": ["", "X"][k % 2], "class": CLASSES[k % len(CLASSES)]}], k % 2 == 0, pl, False, True)
    pairs = [(a, na, b, nb) for a in CLASSES for na in ["", "X"] for b in CLASSES for nb in ["", "Y"]]
    rnd.shuffle(pairs)
    for a, na, b, nb in pairs[:40 if tier == "quick" else 400]:
        add([{"name": na, "class": a}, {"name": nb, "class": b}], rnd.random() < 0.5, rnd.choice(PAYLOADS))
    return out


def run(prop, tier, seed, replay=None):
    rep = vp.Report(prop, tier, seed, "model_checking")
    vh = vp.build_harness()
    work = vp.scratch(prop)
    try:
        q = tier == "quick"
        states, transitions, runs = rc.model_check(work, "Params", ["MC_C11.cfg"], workers=8)
        scs = [json.load(open(replay))["replay"]["scenario"]] if replay else scenarios(tier, seed)
        nw = min(vp.NCPU, max(1, len(scs) // 4))
        jobs = []
        for w in range(nw):
            sf = os.path.join(work, "scen-%d.jsonl" % w)
            with open(sf, "w") as f:
                for s in scs[w::nw]:
                    f.write(json.dumps(s) + "\n")
            jobs.append(["params", "-scenarios", sf, "-out", os.path.join(work, "rec-%d.ndjson" % w)])
        if not replay:
            jobs.append(["params", "-tok", "6" if q else "8", "-out", os.path.join(work, "tok.ndjson")])
            # the same through the command layer of the real binary (start -p as the API's client spawns it, restart of the
            # running DAG, retry of the canceled run); without the two pinned scenarios of the open findings
            binary = vp.build_binary(os.path.join(work, "blackdagger"))
            cli = [s for s in scs if not s["errNoise"] and not s.get("stop")]
            cli = cli[:70] if q else cli[:400]
            ncw = min(vp.NCPU, 8)
            for w in range(ncw):
                sf = os.path.join(work, "cli-%d.jsonl" % w)
                with open(sf, "w") as f:
                    for s in cli[w::ncw]:
                        f.write(json.dumps(s) + "\n")
                jobs.append(["params", "-bin", binary] + (["-dying", "4" if q else "12"] if w == 0 else []) + ["-scenarios", sf, "-out", os.path.join(work, "clirec-%d.ndjson" % w)])
        elif json.load(open(replay))["replay"].get("cli"):
            binary = vp.build_binary(os.path.join(work, "blackdagger"))
            jobs = [["params", "-bin", binary, "-scenarios", jobs[0][2], "-out", os.path.join(work, "clirec-0.ndjson")]]
        env = dict(vp.GOENV, TMPDIR=work)
        with cf.ThreadPoolExecutor(max_workers=vp.NCPU) as ex:
            list(ex.map(lambda a: rc.run_vh(vh, a, env=env, timeout=3000), jobs))
        rec = os.path.join(work, "records.ndjson")
        nrun = ncli = 0
        with open(rec, "w") as out:
            for j in jobs:
                with open(j[-1]) as f:
                    for line in f:
                        if '"kind":"cli"' in line or '"kind":"dying"' in line:
                            ncli += 1
                        elif '"kind":"stop"' in line:
                            nrun += 1
                        elif '"kind"' not in line:
                            line = '{"kind":"run",' + line.lstrip()[1:]
                            nrun += 1
                        out.write(line)
        verdicts, consumed = rc.observe_records(work, "ParamsObserve", rec, minper=4000)
        ndrift = 0
        for v in verdicts:
            r = v["rec"]
            for c in v["viol"]:
                if c == "INFRA":
                    raise vp.Infra("params rig: %s (scenario %s)" % (r.get("infra"), json.dumps(r.get("sc"))))
                if c.startswith("DRIFT_"):
                    ndrift += 1
                    if ndrift <= 5:
                        rep.drift.append("spec=Params tokenizer: input=%s real=%s model=%s" % (r["in"], r["out"], v["model"]))
                    continue
                if r.get("kind") == "dying":
                    rep.violation({"clause": c, "dyingAgent": True, "cut": r["cut"]}, {"dying": {k: r.get(k) for k in ("id", "cut", "restartOk", "runsRecorded", "run2", "run2Params", "probe")}})
                    continue
                s = r["sc"]
                bad_vars = sorted({b for p in r["probes"].values() for b in p["bad"]})
                rep.violation({"clause": c, "errNoise": s["errNoise"], "stop": bool(s.get("stop")), "positionalWithEquals": any(p["name"] == "" and p["class"] == "eq" for p in s["params"]),
                               "classes": sorted({p["class"] for p in s["params"]}), "onlyOutput": set(bad_vars) <= {"OUTV", "ARG_OUTV"}},
                              {"scenario": s, "cli": r.get("kind") == "cli", "rendered": r["rendered"], "recordedParams": r.get("recordedParams"), "probes": r["probes"]})
        rep.cov["tokenizer_drift"] = ndrift
        samples = []
        with open(rec) as f:
            for i, line in enumerate(f):
                if i in (2, 30):
                    o = json.loads(line)
                    samples.append({k: o.get(k) for k in ("sc", "rendered", "recordedParams", "probes")} if o["kind"] == "run" else o)
        rep.cov.update({"states": states, "transitions": transitions, "model_checking_runs": runs,
                        "traces_validated_against_impl": consumed, "real_runs_with_retry": nrun, "real_binary_start_restart_retry": ncli, "tokenizer_strings": consumed - nrun - ncli,
                        "evaluations": consumed, "distinct_nontrivial": consumed - 1,
                        "rule": "runs: 1 or 2 parameters, positional or named, values from 13 classes (bare, blanks, double quotes, '=', empty, UTF-8, backslashes, single quote, number, leading dashes, punctuation, a blank before '=', a quote before '='), "
                                "given at start or as the DAG's default, x 13 output payload classes (blanks, padding to trim, newlines, quotes, '=', literal $VAR, backslashes, UTF-8, empty, 4096 and 70000 bytes); "
                                "every run is started through the real loader + agent and then retried as cmd/retry.go does; consumers: adjacent step, exit handler, non-adjacent step and handler in the retry; "
                                "stop runs: the producing step repeats and the run is stopped while its second iteration executes - the iteration's output must reach the exit handler and the retry; "
                                "cli: the first scenarios again through the real binary: client.Start (start -p \"...\"), restart while running, retry of the canceled run; restart against an agent that dies while answering the status query (the real status server's bytes, cut at 2 / 25 / 50 / 97 %%); "
                                "tokenizer: every string over {word char, blank, quote, equals, backslash} up to length %s through the real parser vs the TLA+ transcription" % ("6" if q else "8"),
                        "samples": samples, "exhaustive": False})
        rep.assumptions += ["value fidelity is checked on a class alphabet, not on all strings (DESIGN.md section 6)",
                            "the retry runs in the same process with the relevant environment variables cleared, standing in for the fresh process of `blackdagger retry`",
                            "$ and back-ticks in parameter values are evaluated by design and are not part of the alphabet"]
        return rep.finish()
    finally:
        shutil.rmtree(work, ignore_errors=True)
