"""C08 (reported status is truthful, never stuck) and C16 (at most one run of a DAG file at a time):
AgentLife.tla + the real blackdagger binary under the ptrace supervisor (vh agentlife), judged by AgentLifeObserve.tla."""
import json, os, shutil, concurrent.futures as cf
import vp, record_checks as rc, sched_checks


def run(prop, tier, seed, replay=None):
    rep = vp.Report(prop, tier, seed, "fault_enumeration" if prop == "C08" else "model_checking")
    vh = vp.build_harness()
    work = vp.scratch(prop)
    try:
        q = tier == "quick"
        if replay and "scenario" in json.load(open(replay)).get("replay", {}):
            return sched_checks._run("C08", tier, seed, replay, rep, vh, work)      # a scheduler-rig scenario of the label stage
        binary = vp.build_binary(os.path.join(work, "blackdagger"))
        cfgs = ["MC_C08.cfg", "MC_C08_two.cfg"] if prop == "C08" else ["MC_C16.cfg", "MC_C16_crash.cfg", "MC_C16_three.cfg"]
        states, transitions, runs = rc.model_check(work, "AgentLife", cfgs, workers=4)
        rec = os.path.join(work, "records.ndjson")
        env = dict(vp.GOENV, TMPDIR=work)
        mode = "kill" if prop == "C08" else "second"
        every = 1 if prop == "C08" else (9 if q else 2)      # the kill sweep is cheap (about 35 kill points): every point in both tiers
        rc.run_vh(vh, ["agentlife", "-bin", binary, "-mode", mode, "-every", str(every), "-out", rec], env=env, timeout=3000)
        verdicts, consumed = rc.observe_records(work, "AgentLifeObserve", rec, nchunks=1)
        for v in verdicts:
            r = v["rec"]
            for c in v["viol"]:
                if not c.startswith(prop + "_"):
                    continue
                if prop == "C08" and r["kind"] == "truth":
                    rep.violation({"clause": c, "variant": r["variant"]}, {"observed": r})
                elif prop == "C08":
                    rep.violation({"clause": c, "sys": r["sys"], "finalWritten": r["finalWritten"], "latest": r["latest"]},
                                  {"kill": {k: r[k] for k in ("k", "ncalls", "sys", "path")}, "observed": r})
                else:
                    rep.violation({"clause": c, "afterBind": r["afterBind"], "afterProbe": r["afterProbe"], "afterShutdown": r["afterShutdown"]},
                                  {"placement": {k: r[k] for k in ("k", "ncalls", "sys", "path")}, "observed": r})
        samples, by_sys = [], {}
        with open(rec) as f:
            for i, line in enumerate(f):
                o = json.loads(line)
                by_sys[o.get("sys", o["kind"])] = by_sys.get(o.get("sys", o["kind"]), 0) + 1
                if i in (2, 7):
                    samples.append(o)
        rep.cov.update({"states": states, "transitions": transitions, "model_checking_runs": runs,
                        "traces_validated_against_impl": consumed, "evaluations": consumed, "distinct_nontrivial": max(consumed - 1, 0),
                        "points_by_syscall": by_sys, "samples": samples, "exhaustive": not q})
        if prop == "C08":
            # second stage: the labels a finished run leaves behind (no step left "running", no failed step labelled finished)
            # under stop / timeout interleavings: StepSched invariants + gate-driven and free runs of the real scheduler,
            # SchedObserve clauses C08_FinalStatusRunning / C08_FinishedButFailed
            rep.cov["real_binary_stage"] = {k: rep.cov[k] for k in ("states", "transitions", "model_checking_runs", "traces_validated_against_impl",
                                                                    "evaluations", "distinct_nontrivial", "points_by_syscall", "samples")}
            first = dict(rep.cov)
            w2 = os.path.join(work, "labels")
            os.makedirs(w2)
            sched_checks._run("C08", tier, seed, None, rep, vh, w2, finish=False)
            rep.cov["label_stage"] = {k: rep.cov[k] for k in ("states", "transitions", "model_checking_runs", "traces_validated_against_impl",
                                                               "evaluations", "distinct_nontrivial", "monitor_clauses_failed", "antecedents_exercised") if k in rep.cov}
            for k in ("states", "transitions", "traces_validated_against_impl", "evaluations", "distinct_nontrivial"):
                rep.cov[k] = first[k] + rep.cov["label_stage"].get(k, 0)
            rep.cov["model_checking_runs"] = first["model_checking_runs"] + rep.cov["label_stage"].get("model_checking_runs", [])
            rep.cov["samples"] = first["samples"]
            rep.cov["exhaustive"] = False
            rep.cov["rule"] = ("the real binary runs `start` on a 2-step DAG with a success and an exit handler under ptrace; it is SIGKILLed at the entry of every relevant system call%s "
                               "(history, log, marker, status socket; whole process group), then the real client's GetLatestStatus is asked, the DAG is started again with the real binary and "
                               "must run to completion and be recorded; plus the unkilled control run; distinct = kill points" % "")
            rep.assumptions += ["live / final truth is checked on three unkilled runs of the real binary (all succeed; failure with retry and continueOn plus a blocked step; unmet precondition) polled every 40 ms",
                                "a final status that becomes visible a moment before the process exits is accepted as live answer"]
        else:
            rep.cov["rule"] = ("the first `start` of the real binary is held at its k-th relevant system call (every call between its probe and its bind; every %s elsewhere) while a second `start` of the same file "
                               "runs to completion; steps append their own DAG_REQUEST_ID to a marker file; distinct = placements" % ("9th" if q else "2nd"))
            rep.assumptions += ["only the thread making the k-th call is held; the other threads of the first process keep running (its status socket keeps answering unless that thread holds a lock the handler needs)"]
        return rep.finish()
    finally:
        shutil.rmtree(work, ignore_errors=True)
