"""C09: the daemon starts each DAG exactly at its scheduled minutes (CronDaemon.tla, Props_Cron.tla, CronObserve.tla)."""
import json, os, shutil, concurrent.futures as cf
import vp, record_checks as rc, sched_checks as sc
from vp import Infra


def observe_chunk(d):
    v, consumed, r = vp.observe(d, "CronObserve", os.path.join(d, "trace.ndjson"))
    return v, consumed, vp.parse_prints(r["out"], "DETAIL")


def run(prop, tier, seed, replay=None):
    rep = vp.Report(prop, tier, seed, "model_checking")
    vh = vp.build_harness()
    work = vp.scratch(prop)
    try:
        q = tier == "quick"
        states, transitions, runs = rc.model_check(work, "MCCron", ["MC_C09q.cfg"] if q else ["MC_C09q.cfg", "MC_C09.cfg"])
        # the three operations, the watcher's event queue and the lock it shares with the tick
        st2, tr2, runs2 = rc.model_check(work, "MCCronOps", ["MC_C09_ops_quick.cfg"] if q else ["MC_C09_ops_quick.cfg", "MC_C09_ops.cfg"])
        states, transitions, runs = states + st2, transitions + tr2, runs + runs2
        jobs = []
        if replay:
            sf = os.path.join(work, "replay.jsonl")
            with open(sf, "w") as f:
                f.write(json.dumps(json.load(open(replay))["replay"]["scenario"]) + "\n")
            jobs.append((["cron", "-scenarios", sf], os.path.join(work, "replay.ndjson"), None))
        else:
            n = 240 if q else 4000
            per = max(15, n // (vp.NCPU * 2))
            first = 1
            while first <= n:
                m = min(per, n - first + 1)
                jobs.append((["cron", "-count", str(m), "-seed", str(seed * 15485863 + first), "-first", str(first)],
                             os.path.join(work, "cron-%d.ndjson" % first), os.path.join(work, "cron-%d.scen" % first)))
                first += m
        def do(j):
            return rc.run_vh(vh, j[0] + ["-out", j[1]] + (["-dump", j[2]] if j[2] else []), timeout=3000)
        with cf.ThreadPoolExecutor(max_workers=vp.NCPU) as ex:
            list(ex.map(do, jobs))
        by_id = {}
        alltrace = os.path.join(work, "all.ndjson")
        nticks = 0
        with open(alltrace, "w") as out:
            for _, tp, dp in jobs:
                with open(tp) as f:
                    for line in f:
                        if '"ev":"Tick"' in line:
                            nticks += 1
                        out.write(line)
                if dp:
                    for line in open(dp):
                        s = json.loads(line)
                        by_id[s["scen"]] = s
        chunks = sc.split_trace(alltrace, vp.NCPU, os.path.join(work, "obs"))
        verdicts, events, details = [], 0, []
        with cf.ThreadPoolExecutor(max_workers=vp.NCPU) as ex:
            for v, c, dt in ex.map(observe_chunk, chunks):
                verdicts += v
                events += c
                details += dt
        first_detail = {}
        for dt in details:
            first_detail.setdefault(dt["scen"], dt)
        nexpr = 0
        for s in by_id.values():
            for d in s["dags"] + (s.get("extra") or []):
                nexpr += len(d.get("start") or []) + len(d.get("stop") or []) + len(d.get("restart") or [])
        skipped = sum(1 for v in verdicts if v.get("skipped"))
        rep.cov["scenarios_skipped_no_inotify"] = skipped
        if verdicts and skipped == len(verdicts):
            raise Infra("no inotify instance left on this machine: the daemon's watcher fell back to polling in every scenario")
        for v in verdicts:
            for c in v["viol"]:
                dt = first_detail.get(v["scen"], {})
                dags = dt.get("dags", {})
                forms = sorted({x["rec"]["def"]["form"] for x in dags.values()})
                multi = any(x.get("nStartSched", 0) > 1 for x in dags.values())
                rep.violation({"clause": c, "delayed": v["delayed"], "forms": forms, "severalSchedulesSameMinute": multi},
                              {"scenario": by_id.get(v["scen"]), "first_mismatch": {k: dt.get(k) for k in ("i", "m", "bd", "viol")},
                               "dags": {n: {"viol": x["viol"], "rec": x["rec"]} for n, x in dags.items()}})
        some = list(by_id.values())[:2]
        samples = [{"scen": s["scen"], "t0": s["t0"], "nticks": s["nticks"], "delayed": s["delayed"], "events": s["events"],
                    "dags": [{"name": d["name"], "form": d["form"], "start": [e["text"] for e in d.get("start") or []], "hist": d["hist"]} for d in s["dags"]]} for s in some]
        rep.cov.update({"states": states, "transitions": transitions, "model_checking_runs": runs,
                        "traces_validated_against_impl": len(verdicts), "ticks": nticks, "cron_expressions": nexpr, "trace_events": events,
                        "evaluations": nticks, "distinct_nontrivial": len(by_id),
                        "rule": "scenario = 2-5 DAG files (string / list / start-stop-restart map / no schedule / unparsable / bad cron; suspended; prior history none/old/running/same minute) "
                                "with cron expressions generated from structure (lists, ranges, steps, names, ?), a calendar window (leap day, month and year ends, random), 12-31 consecutive ticks with "
                                "lateness patterns (on time, bursts caught up by bunched ticks, sub-minute jitter), immediate or delayed visibility of starts, and events (file added / edited / broken / removed "
                                "through the real watcher, suspend / resume, daemon restart, daemon restart with a file added during start-up); evaluations = ticks, distinct = scenarios",
                        "samples": samples, "exhaustive": False})
        rep.assumptions += ["TZ=UTC; broken-down time of a tick is computed with Go's time package",
                            "the fake client answers GetLatestStatus from its own run table; a monitor judges every job by the answer that job was given",
                            "file events must be seen by the fsnotify watcher within 5 s"]
        return rep.finish()
    finally:
        shutil.rmtree(work, ignore_errors=True)
