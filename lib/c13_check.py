"""C13 (any content is rejected or yields a runnable DAG) and C19 (listing/viewing/validating has no side effects):
loader rig records judged by LoaderObserve.tla; C19 additionally model-checks the evaluation policy table."""
import json, os, shutil
import vp, record_checks as rc


def run(prop, tier, seed, replay=None):
    rep = vp.Report(prop, tier, seed, "exploration")
    vh = vp.build_harness()
    work = vp.scratch(prop)
    try:
        q = tier == "quick"
        rec = os.path.join(work, "records.ndjson")
        states = transitions = 0
        runs = []
        if prop == "C19":
            states, transitions, runs = rc.model_check(work, "LoaderPolicy", ["MC_C19.cfg"], workers=2)
            res = rc.run_vh(vh, ["loader", "-mode", "canary", "-out", rec])
        else:
            res = rc.run_vh(vh, ["loader", "-mode", "shapes", "-pairs", str(1500 if q else 40000), "-bytes", str(1500 if q else 40000),
                                 "-seed", str(seed), "-out", rec], timeout=3000)
        if replay:
            want = json.load(open(replay))["replay"]["record_input"]
            keys = ("label", "entry") if prop == "C13" else ("field", "plant", "entry")
            lines = [l for l in open(rec) if all(json.loads(l).get(k) == want.get(k) for k in keys)]
            with open(rec, "w") as f:
                f.writelines(lines)
        verdicts, consumed = rc.observe_records(work, "LoaderObserve", rec, minper=3000)
        fired = 0
        for v in verdicts:
            r = v["rec"]
            for c in v["viol"]:
                if c.startswith("VACUITY_"):
                    raise vp.Infra("vacuity guard: the executing entry point did not evaluate %s - the canaries do not work" % r.get("field"))
                if not c.startswith(prop + "_"):
                    continue
                if prop == "C13":
                    site = r.get("site") or (r.get("post") or {}).get("site") or ""
                    record = {"clause": c, "entry": r["entry"], "site": site.split(":")[0], "docKind": r["kind"],
                              "where": label_class(r["label"])}
                    rep.violation(record, {"record_input": {"label": r["label"], "entry": r["entry"]}, "site": site, "post": r.get("post")})
                else:
                    rep.violation({"clause": c, "entry": r["entry"], "field": r["field"], "plant": r["plant"]},
                                  {"record_input": {"field": r["field"], "plant": r["plant"], "entry": r["entry"]}, "env": r["env"], "fired": r["fired"]})
        kinds, outcomes, samples = {}, {}, []
        with open(rec) as f:
            for i, line in enumerate(f):
                o = json.loads(line)
                kinds[o["kind"]] = kinds.get(o["kind"], 0) + 1
                if "outcome" in o:
                    outcomes[o["outcome"]] = outcomes.get(o["outcome"], 0) + 1
                if o.get("fired"):
                    fired += 1
                if i % (consumed // 4 + 1) == 1:
                    samples.append(o)
        rep.cov.update({"evaluations": consumed, "distinct_nontrivial": consumed - 4,
                        "records_by_kind": kinds, "outcomes": outcomes, "canaries_fired_in_executing_entry": fired,
                        "traces_validated_against_impl": consumed, "samples": samples, "exhaustive": False})
        if prop == "C13":
            rep.cov["rule"] = ("every node of a rich valid definition (name, schedule map, env, params, handlers, mail, smtp, functions, 5 steps with executor config, preconditions, "
                               "retry/repeat/continueOn, call, run) deleted or replaced by each of 24 shapes (null, scalars, lists of null/int/map, maps with unknown / nested / non-string keys, "
                               "bad regexp, command substitution, bad signal names, bad cron, negative, huge), sampled pairs of such deviations and byte-level mutations (truncate, bit flip, "
                               "duplicate, insert YAML syntax, delete), each through LoadYAML, LoadMetadata, LoadWithoutEval and Load; distinct by construction (random pairs may repeat); "
                               "trivial = the unmutated base document")
            rep.assumptions += ["'every byte string' is sampled, not enumerated: structural single deviations are complete for the base document, pairs and byte mutations are seeded samples",
                                "panics are caught with recover(); a fatal runtime error (stack overflow, concurrent map write) would end the harness and be reported as INFRA"]
        else:
            rep.cov.update({"states": states, "transitions": transitions, "model_checking_runs": runs,
                            "rule": "a back-tick command (touch canary) and a ${VAR} reference planted in each of the 53 string-valued leaves of the rich definition x 13 entry points "
                                    "(LoadYAML, LoadMetadata, LoadWithoutEval, DAGStore GetDetails/GetMetadata/List/Grep/UpdateSpec, Client GetStatus/GetAllStatus, daemon initDags and the daemon watcher picking up a new and a re-saved file; Load as executing control); "
                                    "exhaustive for this document; trivial = the 4 records of the control entry that must fire"})
            rep.cov["exhaustive"] = True
            rep.assumptions += ["side effects observed: canary file created, os.Environ() difference; other effects (network, other files) are not observed"]
        return rep.finish()
    finally:
        shutil.rmtree(work, ignore_errors=True)


def label_class(label):
    """coarse location of the (first) deviation, for known-finding signatures"""
    first = label.split(" & ")[0]
    path, _, shape = first.partition(":=")
    parts = [p for p in path.split(".") if not p.isdigit()]
    return ".".join(parts[:3]) + ":=" + shape
