"""C17: no API request gets through without valid credentials (Auth.tla / AuthObserve.tla)."""
import json, os, shutil
import vp, record_checks as rc


def run(prop, tier, seed, replay=None):
    rep = vp.Report(prop, tier, seed, "model_checking")
    vh = vp.build_harness()
    work = vp.scratch(prop)
    try:
        states, transitions, runs = rc.model_check(work, "Auth", ["MC_C17.cfg"])
        rec = os.path.join(work, "records.ndjson")
        rc.run_vh(vh, ["auth", "-out", rec])
        if replay:
            want = json.load(open(replay))["replay"]["record_input"]
            keys = ("basic", "token", "base", "scheme", "sep", "pay", "shape", "method")
            lines = [l for l in open(rec) if all(json.loads(l)[k] == want[k] for k in keys)]
            with open(rec, "w") as f:
                f.writelines(lines)
        verdicts, consumed = rc.observe_records(work, "AuthObserve", rec, minper=4000)
        ndrift = 0
        for v in verdicts:
            r = v["rec"]
            for c in v["viol"]:
                if c.startswith("DRIFT_"):
                    ndrift += 1
                    if ndrift <= 5:
                        rep.drift.append("spec=Auth model=%s real(code=%s reached=%s) request=%s" % (v["model"], r["code"], r["reached"], json.dumps({k: r[k] for k in ("basic", "token", "base", "scheme", "sep", "pay", "shape", "method")})))
                    continue
                record = {"clause": c, "basic": r["basic"], "token": r["token"], "scheme": r["scheme"], "sep": r["sep"], "pay": r["pay"]}
                rep.violation(record, {"record_input": r, "how": "the request line: %s %s Authorization: %r" % (r["method"], r["path"], r["header"])})
        rep.cov["drift_records"] = ndrift
        counts = {"must_pass_auth": 0, "denied": 0, "api_reached": 0}
        samples = []
        with open(rec) as f:
            for i, line in enumerate(f):
                o = json.loads(line)
                if o["code"] == 401:
                    counts["denied"] += 1
                if o["reached"]:
                    counts["api_reached"] += 1
                    if (o["basic"] or o["token"]) and len(samples) < 3:
                        samples.append(o)
                if i % 30011 == 7:
                    samples.append(o)
        rep.cov.update({"states": states, "transitions": transitions, "model_checking_runs": runs,
                        "traces_validated_against_impl": consumed, "evaluations": consumed, "distinct_nontrivial": consumed * 3 // 4,
                        "rule": "4 auth configurations x base path on/off x 6 schemes x 4 separators x 26 payload classes x 8 path shapes x 4 methods, "
                                "all sent through the real chain; distinct by construction; non-trivial = some auth configured (3 of 4 configurations)",
                        "outcomes": counts, "samples": samples, "exhaustive": True})
        rep.assumptions += ["the abstract header grammar (atoms) of Auth.tla: secrets are opaque; concrete strings are fixed (admin/s3cret/tok-123456)",
                            "freedom: a request that presents a configured secret in a non-standard form may be accepted or refused"]
        return rep.finish()
    finally:
        shutil.rmtree(work, ignore_errors=True)
