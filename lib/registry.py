"""property id -> check function(prop, tier, seed, replay_path) -> exit code"""
import sched_checks

CHECKS = {}
for p in ("C01", "C02", "C03", "C04", "C05", "C15"):
    CHECKS[p] = sched_checks.run

import c14_check
CHECKS["C14"] = c14_check.run

import c17_check
CHECKS["C17"] = c17_check.run

import c10_check
CHECKS["C10"] = c10_check.run

import c06_check
CHECKS["C06"] = c06_check.run

import c07_check
CHECKS["C07"] = c07_check.run

import c09_check
CHECKS["C09"] = c09_check.run

import c13_check
CHECKS["C13"] = c13_check.run
CHECKS["C19"] = c13_check.run

import c20_check
CHECKS["C20"] = c20_check.run
CHECKS["C18"] = c20_check.run

import c12_check
CHECKS["C12"] = c12_check.run

import c11_check
CHECKS["C11"] = c11_check.run

import c08_check
CHECKS["C08"] = c08_check.run
CHECKS["C16"] = c08_check.run
