"""C12: a finished step's log holds everything the step printed (NodeIO.tla, NodeIOObserve.tla, vh nodeio with real children)."""
import itertools, json, os, random, shutil, concurrent.futures as cf
import vp, record_checks as rc

SIZES_Q = [0, 1, 4095, 4096, 4097, 65536, 65537]
SIZES_T = SIZES_Q + [8191, 8192, 8193, 131072, 1 << 20]


def scenarios(tier, seed):
    rnd = random.Random(seed)
    sizes = SIZES_Q if tier == "quick" else SIZES_T + [rnd.randrange(2, 300000) for _ in range(6)]
    out, i = [], 0
    # the pinned schedule of F-12b (fixed): the deferred part of the failed attempt's goroutine runs after the relaunched
    # attempt installed its files
    out.append({"id": 0, "stdoutFile": True, "stderrFile": False, "output": False, "script": False, "retries": 1, "failUntil": 1,
                "nout": 100, "nerr": 10, "order": "outfirst", "doneChan": True, "tailLate": True})
    for so, se, ou, scr in itertools.product([False, True], repeat=4):
        for retries, fail in [(0, 0), (1, 1), (2, 2), (1, 0), (2, 1), (1, 2)]:
            for n in sizes:
                if tier == "quick" and n > 65537:
                    continue
                if ou and n > 100000:
                    # a captured value is exported as an environment variable: above 128 KiB (MAX_ARG_STRLEN) every later
                    # exec of the process fails with E2BIG, which says nothing about the log
                    continue
                i += 1
                # (with output: the stderr size is capped: the captured value - which, F-11c, includes stderr - must stay
                # below the 128 KiB limit of one environment string or every later exec fails with E2BIG)
                out.append({"id": i, "stdoutFile": so, "stderrFile": se, "output": ou, "script": scr, "retries": retries, "failUntil": fail,
                            "nout": n, "nerr": min([0, 1, n // 2 + 1, n][(i // 4) % 4], n), "order": ["outfirst", "errfirst", "chunks", "parallel"][i % 4],
                            # Schedule without a done channel is what the unit tests do; the agent always passes one.
                            # tailLate: the old goroutine's deferred part is held until the next attempt is being executed
                            "doneChan": i % 2 == 0, "tailLate": fail > 0 and (i // 2) % 2 == 0})
                if out[-1]["order"] == "parallel":
                    out[-1]["nerr"] = n          # both streams at full volume, written at the same time
    # a repeating step that goes on after a failed iteration (continueOn.failure): the iterations share one attempt, its log
    # (and the stdout / stderr files) must hold what every iteration printed, also the ones after the failed one
    for so, se in itertools.product([False, True], repeat=2):
        for n in ([100, 5000] if tier == "quick" else [1, 100, 4097, 5000, 70000]):
            for fail in (0, 1, 2):
                i += 1
                out.append({"id": i, "stdoutFile": so, "stderrFile": se, "output": False, "script": i % 3 == 0, "retries": 0, "failUntil": fail,
                            "nout": n, "nerr": n // 2 + 1, "order": ["outfirst", "chunks", "errfirst"][i % 3], "doneChan": i % 2 == 0, "tailLate": False,
                            "repeat": 3})
    # an executor that writes the bytes itself (Write calls on the writers the node hands it, as the jq / http / mail / docker
    # executors do) instead of running a child: a child's output is copied by os/exec through bufio.Writer.ReadFrom, which
    # bypasses an empty buffer, so only this kind shows whether every buffered writer (log, stdout file, stderr file) is
    # flushed and closed at teardown (F-12c: the stderr file's writer was not)
    for so, se, ou in itertools.product([False, True], repeat=3):
        for retries, fail in [(0, 0), (1, 1), (2, 1), (1, 2)]:
            for n in ([1, 100, 4096, 4097, 10000] if tier == "quick" else [0, 1, 100, 4095, 4096, 4097, 8193, 10000, 65537, rnd.randrange(2, 60000)]):
                i += 1
                out.append({"id": i, "stdoutFile": so, "stderrFile": se, "output": ou, "script": False, "retries": retries, "failUntil": fail,
                            "nout": n, "nerr": [n, n // 2 + 1, 1][i % 3], "order": ["outfirst", "errfirst", "chunks"][i % 3],
                            "doneChan": i % 2 == 0, "tailLate": False, "writer": True})
    # both streams written at the same time with output: set: the executor then drains two pipes concurrently into writers
    # that share the log (and the stdout file). A missing lock there corrupts only now and then (about 3 % of such runs),
    # so this configuration is repeated often
    for k in range(200 if tier == "quick" else 1200):
        i += 1
        n = [65536, 100000, 30000, 4097][k % 4]
        out.append({"id": i, "stdoutFile": k % 2 == 0, "stderrFile": False, "output": True, "script": k % 8 == 7, "retries": 0, "failUntil": 0,
                    "nout": n, "nerr": n, "order": "parallel", "doneChan": True, "tailLate": False})
    return out


def run(prop, tier, seed, replay=None):
    rep = vp.Report(prop, tier, seed, "model_checking")
    vh = vp.build_harness()
    work = vp.scratch(prop)
    try:
        states, transitions, runs = rc.model_check(work, "NodeIO", ["MC_C12.cfg", "MC_C12_plain.cfg", "MC_C12_stdout.cfg", "MC_C12_writer.cfg"], workers=4)
        # the two-stream part (stdout and stderr drained by two goroutines into one locked buffered writer)
        st2, tr2, runs2 = rc.model_check(work, "NodeIOStreams", ["MC_C12_streams.cfg"], workers=2)
        states, transitions, runs = states + st2, transitions + tr2, runs + runs2
        scs = [json.load(open(replay))["replay"]["scenario"]] if replay else scenarios(tier, seed)
        nw = min(vp.NCPU, max(1, len(scs) // 8))
        jobs = []
        for w in range(nw):
            sf = os.path.join(work, "scen-%d.jsonl" % w)
            with open(sf, "w") as f:
                for s in scs[w::nw]:
                    f.write(json.dumps(s) + "\n")
            jobs.append(["nodeio", "-scenarios", sf, "-out", os.path.join(work, "rec-%d.ndjson" % w)])
        env = dict(vp.GOENV, TMPDIR=work)
        with cf.ThreadPoolExecutor(max_workers=nw) as ex:
            list(ex.map(lambda a: rc.run_vh(vh, a, env=env, timeout=3000), jobs))
        rec = os.path.join(work, "records.ndjson")
        with open(rec, "w") as out:
            for j in jobs:
                with open(j[-1]) as f:
                    shutil.copyfileobj(f, out)
        verdicts, consumed = rc.observe_records(work, "NodeIOObserve", rec, minper=400)
        for v in verdicts:
            r = v["rec"]
            s = r["sc"]
            for c in v["viol"]:
                if not c.startswith(prop + "_"):
                    continue
                rep.violation({"clause": c, "tailLate": s["tailLate"], "retried": s["failUntil"] > 0, "stderrShared": not s["stderrFile"] and s["nerr"] > 0,
                               "output": s["output"], "stdoutFile": s["stdoutFile"], "doneChan": s["doneChan"]},
                              {"scenario": s, "observed": {k: r[k] for k in ("status", "attempts", "log", "stdoutFile", "stderrFile", "outputVar", "hung", "err")}})
        samples = []
        with open(rec) as f:
            for i, line in enumerate(f):
                if i in (1, 200):
                    samples.append(json.loads(line))
        rep.cov.update({"states": states, "transitions": transitions, "model_checking_runs": runs,
                        "traces_validated_against_impl": consumed, "evaluations": consumed, "distinct_nontrivial": consumed - len([s for s in scs if s["nout"] == 0 and s["nerr"] == 0]),
                        "rule": "every combination of {stdout file, stderr file, output variable, script} x retry plans (limit, failing attempts) in {(0,0),(1,1),(2,2),(1,0),(2,1),(1,2)} x stdout sizes "
                                "%s x stderr sizes {0, 1, half, same} x write order {stdout first, stderr first, alternating 1000-byte chunks}; real child processes, real command executor, "
                                "byte-exact comparison of log / stdout file / stderr file / captured variable; plus the pinned gate schedule of F-12b; trivial = nothing printed" % sizes_text(tier),
                        "samples": samples, "exhaustive": False})
        rep.assumptions += ["where stderr has no file of its own the code routes it into the same writer chain as stdout: the log (and the stdout file) are then compared with the child's output in write order",
                            "retried steps are scheduled with a done channel, as the agent does"]
        return rep.finish()
    finally:
        shutil.rmtree(work, ignore_errors=True)


def sizes_text(tier):
    return str(SIZES_Q) if tier == "quick" else str(SIZES_T) + " + 6 random"
