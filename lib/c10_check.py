"""C10: retry re-executes exactly the unfinished part (RetryGraph.tla, RetryObserve.tla, SchedObserve C10 clauses)."""
import json, os, shutil, concurrent.futures as cf
import vp, record_checks as rc, sched_checks as sc
from vp import Infra


def run(prop, tier, seed, replay=None):
    rep = vp.Report(prop, tier, seed, "model_checking")
    vh = vp.build_harness()
    work = vp.scratch(prop)
    try:
        q = tier == "quick"
        st1, tr1, runs1 = rc.model_check(work, "RetryGraph", ["MC_C10_3fixed.cfg"])
        st2, tr2, runs2 = rc.model_check(work, "MCStepSched", ["MC_C10_reach.cfg"] + ([] if q else ["MC_C10_reach_stop.cfg"]))
        # ---- graph records: every DAG shape x every status vector through the real NewExecutionGraphForRetry
        rec = os.path.join(work, "records.ndjson")
        parts = []
        if replay:
            rp = json.load(open(replay))["replay"]
            if "scenario_pair" in rp:
                return _replay_runs(rep, vh, work, rp, st1 + st2, tr1 + tr2)
            r0 = rp["record_input"]
            with open(os.path.join(work, "one.json"), "w") as f:
                json.dump(r0, f)
            rc.run_vh(vh, ["retrygraph", "-one", os.path.join(work, "one.json"), "-out", rec])
        else:
            jobs = [["retrygraph", "-n", "2", "-out", os.path.join(work, "g2.ndjson")], ["retrygraph", "-n", "3", "-out", os.path.join(work, "g3.ndjson")]]
            if not q:
                total = 1 << 16
                step = total // 16
                for k in range(16):
                    jobs.append(["retrygraph", "-n", "4", "-from", str(k * step), "-to", str((k + 1) * step), "-out", os.path.join(work, "g4-%d.ndjson" % k)])
            with cf.ThreadPoolExecutor(max_workers=vp.NCPU) as ex:
                list(ex.map(lambda a: rc.run_vh(vh, a), jobs))
            with open(rec, "w") as out:
                for j in jobs:
                    with open(j[-1]) as f:
                        shutil.copyfileobj(f, out)
        verdicts, consumed = rc.observe_records(work, "RetryObserve", rec, minper=5000)
        for v in verdicts:
            r = v["rec"]
            for c in v["viol"]:
                rep.violation({"clause": c, "hasRunning": v["hasRunning"], "onlyRunningWrong": v["onlyRunningWrong"]},
                              {"record_input": {k: r[k] for k in ("n", "deps", "contF", "contS", "before")}, "after": r["after"]})
        if replay:
            rep.cov.update({"states": st1 + st2, "transitions": tr1 + tr2, "traces_validated_against_impl": consumed, "samples": [r0]})
            return rep.finish()
        # ---- real retry runs: a first run (failures / stop / "killed here" snapshot), then its retry, both gate-driven
        n = 400 if q else 6000
        jobs, first = [], 1
        while first <= n:
            m = min(300, n - first + 1)
            jobs.append((["sched", "-family", "retry", "-count", str(m), "-seed", str(seed * 104729 + first), "-first", str(first)],
                         os.path.join(work, "retry-%d.ndjson" % first), os.path.join(work, "retry-%d.scen" % first)))
            first += m
        def do(j):
            return sc.run_vh(vh, j[0] + ["-out", j[1], "-dump", j[2]])
        with cf.ThreadPoolExecutor(max_workers=max(2, vp.NCPU // 2)) as ex:
            list(ex.map(do, jobs))
        by_id = {}
        alltrace = os.path.join(work, "all.ndjson")
        with open(alltrace, "w") as out:
            for _, tp, dp in jobs:
                with open(tp) as f:
                    shutil.copyfileobj(f, out)
                for line in open(dp):
                    s = json.loads(line)
                    by_id[s["id"]] = s
        chunks = sc.split_trace(alltrace, vp.NCPU, os.path.join(work, "obs"))
        rverdicts, events = [], 0
        with cf.ThreadPoolExecutor(max_workers=vp.NCPU) as ex:
            for v, c in ex.map(sc.observe_chunk, chunks):
                rverdicts += v
                events += c
        nretry = nrun = 0
        for v in rverdicts:
            if v["retry"]:
                nretry += 1
                if v["initHasRunning"]:
                    nrun += 1
            for c in [c for c in v["viol"] if c.startswith("C10_")]:
                pair = [by_id.get(v["run"] - 1), by_id.get(v["run"])]
                rep.violation({"clause": c, "initHasRunning": v["initHasRunning"]}, {"scenario_pair": pair, "verdict": v})
        # ---- the parameter clause ("the retry uses ... the parameter values of the recorded run"): real start + retry runs
        # with probe steps (the rig of C11), judged by ParamsObserve; only the retry-side clauses count here
        import c11_check
        pscs = [s for s in c11_check.scenarios(tier, seed) if s["atStart"] and not s["errNoise"]][:60 if q else 400]
        pjobs = []
        npw = min(vp.NCPU, 8)
        for w in range(npw):
            sf = os.path.join(work, "par-%d.jsonl" % w)
            with open(sf, "w") as f:
                for s in pscs[w::npw]:
                    f.write(json.dumps(s) + "\n")
            pjobs.append(["params", "-scenarios", sf, "-out", os.path.join(work, "parrec-%d.ndjson" % w)])
        with cf.ThreadPoolExecutor(max_workers=npw) as ex:
            list(ex.map(lambda a: rc.run_vh(vh, a, env=dict(vp.GOENV, TMPDIR=work), timeout=3000), pjobs))
        prec = os.path.join(work, "parrecords.ndjson")
        with open(prec, "w") as out:
            for j in pjobs:
                for line in open(j[-1]):
                    out.write('{"kind":"run",' + line.lstrip()[1:])
        pverdicts, pconsumed = rc.observe_records(work, "ParamsObserve", prec, minper=4000)
        for v in pverdicts:
            r = v["rec"]
            for c in v["viol"]:
                if c == "INFRA":
                    raise Infra("params rig: %s" % r.get("infra"))
                if c == "C11_RetryParametersDiffer":
                    rep.violation({"clause": "C10_RetryUsesOtherParameters", "classes": sorted({p["class"] for p in r["sc"]["params"]})},
                                  {"param_scenario": r["sc"], "rendered": r["rendered"], "recordedParams": r.get("recordedParams"), "probes": r["probes"]})
        rep.cov["retry_runs_with_parameters"] = pconsumed
        samples = [json.loads(l) for l in open(rec).read().splitlines()[5000:5003]]
        samples += [{k: s.get(k) for k in ("id", "n", "deps", "init", "failK", "stop")} for s in list(by_id.values())[1:4]]
        rep.cov.update({"states": st1 + st2, "transitions": tr1 + tr2, "model_checking_runs": runs1 + runs2,
                        "traces_validated_against_impl": consumed + len(rverdicts), "graph_records": consumed, "retry_runs": nretry,
                        "retry_runs_from_killed_vector_with_running_step": nrun, "trace_events": events,
                        "evaluations": consumed + len(rverdicts), "distinct_nontrivial": consumed // 2,
                        "rule": "graph records: every acyclic dependency relation on 2..%d steps x every status vector in {not started, running, failed, canceled, finished, skipped}^n x continueOn all-off/all-on "
                                "(judged only when the vector is Consistent, i.e. can be left behind by a run - an invariant of StepSched); retry runs: seeded first run (failures, stop, or killed-at-move snapshot) then its retry through the gates; "
                                "non-trivial = at least one unfinished and one finished step (estimated as half)" % (3 if q else 4),
                        "samples": samples, "exhaustive": False})
        rep.assumptions += ["the parameter clause of C10 is judged on the start + retry runs of the C11 rig (probe steps dump what they see in the retry)",
                            "recorded vectors are fed to the scheduler as NodeState.Status (what agent.setupGraphForRetry does with the persisted status)"]
        return rep.finish()
    finally:
        shutil.rmtree(work, ignore_errors=True)


def _replay_runs(rep, vh, work, rp, states, transitions):
    scen = os.path.join(work, "pair.jsonl")
    pair = [p for p in rp["scenario_pair"] if p]
    with open(scen, "w") as f:
        for p in pair:
            f.write(json.dumps(p) + "\n")
    tp = os.path.join(work, "pair.ndjson")
    sc.run_vh(vh, ["sched", "-scenarios", scen, "-out", tp])
    d = os.path.join(work, "obs1")
    os.makedirs(d)
    shutil.copyfile(tp, os.path.join(d, "trace.ndjson"))
    v, c = sc.observe_chunk(d)
    for x in v:
        for cl in [cl for cl in x["viol"] if cl.startswith("C10_")]:
            rep.violation({"clause": cl, "initHasRunning": x["initHasRunning"]}, {"scenario_pair": pair, "verdict": x})
    rep.cov.update({"states": states, "transitions": transitions, "traces_validated_against_impl": len(v), "samples": pair[:1]})
    return rep.finish()
