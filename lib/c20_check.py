"""C20 (control actions respect the state of the run) and C18 (definitions are created / saved / renamed / deleted safely):
ApiControl.tla + MCApi.tla + ApiObserve.tla on the real API handlers; C18 adds DagStore.tla and the ptrace kill sweep of a save."""
import json, os, shutil, concurrent.futures as cf
import vp, record_checks as rc, sched_checks as sc


def observe_chunk(d):
    v, consumed, r = vp.observe(d, "ApiObserve", os.path.join(d, "trace.ndjson"))
    return v, consumed, vp.parse_prints(r["out"], "DETAIL"), vp.parse_prints(r["out"], "DRIFT")


def run(prop, tier, seed, replay=None):
    rep = vp.Report(prop, tier, seed, "model_checking")
    vh = vp.build_harness()
    work = vp.scratch(prop)
    try:
        q = tier == "quick"
        states, transitions, runs = rc.model_check(work, "MCApi", ["MC_C20.cfg"] if q else ["MC_C20.cfg", "MC_C20_deep.cfg"])
        if prop == "C18":
            s2, t2, r2 = rc.model_check(work, "DagStore", ["MC_C18.cfg"], workers=2)
            s3, t3, r3 = rc.model_check(work, "DagStoreConc", ["MC_C18_conc_unique.cfg"], workers=2)
            s4, t4, r4 = rc.model_check(work, "DagNames", ["MC_C18_names_excl.cfg"], workers=2)
            states, transitions, runs = states + s2 + s3 + s4, transitions + t2 + t3 + t4, runs + r2 + r3 + r4
        scenarios = []
        extra_replay = False
        if replay:
            rp = json.load(open(replay))["replay"]
            if rp.get("scenario"):
                scenarios.append(rp["scenario"])
            # a violation of the save sweep or of the simultaneous-request stages: those stages are small and deterministic,
            # the replay runs them whole
            extra_replay = any(k in rp for k in ("kill", "pair_scenario", "names_scenario"))
        else:
            d = os.path.join(work, "sim")
            os.makedirs(d)
            r = vp.tlc(d, "MCApi", "MC_C20_sim.cfg", workers=1, timeout=900, simulate="num=%d" % (100 if q else 2000),
                       extra=["-depth", "30", "-seed", str(seed)])
            seen = set()
            for obj in vp.parse_prints(r["out"], "BEHAVIOUR"):
                key = json.dumps(obj["ops"], sort_keys=True)
                if key not in seen:
                    seen.add(key)
                    ops = []
                    for o in obj["ops"]:
                        o = dict(o)
                        for k in ("req", "step", "value", "params"):
                            o.setdefault(k, "")
                        ops.append(o)
                    scenarios.append({"scen": 700000 + len(scenarios), "src": "model", "ops": ops})
            shutil.rmtree(d, ignore_errors=True)
            # fixed sequences: a DAG with recorded runs is deleted, another one with recorded runs is renamed onto the freed
            # name (the deleted DAG's empty history directory is still there), with and without the name being re-created in between
            def A(op, d, **kw):
                o = {"op": op, "d": d, "req": "", "step": "", "value": "", "params": ""}
                o.update(kw)
                return o
            leads = [
                [A("env-start", "b", req="r1"), A("env-finish", "b", status="finished"), A("delete", "b"),
                 A("env-start", "a", req="r2"), A("env-finish", "a", status="failed"), A("rename", "a", value="b"), A("mark-success", "b", req="r2", step="s1")],
                [A("env-start", "a", req="r1"), A("env-finish", "a", status="finished"), A("env-start", "b", req="r2"), A("env-crash", "b"),
                 A("delete", "b"), A("rename", "a", value="b"), A("env-start", "b", req="r3"), A("env-finish", "b", status="finished")],
                [A("env-start", "b", req="r1"), A("env-finish", "b", status="canceled"), A("delete", "b"), A("create", "b"), A("delete", "b"),
                 A("env-start", "a", req="r2"), A("env-finish", "a", status="finished"), A("rename", "a", value="b"), A("rename", "b", value="c")],
            ]
            for ops in leads:
                scenarios.append({"scen": 690000 + len(scenarios), "src": "lead", "ops": ops})
        scen_path = os.path.join(work, "scen.jsonl")
        with open(scen_path, "w") as f:
            for s in scenarios:
                f.write(json.dumps(s) + "\n")
        jobs = [(["api", "-scenarios", scen_path], os.path.join(work, "model.ndjson"), None)] if scenarios else []
        if not replay:
            n = 480 if q else 8000
            per = max(30, n // (vp.NCPU * 2))
            first = 1
            while first <= n:
                m = min(per, n - first + 1)
                jobs.append((["api", "-count", str(m), "-seed", str(seed * 32452843 + first), "-first", str(first)],
                             os.path.join(work, "api-%d.ndjson" % first), os.path.join(work, "api-%d.scen" % first)))
                first += m
        def do(j):
            return rc.run_vh(vh, j[0] + ["-out", j[1]] + (["-dump", j[2]] if j[2] else []), timeout=3000)
        with cf.ThreadPoolExecutor(max_workers=vp.NCPU) as ex:
            list(ex.map(do, jobs))
        by_id = {s["scen"]: s for s in scenarios}
        alltrace = os.path.join(work, "all.ndjson")
        nops = 0
        opcount = {}
        with open(alltrace, "w") as out:
            for _, tp, dp in jobs:
                with open(tp) as f:
                    for line in f:
                        if '"ev":"Op"' in line:
                            nops += 1
                        out.write(line)
                if dp:
                    for line in open(dp):
                        s = json.loads(line)
                        by_id[s["scen"]] = s
        for s in by_id.values():
            for o in s["ops"]:
                opcount[o["op"]] = opcount.get(o["op"], 0) + 1
        chunks = sc.split_trace(alltrace, vp.NCPU, os.path.join(work, "obs"))
        verdicts, events, details, drifts = [], 0, [], []
        with cf.ThreadPoolExecutor(max_workers=vp.NCPU) as ex:
            for v, c, dt, dr in ex.map(observe_chunk, chunks):
                verdicts += v
                events += c
                details += dt
                drifts += dr
        for dt in details:
            for c in dt["viol"]:
                a = dt["a"]
                # a refused create / save / rename / delete that nevertheless changed something (ApiObserve computes the clause
                # under C20's name) is a half-done edit of a definition: that is C18's business too
                if prop == "C18" and c == "C20_RefusedActionChangedSomething" and a["op"] in ("create", "save", "rename", "delete"):
                    c = "C18_RefusedEditChangedSomething"
                if not c.startswith(prop + "_"):
                    continue
                rep.violation({"clause": c, "op": a["op"], "running": dt["pre"]["live"].get(a["d"], "none") != "none", "resp": dt["resp"]},
                              {"scenario": by_id.get(dt["scen"]), "at": dt["i"], "action": a, "code": dt["code"], "pre": dt["pre"], "post": dt["post"],
                               "spawn": dt["spawn"], "stops": dt["stops"]})
        for dr in drifts[:5]:
            rep.drift.append("spec=ApiControl %s action=%s real=%s/%s model=%s" % (dr["what"], json.dumps(dr["a"]), dr["resp"], dr["code"], json.dumps(dr["model"])))
        rep.cov["drift_actions"] = len(drifts)
        consumed2 = 0
        if prop == "C18" and (not replay or extra_replay):
            rec = os.path.join(work, "save.ndjson")
            rc.run_vh(vh, ["savecrash", "-out", rec], env=dict(vp.GOENV, TMPDIR=work), timeout=1200)
            sv, consumed2 = rc.observe_records(work, "SaveCrashObserve", rec, nchunks=1)
            for v in sv:
                for c in v["viol"]:
                    r = v["rec"]
                    rep.violation({"clause": c, "op": "save-crash", "sys": r["sys"].split(" ")[0], "torn": r["torn"] >= 0},
                                  {"kill": {k: r[k] for k in ("old", "new", "k", "sys", "torn")}, "content": r["content"], "dir": r["dir"]})
            rep.cov["save_kill_points"] = consumed2
            # two saves of the same definition at the same moment (DagStoreConc.tla): every interleaving at the gate of the
            # verif build, and a free-running pair of savers with a reader
            import itertools
            evs = [("write", "a"), ("rename", "a"), ("write", "b"), ("rename", "b")]
            pairs = []
            for perm in itertools.permutations(evs):
                if perm.index(evs[0]) < perm.index(evs[1]) and perm.index(evs[2]) < perm.index(evs[3]):
                    pairs.append({"scen": 900000 + len(pairs), "src": "all interleavings", "steps": [{"a": a, "r": r} for a, r in perm]})
            pf = os.path.join(work, "pair.jsonl")
            with open(pf, "w") as f:
                for s in pairs:
                    f.write(json.dumps(s) + "\n")
            ptrace = os.path.join(work, "pair.ndjson")
            rc.run_vh(vh, ["savepair", "-scenarios", pf, "-stress", "1500" if q else "10000", "-out", ptrace], env=dict(vp.GOENV, TMPDIR=work), timeout=1200)
            pd = os.path.join(work, "pairobs")
            os.makedirs(pd)
            pv, pcons, _ = vp.observe(pd, "DagStoreConcTrace", ptrace)
            stress = [json.loads(l) for l in open(ptrace) if '"ev":"Stress"' in l]
            for v in pv:
                if "INFRA" in v["viol"]:
                    raise vp.Infra("savepair rig: %s" % json.dumps(v["rec"]))
                for c in v["viol"]:
                    if c.startswith("DRIFT"):
                        rep.drift.append("spec=DagStoreConc %s rec=%s" % (c, json.dumps(v["rec"], sort_keys=True)))
                    else:
                        rep.violation({"clause": c, "op": "save-pair", "stress": v["rec"].get("ev") == "Stress"},
                                      {"pair_scenario": next((s for s in pairs if s["scen"] == v["scen"]), None), "first_mismatch": v["rec"]})
            rep.cov["save_pair"] = {"interleavings": len(pairs), "gate_events_validated": pcons, "free_running": stress[0] if stress else None}
            consumed2 += pcons
            # two creates and a rename aimed at the same name at the same moment (DagNames.tla): TLC-simulated schedules and
            # two fixed ones through the gates after the existence checks
            def S(l):
                return [{"a": x.split()[0], "r": (x.split() + [""])[1]} for x in l]
            nscs = [{"scen": 910000, "src": "lead", "steps": S(["check c1", "check c2", "act c1", "save", "act c2"])},
                    {"scen": 910001, "src": "lead", "steps": S(["check r", "check c1", "act c1", "save", "act r"])}]
            nd = os.path.join(work, "namesim")
            os.makedirs(nd)
            r = vp.tlc(nd, "MCDagNames", "MC_C18_names_sim.cfg", workers=1, timeout=600, simulate="num=%d" % (300 if q else 3000),
                       extra=["-depth", "30", "-seed", str(seed)])
            seen = set()
            for obj in vp.parse_prints(r["out"], "BEHAVIOUR"):
                key = json.dumps(obj["steps"])
                if key not in seen:
                    seen.add(key)
                    nscs.append({"scen": 910002 + len(nscs), "src": "model", "steps": obj["steps"]})
            shutil.rmtree(nd, ignore_errors=True)
            nf = os.path.join(work, "names.jsonl")
            with open(nf, "w") as f:
                for s in nscs:
                    f.write(json.dumps(s) + "\n")
            ntrace = os.path.join(work, "names.ndjson")
            rc.run_vh(vh, ["savepair", "-names", "-scenarios", nf, "-out", ntrace], env=dict(vp.GOENV, TMPDIR=work), timeout=1200)
            nod = os.path.join(work, "namesobs")
            os.makedirs(nod)
            nv, ncons, _ = vp.observe(nod, "DagNamesTrace", ntrace)
            for v in nv:
                if "INFRA" in v["viol"]:
                    raise vp.Infra("names rig: %s" % json.dumps(v["rec"]))
                for c in v["viol"]:
                    if c.startswith("DRIFT"):
                        rep.drift.append("spec=DagNames %s rec=%s" % (c, json.dumps(v["rec"], sort_keys=True)))
                    else:
                        rep.violation({"clause": c, "op": "create-rename-pair", "by": v["rec"].get("r")},
                                      {"names_scenario": next((s for s in nscs if s["scen"] == v["scen"]), None), "first_mismatch": v["rec"], "before": v["before"]})
            rep.cov["same_target_requests"] = {"schedules_replayed": len(nscs), "gate_events_validated": ncons}
            consumed2 += ncons
        some = list(by_id.values())
        samples = [some[0], some[-1]] if some else []
        rep.cov.update({"states": states, "transitions": transitions, "model_checking_runs": runs,
                        "traces_validated_against_impl": len(verdicts), "api_actions_judged": nops, "actions_by_kind": opcount, "trace_events": events,
                        "model_behaviours_replayed": len(scenarios),
                        "evaluations": nops + consumed2, "distinct_nontrivial": len({json.dumps(s["ops"], sort_keys=True) for s in by_id.values() if len(s["ops"]) >= 5}),
                        "rule": "action sequences over DAGs a, b (existing) and c (free name) + an unknown id: start (6 parameter strings incl. quotes, =, $ and back-ticks), stop, retry, suspend, "
                                "mark-success / mark-failed (right / wrong / missing request id and step, runs of other DAGs), save (valid texts with the same steps, with a step inserted in front and with the steps reordered; invalid; empty), mark on a run recorded under an earlier text, rename (free / taken / same / empty name), "
                                "create, delete, unknown and missing action, interleaved with environment events that make a DAG running (a live status socket), finished, failed, canceled or crashed; "
                                "from TLC simulation of MCApi and a weighted seeded generator; after every action the whole abstract state is read back from disk; "
                                "evaluations = API actions judged (+ for C18: kill points of a save, each followed by a further save; the 6 interleavings of two simultaneous saves at the gate of the verif build and a free-running pair of savers with a reader); distinct = scenarios with at least 5 operations",
                        "samples": samples, "exhaustive": False})
        rep.assumptions += ["the executable spawned by the client is a stub that records its arguments; 'parameters unchanged' is checked on the argument vector after the CLI's quote stripping",
                            "'running' is a live status socket served by the rig at the DAG's real socket address",
                            "rename / save / delete are not issued on a DAG that is running (the property does not cover that)"]
        return rep.finish()
    finally:
        shutil.rmtree(work, ignore_errors=True)
